"""Rule-level helpers shared by the property modules."""
import re
from .facts import norm, op_local, op_base, callee_names, is_call_to, call_matches
from .analysis import (Test, defuse, value_tests, call_result_tests, requires, requires_failure,
                       ctor_sites, call_sites, field_accesses, ref_consumers, returns_of,
                       agg_shape, await_output, source_fn, family_of_type, switch_edges, Test)
from .report import AnchorMissing


def get_fn(F, rep, npath):
    try:
        f = F.fn(npath)
    except KeyError as e:
        raise AnchorMissing("function %s not found (%s)" % (npath, e))
    rep.fn(f)
    return f


def get_tree(F, rep, npath):
    try:
        t = F.tree_of(npath)
    except KeyError as e:
        raise AnchorMissing("function %s not found (%s)" % (npath, e))
    for f in t:
        rep.fn(f)
    return t


def body_of(F, rep, npath):
    """The body holding the user's code of a source-level function: for `async fn` the
    coroutine closure, one level deeper under #[instrument].  Chosen structurally: the
    largest coroutine body in the closure tree that is reached from the root through
    coroutine/closure aggregates; for plain fns the root itself."""
    tree = get_tree(F, rep, npath)
    root = tree[0]
    cands = [g for g in tree if g.coroutine]
    if not cands:
        return root
    # the user body is the coroutine with the most blocks whose path nests only {closure#0}
    # segments below the root (async fn desugaring / instrument wrapper)
    def only_zero(g):
        rest = g.path[len(root.path):]
        return re.fullmatch(r"(::\{closure#0\})+", rest) is not None
    direct = [g for g in cands if only_zero(g)]
    if direct:
        return max(direct, key=lambda g: len(g.blocks))
    return root


def find_calls(f, *names, regex=None):
    out = []
    for b, t in f.calls():
        if (names and is_call_to(t, *names)) or (regex and call_matches(t, regex)):
            out.append((b, t))
    return out


def tests_of_calls(f, calls, family=None, enum_success=None, awaited=None):
    tests = []
    for b, t in calls:
        ts, _ = call_result_tests(f, b, family=family, enum_success=enum_success, awaited=awaited)
        tests.extend(ts)
    return tests


def tree_with_helpers(F, f, depth=2):
    """The closure tree of `f` plus the trees of the private same-file workspace functions it
    calls (transitively to `depth`): where a maintainer may have moved part of the logic."""
    from .inline import _callee, default_select
    out, seen, work = [], set(), [(f, 0)]
    while work:
        g, d = work.pop()
        for h in F.tree(g):
            if h.path in seen:
                continue
            seen.add(h.path)
            out.append(h)
            if d >= depth:
                continue
            for b, t in h.calls():
                c = _callee(F, h, t)
                if c is not None and c.path not in seen and c.crate == f.crate and c.file == f.file and c.vis != "pub" and not c.derived:
                    work.append((c, d + 1))
    return out


def const_int(F, o):
    """integer value of a constant operand (literal or named const), else None"""
    if o["k"] != "const":
        return None
    m = re.match(r"^(?:const )?(-?\d+)_[ui](8|16|32|64|128|size)$", str(o.get("v")))
    if m:
        return int(m.group(1))
    if o.get("def"):
        try:
            c = F.const(o["def"])
            m = re.match(r"^(-?\d+)_[ui](8|16|32|64|128|size)$", str(c.get("val")))
            return int(m.group(1)) if m else None
        except KeyError:
            return None
    return None


def unreachable_when(F, f, site_bb, is_subject, values, is_empty_call=None):
    """Is `site_bb` unreachable whenever the subject quantity takes one of `values`?  Every
    comparison `subject <op> constant` (either order) is evaluated for the value and the edge
    not taken is removed; everything else stays non-deterministic.  Idiom-independent lower /
    upper bound proof (if-chains, range matches, early returns, helpers in the inlined view)."""
    from .analysis import reachable_fs
    OPS = {"Eq": lambda a, b: a == b, "Ne": lambda a, b: a != b, "Lt": lambda a, b: a < b,
           "Le": lambda a, b: a <= b, "Gt": lambda a, b: a > b, "Ge": lambda a, b: a >= b}
    tests = []
    for cb, st, ts in cmp_tests(f):
        a, b = st["rv"]["a"], st["rv"]["b"]
        ca, cb_ = const_int(F, a), const_int(F, b)
        if cb_ is not None and a["k"] != "const" and is_subject(a):
            tests.append((st["rv"]["op"], None, cb_, ts))
        elif ca is not None and b["k"] != "const" and is_subject(b):
            tests.append((st["rv"]["op"], ca, None, ts))
    # `x.is_empty()` of the container whose length is the subject: true iff the value is 0
    if is_empty_call is not None:
        for b, t in f.calls():
            if is_empty_call(t):
                ts, _ = call_result_tests(f, b, family="bool")
                tests.append(("Eq", None, 0, ts))
    # a `match len { 0 => .., _ => .. }` directly on the subject
    direct = []
    for b in sorted(f.reachable(0)):
        t = f.blocks[b]["t"]
        if t["k"] == "switch" and t["d"]["k"] in ("copy", "move") and not t["d"]["p"].get("p") and str(f.locals[t["d"]["p"]["l"]]) != "bool" and is_subject(t["d"]):
            direct.append((b, [(int(x), y) for x, y in t["targets"]], t["otherwise"]))
    if not tests and not direct:
        return False, 0
    for v in values:
        removed = set()
        for op, ca, cb_, ts in tests:
            truth = OPS[op](v, cb_) if ca is None else OPS[op](ca, v)
            for t in ts:
                removed.update(t.failure if truth else t.success)
        for b, tg, oth in direct:
            hit = dict(tg).get(v, oth)
            for x, y in tg:
                if y != hit:
                    removed.add((b, y))
            if oth != hit:
                removed.add((b, oth))
        if site_bb in reachable_fs(f, 0, removed_edges=removed):
            return False, len(tests) + len(direct)
    return True, len(tests) + len(direct)


def private_fields(F, rep, adt_path, why):
    """Type-level fact (replaces a compile-fail witness): no field of the ADT is nameable
    outside its defining crate, so code outside cannot build or alter a value by literal /
    field assignment and the enumerated constructors are the only ones."""
    adt = F.adt(adt_path)
    if adt is None:
        rep.missing("type", "ADT %s not found" % adt_path)
        return
    vis = {"%s.%s" % (v["name"], f["name"]): f["vis"] for v in adt["variants"] for f in v["fields"]}
    bad = sorted(k for k, v in vis.items() if v == "pub")
    rep.ob("type", not bad, adt_path, "no public field (%s): %s" % (why, bad or "all restricted"), "%s|private-fields" % adt_path)


def skey(F, f, what):
    """Line-number-free site key."""
    return "%s|%s" % (source_fn(F, f), what)


def site(f, bb=None):
    return "%s %s" % (f.loc(bb), f.npath)


def arg_ref_target(f, op):
    """For an argument operand that is a reference local, the local it refers to (through
    reborrows / moves), else the operand's own base local."""
    du = defuse(f)
    l = op_base(op)
    if l is None:
        return None
    seen = set()
    while l in du.ref_of and l not in seen:
        seen.add(l)
        l = du.ref_of[l]
    return l


def ref_source_place(f, local, depth=6):
    """If `local` is (a move/reborrow chain of) `&place`, return that place, else None."""
    for _ in range(depth):
        found = None
        for b, i, s in f.stmts():
            if s["k"] == "a" and s["lhs"]["l"] == local and not s["lhs"].get("p"):
                rv = s["rv"]
                if rv["k"] == "ref":
                    pr = rv["p"].get("p", [])
                    if pr and all(e[0] == "deref" for e in pr):
                        found = ("local", rv["p"]["l"])
                    else:
                        return rv["p"]
                elif rv["k"] == "use" and rv["o"]["k"] in ("copy", "move"):
                    if not rv["o"]["p"].get("p"):
                        found = ("local", rv["o"]["p"]["l"])
                    else:
                        return rv["o"]["p"]
                elif rv["k"] == "cast" and rv["o"]["k"] in ("copy", "move") and not rv["o"]["p"].get("p"):
                    found = ("local", rv["o"]["p"]["l"])
                break
        if not found:
            return {"l": local}
        local = found[1]
    return {"l": local}


def place_field_names(pl):
    return [e[2] for e in pl.get("p", []) if e[0] == "f"]


def nontracing_calls(f):
    for b, t in f.calls():
        if f.is_tracing(b):
            continue
        yield b, t


def ok_return_requires(f, tests):
    """Every assignment to the return place that can be a success value (not an
    `Err`/`None` aggregate, not a `from_residual`) requires the tests.  Returns list of
    (bb, ok, description)."""
    out = []
    for b, i, rv in returns_of(f):
        if i is None:
            # _0 = call(..)
            if is_call_to(rv, "core::ops::try_trait::FromResidual::from_residual"):
                continue
            desc = "return via call %s" % (callee_names(rv)[0] if callee_names(rv) else "?")
            out.append((b, requires(f, b, tests), desc))
            continue
        if rv["k"] == "agg" and rv["ak"] == "adt" and rv["variant"] in ("Err", "None", "Pending", "Break"):
            continue
        out.append((b, requires(f, b, tests), "return %s" % agg_shape(f, rv, 2)))
    return out


def const_value(F, path):
    try:
        return F.const(path)["val"]
    except KeyError:
        raise AnchorMissing("const %s not found" % path)


# ------------------------------------------------------------------------------------------
# tokio::select! arm attribution (DESIGN §4 C05)
# ------------------------------------------------------------------------------------------

def split_generics(ty):
    """`A<x, B<y,z>, w>` -> ('A', ['x', 'B<y,z>', 'w'])"""
    i = ty.find("<")
    if i < 0:
        return ty, []
    head = ty[:i]
    depth = 0
    args, cur = [], []
    for c in ty[i:]:
        if c == "<":
            depth += 1
            if depth == 1:
                continue
        elif c == ">":
            depth -= 1
            if depth == 0:
                break
        elif c == "," and depth == 1:
            args.append("".join(cur).strip())
            cur = []
            continue
        cur.append(c)
    if cur:
        args.append("".join(cur).strip())
    return head, args


class Select:
    def __init__(self, f, bb, local, out_types, arms):
        self.f = f
        self.bb = bb              # dispatch switch block
        self.local = local        # the Out<..> local
        self.out_types = out_types
        self.arms = arms          # variant index -> target bb

    def arm_by_output(self, regex):
        out = []
        for i, ty in enumerate(self.out_types):
            if re.search(regex, ty) and i in self.arms:
                out.append(i)
        return out

    def region(self, arm):
        """Blocks of the arm body: dominated by the arm's dispatch target."""
        tgt = self.arms[arm]
        dom = self.f.dominators()
        return {b for b, ds in dom.items() if tgt in ds}


def selects(f):
    """tokio::select! dispatches in a body: switch on the discriminant of a
    `__tokio_select_util::Out<..>` value; variant `_N` = N-th future of the select."""
    out = []
    for b in sorted(f.reachable(0)):
        t = f.blocks[b]["t"]
        if t["k"] != "switch":
            continue
        l = op_local(t["d"])
        if l is None:
            continue
        base = None
        for s in f.blocks[b]["s"]:
            if s["k"] == "a" and s["lhs"]["l"] == l and s["rv"]["k"] == "discr":
                base = s["rv"]["p"]["l"]
        if base is None:
            continue
        ty = f.locals[base]
        k = ty.find("__tokio_select_util::Out<")
        if k < 0 or "select" not in " ".join(t.get("mac") or []):
            continue
        if ty[:k].count("<") != ty[:k].count(">"):
            continue      # nested (e.g. Poll<Out<..>>): the await of the select, not its dispatch
        head, args = split_generics(ty[k:])
        arms = {}
        for v, tb in t["targets"]:
            v = int(v)
            if v < len(args):
                arms[v] = tb
        out.append(Select(f, b, base, args, arms))
    return out


# ------------------------------------------------------------------------------------------
# exact provenance: copy chains
# ------------------------------------------------------------------------------------------

_TRANSPARENT = ("core::clone::Clone::clone", "core::convert::Into::into", "core::convert::From::from",
                "core::borrow::Borrow::borrow", "core::ops::deref::Deref::deref",
                "core::ops::deref::DerefMut::deref_mut",
                "core::convert::AsRef::as_ref", "core::ops::try_trait::Try::branch",
                "core::future::into_future::IntoFuture::into_future", "core::pin::Pin::new_unchecked",
                "core::pin::Pin::new", "core::future::future::Future::poll",
                "tracing::instrument::Instrument::instrument", "core::pin::Pin::as_mut",
                "core::option::Option::as_ref", "core::option::Option::as_mut",
                "core::result::Result::as_ref", "core::option::Option::take",
                # success-payload preserving adapters
                "core::option::Option::ok_or", "core::option::Option::ok_or_else",
                "core::result::Result::map_err", "core::result::Result::ok",
                "core::option::Option::copied", "core::option::Option::cloned",
                # observers that hand the value back unchanged
                "core::result::Result::inspect_err", "core::result::Result::inspect", "core::option::Option::inspect")

_THIN_CACHE = {}


def thin_accessor(F, npath):
    """If the workspace function `npath` merely returns (a copy of) a field path of its
    first argument, return that field path (tuple of names), else None."""
    if F is None:
        return None
    if npath in _THIN_CACHE:
        return _THIN_CACHE[npath]
    res = None
    try:
        g = F.fn(npath)
    except KeyError:
        g = None
    _THIN_CACHE[npath] = None
    if g is not None and len(g.blocks) <= 6 and not any(True for _ in g.calls()):
        srcs = copy_sources(g, 0, depth=6)
        if len(srcs) == 1:
            x = next(iter(srcs))
            if x[0] == "arg" and x[1] == 1:
                res = x[2]
    _THIN_CACHE[npath] = res
    return res


def _fields_of(p):
    return tuple(e[2] if e[2] else str(e[1]) for e in p.get("p", []) if e[0] == "f")


def copy_sources(f, local, depth=24, transparent=(), stop=(), F=None):
    """Follow `local` backwards through *value-preserving* definitions only (copies, moves,
    reborrows, derefs, `?`, `.await`, Clone/Into, and thin field accessors of the workspace
    when `F` is given).  Returns a set of source descriptions:
      ('place', local, fields) | ('arg', n, fields) | ('call', callee, fields) |
      ('const', text) | ('agg', adt::variant) | ('other', kind)
    where `fields` is the tuple of field names projected out of the source (variant
    payloads appear as "0").  Every definition of every local on the way is followed, so a
    value that may come from two places yields two sources."""
    out = set()
    seen = set()
    trans = set(_TRANSPARENT) | set(transparent)

    def defs_of(l):
        ds = []
        for b, i, s in f.stmts():
            if s["k"] == "a" and s["lhs"]["l"] == l and not s["lhs"].get("p"):
                ds.append(("stmt", s["rv"]))
        for b, t in f.calls():
            if t["k"] == "call" and t["dest"]["l"] == l and not t["dest"].get("p"):
                ds.append(("call", t))
        return ds

    def walk(l, fields, d):
        key = (l, fields)
        if key in seen or d > depth:
            return
        seen.add(key)
        if l in stop:
            out.add(("place", l, fields))
            return
        ds = defs_of(l)
        if not ds:
            if 1 <= l <= f.argc:
                out.add(("arg", l, fields))
            else:
                out.add(("place", l, fields))
            return
        for kind, x in ds:
            if kind == "call":
                names = callee_names(x)
                if x["args"] and x["args"][0]["k"] in ("copy", "move"):
                    a = x["args"][0]
                    if any(n in trans for n in names):
                        walk(a["p"]["l"], _fields_of(a["p"]) + fields, d + 1)
                        continue
                    thin = None
                    for n in names:
                        thin = thin_accessor(F, n)
                        if thin is not None:
                            break
                    if thin is not None:
                        walk(a["p"]["l"], _fields_of(a["p"]) + thin + fields, d + 1)
                        continue
                out.add(("call", names[0] if names else "?", fields))
                continue
            rv = x
            if rv["k"] in ("use", "cast") and rv["o"]["k"] in ("copy", "move"):
                p = rv["o"]["p"]
                if any(e[0] in ("idx", "ci", "sub") for e in p.get("p", [])):
                    out.add(("other", "index"))
                    continue
                walk(p["l"], _fields_of(p) + fields, d + 1)
            elif rv["k"] == "ref":
                p = rv["p"]
                walk(p["l"], _fields_of(p) + fields, d + 1)
            elif rv["k"] in ("use", "cast") and rv["o"]["k"] == "const":
                out.add(("const", rv["o"].get("def") or rv["o"].get("v") or "?"))
            elif rv["k"] == "agg":
                if rv["ak"] == "adt" and fields and rv.get("fields") is not None and (fields[0] in rv["fields"] or (fields[0].isdigit() and int(fields[0]) < len(rv["ops"]) and not rv["fields"])):
                    # reading a field of a freshly built value (`Some(x)` .0, `S { a, .. }` .a)
                    idx = rv["fields"].index(fields[0]) if fields[0] in rv["fields"] else int(fields[0])
                    o = rv["ops"][idx]
                    if o["k"] in ("copy", "move"):
                        walk(o["p"]["l"], _fields_of(o["p"]) + fields[1:], d + 1)
                    elif o["k"] == "const":
                        out.add(("const", o.get("def") or o.get("v") or "?"))
                elif rv["ak"] == "adt" and fields and not rv["ops"]:
                    pass        # payload of a payload-less variant (None): infeasible read
                elif rv["ak"] == "adt":
                    out.add(("agg", "%s::%s" % (rv["adt"], rv["variant"])))
                elif rv["ak"] == "tuple" and fields and fields[0].isdigit() and int(fields[0]) < len(rv["ops"]):
                    # `(a, b).1`: the scrutinee tuple of a `match (x, y)` - project the operand
                    o = rv["ops"][int(fields[0])]
                    if o["k"] in ("copy", "move"):
                        walk(o["p"]["l"], _fields_of(o["p"]) + fields[1:], d + 1)
                    elif o["k"] == "const":
                        out.add(("const", o.get("def") or o.get("v") or "?"))
                    else:
                        out.add(("agg", rv["ak"]))
                else:
                    out.add(("agg", rv["ak"]))
            else:
                out.add(("other", rv["k"]))

    walk(local, (), 0)
    return out


# ------------------------------------------------------------------------------------------
# place types (through workspace ADT tables)
# ------------------------------------------------------------------------------------------

def place_ty(F, f, pl):
    """Type string of a place, resolved through field projections on workspace ADTs.
    Returns None when it cannot be determined."""
    ty = f.locals[pl["l"]]
    for e in pl.get("p", []):
        if e[0] == "deref":
            if ty is None:
                continue
            if ty.startswith("&mut "):
                ty = ty[5:]
            elif ty.startswith("&"):
                ty = ty[1:]
            elif ty.startswith("alloc::boxed::Box<"):
                ty = split_generics(ty)[1][0]
        elif e[0] == "f":
            owner = e[3]
            name = e[2]
            ty = None
            adt = None
            variant = None
            try:
                adt = F.adt(owner)
            except KeyError:
                if "::" in owner:
                    o2, variant = owner.rsplit("::", 1)
                    try:
                        adt = F.adt(o2)
                    except KeyError:
                        adt = None
            if adt is not None:
                for v in adt["variants"]:
                    if variant is not None and v["name"] != variant:
                        continue
                    for fd in v["fields"]:
                        if fd["name"] == name:
                            ty = fd["ty"]
            elif owner in ("core::result::Result::Ok", "core::result::Result::Err",
                           "core::option::Option::Some") and name == "0":
                # payload of Result/Option: take from the base type's generics
                ty = None
        elif e[0] == "dc":
            pass
        else:
            ty = None
    return ty


def controlling_switches(f, bb):
    """Switch blocks S such that `bb` becomes unreachable from entry when one single
    out-edge of S is removed (bb is control-dependent on S)."""
    out = []
    for s in sorted(f.reachable(0)):
        t = f.blocks[s]["t"]
        if t["k"] != "switch":
            continue
        for tgt in set(f.succs()[s]):
            if bb not in f.reachable(0, removed_edges={(s, tgt)}):
                out.append((s, tgt))
                break
    return out


def calls_on_field(f, field, *names, regex=None, owner=None):
    """Calls whose receiver (first argument) is a reference to a place ending in `.field`."""
    out = []
    for b, t in find_calls(f, *names, regex=regex):
        if not t["args"]:
            continue
        l = op_base(t["args"][0])
        if l is None:
            continue
        a0 = t["args"][0]
        pl = a0["p"] if a0["p"].get("p") else ref_source_place(f, l)
        if pl is None:
            continue
        fs = [(e[2], e[3]) for e in pl.get("p", []) if e[0] == "f"]
        if fs and fs[-1][0] == field and (owner is None or fs[-1][1] == owner):
            out.append((b, t))
    return out


def const_returns(f):
    """Blocks assigning a literal constant to the return place: [(bb, value-string)]."""
    out = []
    for b, i, rv in returns_of(f):
        if i is not None and rv["k"] == "use" and rv["o"]["k"] == "const":
            out.append((b, rv["o"].get("v")))
    return out


def edge_guard(f, bb, tests, success=True):
    """bb requires the success (or failure) edge of the given tests."""
    if success:
        return requires(f, bb, tests)
    return requires_failure(f, bb, tests)


def operand_sources(f, op, **kw):
    """copy_sources for an operand (constants are their own source)."""
    if op["k"] == "const":
        return {("const", op.get("def") or op.get("v") or "?")}
    if op["p"].get("p"):
        return {("place", op["p"]["l"], _fields_of(op["p"]))} if not kw.get("follow") else copy_sources(f, op["p"]["l"], **{k: v for k, v in kw.items() if k != "follow"})
    return copy_sources(f, op["p"]["l"], **{k: v for k, v in kw.items() if k != "follow"})


def calls_reaching(F, f, targets, depth=2):
    """Calls in `f` that are to one of `targets` or to a workspace function whose closure
    tree (transitively, up to `depth`) calls one of them."""
    targets = set(targets)
    memo = {}

    def reaches(npath, d):
        if npath in targets:
            return True
        if d <= 0:
            return False
        if npath in memo:
            return memo[npath]
        memo[npath] = False
        if not F.has_fn(npath):
            return False
        res = False
        for g in F.tree_of(npath):
            for b, t in g.calls():
                for n in callee_names(t):
                    if n in targets or (n.startswith(("iroh", "<iroh")) and reaches(n, d - 1)):
                        res = True
                        break
                if res:
                    break
            if res:
                break
        memo[npath] = res
        return res

    out = []
    for b, t in f.calls():
        if any(reaches(n, depth) for n in callee_names(t)):
            out.append((b, t))
    return out


def resolve_place(f, pl):
    """Resolve `(*_r)...` where `_r` is a reference local to the place it refers to."""
    pr = pl.get("p", [])
    if pr and pr[0][0] == "deref":
        src = ref_source_place(f, pl["l"])
        if src is not None and src.get("p"):
            return {"l": src["l"], "p": list(src["p"]) + list(pr[1:])}
    return pl


def field_tests(f, field, family="option"):
    """Switches on the discriminant of a place ending in `.field` (directly or through a
    reference local): list of Test."""
    from .analysis import _SUCCESS_DISCR
    out = []
    for b in sorted(f.reachable(0)):
        t = f.blocks[b]["t"]
        if t["k"] != "switch":
            continue
        l = op_local(t["d"])
        if l is None:
            continue
        for s in f.blocks[b]["s"]:
            if s["k"] == "a" and s["lhs"]["l"] == l and s["rv"]["k"] == "discr":
                pl = resolve_place(f, s["rv"]["p"])
                names = [e[2] for e in pl.get("p", []) if e[0] == "f"]
                if not names and not [e for e in pl.get("p", []) if e[0] != "deref"]:
                    # `self.field.as_mut()` / `.as_ref()` ...: same discriminant as the field itself
                    dc = def_call(f, pl["l"])
                    if dc is not None and call_matches(dc[1], r"^core::(option::Option|result::Result)::(as_mut|as_ref|as_deref|as_deref_mut|as_pin_mut|as_pin_ref)$") and dc[1]["args"] and recv_field(f, dc[1]["args"][0]) == field:
                        names = [field]
                if names and names[-1] == field:
                    su, fa = switch_edges(f, b, _SUCCESS_DISCR[family])
                    out.append(Test(b, su, fa, 0, "discr:" + family, False, l))
    return out


def cmp_tests(f, ops=("Gt", "Ge", "Lt", "Le", "Eq", "Ne"), pred=None):
    """Comparison statements `x = Op(a, b)` and the tests of their boolean result:
    list of (bb, stmt, tests)."""
    out = []
    for b, i, s in f.stmts():
        if s["k"] == "a" and s["rv"]["k"] == "bin" and s["rv"]["op"] in ops and not s["lhs"].get("p"):
            if pred is None or pred(s["rv"]):
                ts, _ = value_tests(f, [s["lhs"]["l"]], family="bool")
                out.append((b, s, ts))
    return out


def presence_tests(f, field):
    """Tests of `self.<field>` (an Option) being Some, in any accepted idiom: `.is_some()`,
    `.is_none()` (polarity swapped), or a match / if-let on the field's discriminant.
    Success edges = the field is Some.  Returns (tests, sites)."""
    out, sites = [], []
    for b, t in f.calls():
        if call_matches(t, r"^core::option::Option::(is_some|is_none)$") and t["args"] and recv_field(f, t["args"][0]) == field:
            ts, _ = call_result_tests(f, b, family="bool")
            if callee_names(t)[0].endswith("is_none"):
                ts = [Test(x.bb, x.failure, x.success, x.level, x.family, not x.neg, x.local) for x in ts]
            out += ts
            sites.append(b)
    for t_ in field_tests(f, field):
        out.append(t_)
        sites.append(t_.bb)
    return out, sites


def emptiness_tests(f, field, recv=None):
    """Tests of `self.<field>` being empty, in any of the accepted idioms: `.is_empty()`,
    `.len() == 0`, `.len() != 0`, `.len() > 0`, `0 < .len()`, `.len() < 1` ...; success
    edges = the collection is empty.  Returns (tests, sites)."""
    # `recv` (optional): predicate on the receiver operand, for a collection that is a local /
    # parameter rather than a field of self
    is_recv = recv if recv is not None else (lambda a: recv_field(f, a) == field)
    out, sites = [], []
    for b, t in f.calls():
        if call_matches(t, r"::is_empty$") and t["args"] and is_recv(t["args"][0]):
            ts, _ = call_result_tests(f, b, family="bool")
            out += ts
            sites.append(b)
    lens = {t["dest"]["l"]: b for b, t in f.calls() if call_matches(t, r"::len$") and t["args"] and is_recv(t["args"][0]) and not t["dest"].get("p")}
    if lens:
        du = defuse(f)

        def is_len(o):
            l = op_base(o)
            return l is not None and any(x[0] == "call" and x[1].endswith("::len") for x in copy_sources(f, l)) and any(d in lens for d in du.closure(l))

        def const(o):
            if o["k"] != "const":
                return None
            m = re.match(r"(?:const )?(\d+)_", str(o.get("v")))
            return int(m.group(1)) if m else None
        for b, st, ts in cmp_tests(f):
            rv = st["rv"]
            a, c, op = rv["a"], rv["b"], rv["op"]
            if is_len(c) and const(a) is not None:
                a, c = c, a
                op = {"Gt": "Lt", "Lt": "Gt", "Ge": "Le", "Le": "Ge"}.get(op, op)
            if not (is_len(a) and const(c) is not None):
                continue
            k = const(c)
            # truth of the comparison <=> empty ?
            if (op, k) in (("Eq", 0), ("Lt", 1), ("Le", 0)):
                empty_on_true = True
            elif (op, k) in (("Ne", 0), ("Gt", 0), ("Ge", 1)):
                empty_on_true = False
            else:
                continue
            for t_ in ts:
                out.append(t_ if empty_on_true else Test(t_.bb, t_.failure, t_.success, t_.level, t_.family, not t_.neg, t_.local))
            sites.append(b)
    return out, sites


def field_writes(f, field, owner=None):
    """Assignments to a place ending in `.field`: list of (bb, idx, stmt)."""
    out = []
    for b, i, s in f.stmts():
        if s["k"] != "a":
            continue
        pr = [e for e in s["lhs"].get("p", []) if e[0] == "f"]
        if pr and pr[-1][2] == field and (owner is None or pr[-1][3] == owner):
            out.append((b, i, s))
    return out


# ------------------------------------------------------------------------------------------
# match-arm tables (DESIGN §3.8)
# ------------------------------------------------------------------------------------------

def enum_switches(F, f, enum_path):
    """Switches on the discriminant of a value of workspace enum `enum_path`:
    list of (bb, place, {variant name: target bb}, otherwise bb)."""
    adt = F.adt(enum_path)
    by_discr = {int(v["discr"]): v["name"] for v in adt["variants"]}
    out = []
    for b in sorted(f.reachable(0)):
        t = f.blocks[b]["t"]
        if t["k"] != "switch":
            continue
        l = op_local(t["d"])
        if l is None:
            continue
        for s in f.blocks[b]["s"]:
            if s["k"] == "a" and s["lhs"]["l"] == l and s["rv"]["k"] == "discr":
                pl = s["rv"]["p"]
                ty = place_ty(F, f, pl) or ""
                ty = ty.lstrip("&")
                if ty.startswith("mut "):
                    ty = ty[4:]
                if ty == enum_path or ty.startswith(enum_path + "<"):
                    arms = {}
                    for v, tb in t["targets"]:
                        if int(v) in by_discr:
                            arms[by_discr[int(v)]] = tb
                    out.append((b, pl, arms, t["otherwise"]))
    return out


def arm_region(f, switch_bb, target):
    """Blocks that belong to the arm entered through edge switch_bb -> target: reachable from
    target and not reachable from entry when that edge is removed."""
    without = f.reachable(0, removed_edges={(switch_bb, target)})
    return {b for b in f.reachable(target) if b not in without}


def arm_regions(f, switch_bb, arms, otherwise=None):
    """Arms that share a target share a region: {frozenset(variants): region}."""
    by_target = {}
    for v, tb in arms.items():
        by_target.setdefault(tb, set()).add(v)
    out = {}
    for tb, vs in by_target.items():
        # remove *all* edges into tb from the switch (one edge in the CFG)
        out[frozenset(vs)] = arm_region(f, switch_bb, tb)
    return out


def aggregates_in(f, blocks, adt=None):
    out = []
    for b in sorted(blocks):
        for i, s in enumerate(f.blocks[b]["s"]):
            if s["k"] == "a" and s["rv"]["k"] == "agg" and s["rv"]["ak"] == "adt" and (adt is None or s["rv"]["adt"] == adt):
                out.append((b, i, s["rv"]))
    return out


def calls_in(f, blocks):
    return [(b, f.blocks[b]["t"]) for b in sorted(blocks) if f.blocks[b]["t"]["k"] == "call"]


# ------------------------------------------------------------------------------------------
# partial arithmetic: division / remainder by a possibly-zero value (DESIGN §3.9)
# ------------------------------------------------------------------------------------------

def _is_zero_const(o):
    import re as _r
    return o["k"] == "const" and _r.match(r"^(?:const )?0(_|$)", str(o.get("v", ""))) is not None


def _nonzero_const(o):
    import re as _r
    m = _r.match(r"^(?:const )?(-?\d+)(_|$)", str(o.get("v", ""))) if o["k"] == "const" else None
    return bool(m) and int(m.group(1)) != 0


def divisions(f):
    """Div / Rem statements: [(bb, idx, stmt)]."""
    return [(b, i, s) for b, i, s in f.stmts() if s["k"] == "a" and s["rv"]["k"] == "bin" and s["rv"]["op"] in ("Div", "Rem")]


def nonzero_guard(f, bb, divisor_op):
    """Is the divisor proven non-zero at `bb`?  Accepted proofs: non-zero literal; a NonZero*
    typed source; a comparison of the same value with 0 (==, !=, >, <, >=1) whose non-zero
    edge guards `bb`; max(x, c>=1).  Returns (ok, reason)."""
    if divisor_op["k"] == "const":
        return (_nonzero_const(divisor_op), "literal %s" % divisor_op.get("v"))
    l = op_base(divisor_op)
    src = copy_sources(f, l)
    du = defuse(f)
    # NonZero provenance
    for x in src:
        if x[0] == "call" and ("NonZero" in x[1] and x[1].endswith("::get")):
            return True, "NonZero::get"
    if any("core::num::nonzero::NonZero" in f.locals[y] for y in du.closure(l)) and all(x[0] in ("call", "place", "arg") for x in src) and \
            all((x[0] != "call") or ("NonZero" in x[1] or x[1].startswith("core::convert::")) for x in src):
        return True, "derived from a NonZero value by conversion"
    for x in src:
        if x[0] == "call" and x[1] in ("core::cmp::Ord::max", "core::cmp::max"):
            for b, t in f.calls():
                if is_call_to(t, "core::cmp::Ord::max", "core::cmp::max") and t["dest"]["l"] in du.closure(l) | {l}:
                    if any(_nonzero_const(a) for a in t["args"]):
                        return True, "max(_, non-zero literal)"
    # comparisons of the same (unsigned) value with a constant: which edge implies x >= 1
    def small_const(o):
        if o["k"] != "const":
            return None
        m = re.match(r"^(?:const )?(\d+)_u", str(o.get("v")))
        return int(m.group(1)) if m else None
    MIRROR = {"Gt": "Lt", "Lt": "Gt", "Ge": "Le", "Le": "Ge", "Eq": "Eq", "Ne": "Ne"}
    for cb, s, ts in cmp_tests(f, ops=("Eq", "Ne", "Gt", "Lt", "Ge", "Le")):
        a, b2 = s["rv"]["a"], s["rv"]["b"]
        op = s["rv"]["op"]
        if small_const(b2) is not None and a["k"] != "const":
            val, c = a, small_const(b2)
        elif small_const(a) is not None and b2["k"] != "const":
            val, c, op = b2, small_const(a), MIRROR[op]
        else:
            continue
        if copy_sources(f, op_base(val)) != src:
            continue
        # now the test reads `x <op> c`
        true_nz = (op == "Eq" and c >= 1) or op == "Gt" or (op == "Ge" and c >= 1) or (op == "Ne" and c == 0)
        false_nz = (op == "Ne" and c >= 1) or (op == "Lt" and c >= 1) or op == "Le" or (op == "Eq" and c == 0)
        if true_nz and requires(f, bb, ts):
            return True, "guarded by `x %s %d`" % (op, c)
        if false_nz and requires_failure(f, bb, ts):
            return True, "guarded by the false edge of `x %s %d`" % (op, c)
    return False, "divisor %s has no non-zero proof (sources %s)" % ("_%d" % l, sorted(map(str, src)))


def recv_field(f, op):
    """Name of the field a reference operand points at (`&x.a.b` -> 'b'), else None."""
    if op["k"] not in ("copy", "move"):
        return None
    pl = op["p"] if op["p"].get("p") else ref_source_place(f, op["p"]["l"])
    if pl is None:
        return None
    pl = resolve_place(f, pl)
    names = [e[2] for e in pl.get("p", []) if e[0] == "f"]
    return names[-1] if names else None


def def_call(f, l, depth=8):
    """If `l` is (a chain of single-definition copies of) a call result, return (bb, term)."""
    for _ in range(depth):
        ds = [st for bb, ii, st in f.stmts() if st["k"] == "a" and st["lhs"]["l"] == l and not st["lhs"].get("p")]
        cs = [(bb, t) for bb, t in f.calls() if t["k"] == "call" and t["dest"]["l"] == l and not t["dest"].get("p")]
        if len(cs) == 1 and not ds:
            return cs[0]
        if len(ds) == 1 and not cs and ds[0]["rv"]["k"] == "use" and op_local(ds[0]["rv"]["o"]) is not None:
            l = op_local(ds[0]["rv"]["o"])
            continue
        return None
    return None
