"""Rule-level helpers shared by the property modules."""
import re
from .facts import norm, op_local, op_base, callee_names, is_call_to, call_matches
from .analysis import (defuse, value_tests, call_result_tests, requires, requires_failure,
                       ctor_sites, call_sites, field_accesses, ref_consumers, returns_of,
                       agg_shape, await_output, source_fn, family_of_type, switch_edges, Test)
from .report import AnchorMissing


def get_fn(F, rep, npath):
    try:
        f = F.fn(npath)
    except KeyError as e:
        raise AnchorMissing("function %s not found (%s)" % (npath, e))
    rep.fn(f)
    return f


def get_tree(F, rep, npath):
    try:
        t = F.tree_of(npath)
    except KeyError as e:
        raise AnchorMissing("function %s not found (%s)" % (npath, e))
    for f in t:
        rep.fn(f)
    return t


def body_of(F, rep, npath):
    """The body holding the user's code of a source-level function: for `async fn` the
    coroutine closure, one level deeper under #[instrument].  Chosen structurally: the
    largest coroutine body in the closure tree that is reached from the root through
    coroutine/closure aggregates; for plain fns the root itself."""
    tree = get_tree(F, rep, npath)
    root = tree[0]
    cands = [g for g in tree if g.coroutine]
    if not cands:
        return root
    # the user body is the coroutine with the most blocks whose path nests only {closure#0}
    # segments below the root (async fn desugaring / instrument wrapper)
    def only_zero(g):
        rest = g.path[len(root.path):]
        return re.fullmatch(r"(::\{closure#0\})+", rest) is not None
    direct = [g for g in cands if only_zero(g)]
    if direct:
        return max(direct, key=lambda g: len(g.blocks))
    return root


def find_calls(f, *names, regex=None):
    out = []
    for b, t in f.calls():
        if (names and is_call_to(t, *names)) or (regex and call_matches(t, regex)):
            out.append((b, t))
    return out


def tests_of_calls(f, calls, family=None, enum_success=None, awaited=None):
    tests = []
    for b, t in calls:
        ts, _ = call_result_tests(f, b, family=family, enum_success=enum_success, awaited=awaited)
        tests.extend(ts)
    return tests


def skey(F, f, what):
    """Line-number-free site key."""
    return "%s|%s" % (source_fn(F, f), what)


def site(f, bb=None):
    return "%s %s" % (f.loc(bb), f.npath)


def arg_ref_target(f, op):
    """For an argument operand that is a reference local, the local it refers to (through
    reborrows / moves), else the operand's own base local."""
    du = defuse(f)
    l = op_base(op)
    if l is None:
        return None
    seen = set()
    while l in du.ref_of and l not in seen:
        seen.add(l)
        l = du.ref_of[l]
    return l


def ref_source_place(f, local, depth=6):
    """If `local` is (a move/reborrow chain of) `&place`, return that place, else None."""
    for _ in range(depth):
        found = None
        for b, i, s in f.stmts():
            if s["k"] == "a" and s["lhs"]["l"] == local and not s["lhs"].get("p"):
                rv = s["rv"]
                if rv["k"] == "ref":
                    pr = rv["p"].get("p", [])
                    if pr and all(e[0] == "deref" for e in pr):
                        found = ("local", rv["p"]["l"])
                    else:
                        return rv["p"]
                elif rv["k"] == "use" and rv["o"]["k"] in ("copy", "move"):
                    if not rv["o"]["p"].get("p"):
                        found = ("local", rv["o"]["p"]["l"])
                    else:
                        return rv["o"]["p"]
                elif rv["k"] == "cast" and rv["o"]["k"] in ("copy", "move") and not rv["o"]["p"].get("p"):
                    found = ("local", rv["o"]["p"]["l"])
                break
        if not found:
            return {"l": local}
        local = found[1]
    return {"l": local}


def place_field_names(pl):
    return [e[2] for e in pl.get("p", []) if e[0] == "f"]


def nontracing_calls(f):
    for b, t in f.calls():
        if f.is_tracing(b):
            continue
        yield b, t


def ok_return_requires(f, tests):
    """Every assignment to the return place that can be a success value (not an
    `Err`/`None` aggregate, not a `from_residual`) requires the tests.  Returns list of
    (bb, ok, description)."""
    out = []
    for b, i, rv in returns_of(f):
        if i is None:
            # _0 = call(..)
            if is_call_to(rv, "core::ops::try_trait::FromResidual::from_residual"):
                continue
            desc = "return via call %s" % (callee_names(rv)[0] if callee_names(rv) else "?")
            out.append((b, requires(f, b, tests), desc))
            continue
        if rv["k"] == "agg" and rv["ak"] == "adt" and rv["variant"] in ("Err", "None", "Pending", "Break"):
            continue
        out.append((b, requires(f, b, tests), "return %s" % agg_shape(f, rv, 2)))
    return out


def const_value(F, path):
    try:
        return F.const(path)["val"]
    except KeyError:
        raise AnchorMissing("const %s not found" % path)


# ------------------------------------------------------------------------------------------
# tokio::select! arm attribution (DESIGN §4 C05)
# ------------------------------------------------------------------------------------------

def split_generics(ty):
    """`A<x, B<y,z>, w>` -> ('A', ['x', 'B<y,z>', 'w'])"""
    i = ty.find("<")
    if i < 0:
        return ty, []
    head = ty[:i]
    depth = 0
    args, cur = [], []
    for c in ty[i:]:
        if c == "<":
            depth += 1
            if depth == 1:
                continue
        elif c == ">":
            depth -= 1
            if depth == 0:
                break
        elif c == "," and depth == 1:
            args.append("".join(cur).strip())
            cur = []
            continue
        cur.append(c)
    if cur:
        args.append("".join(cur).strip())
    return head, args


class Select:
    def __init__(self, f, bb, local, out_types, arms):
        self.f = f
        self.bb = bb              # dispatch switch block
        self.local = local        # the Out<..> local
        self.out_types = out_types
        self.arms = arms          # variant index -> target bb

    def arm_by_output(self, regex):
        out = []
        for i, ty in enumerate(self.out_types):
            if re.search(regex, ty) and i in self.arms:
                out.append(i)
        return out

    def region(self, arm):
        """Blocks of the arm body: dominated by the arm's dispatch target."""
        tgt = self.arms[arm]
        dom = self.f.dominators()
        return {b for b, ds in dom.items() if tgt in ds}


def selects(f):
    """tokio::select! dispatches in a body: switch on the discriminant of a
    `__tokio_select_util::Out<..>` value; variant `_N` = N-th future of the select."""
    out = []
    for b in sorted(f.reachable(0)):
        t = f.blocks[b]["t"]
        if t["k"] != "switch":
            continue
        l = op_local(t["d"])
        if l is None:
            continue
        base = None
        for s in f.blocks[b]["s"]:
            if s["k"] == "a" and s["lhs"]["l"] == l and s["rv"]["k"] == "discr":
                base = s["rv"]["p"]["l"]
        if base is None:
            continue
        ty = f.locals[base]
        head, args = split_generics(ty)
        if not head.endswith("::Out") or "select" not in " ".join(t.get("mac") or []):
            continue
        arms = {}
        for v, tb in t["targets"]:
            v = int(v)
            if v < len(args):
                arms[v] = tb
        out.append(Select(f, b, base, args, arms))
    return out


# ------------------------------------------------------------------------------------------
# exact provenance: copy chains
# ------------------------------------------------------------------------------------------

_TRANSPARENT = ("core::clone::Clone::clone", "core::convert::Into::into", "core::convert::From::from",
                "core::borrow::Borrow::borrow", "core::ops::deref::Deref::deref",
                "core::convert::AsRef::as_ref")


def copy_sources(f, local, depth=12, transparent=(), stop=()):
    """Follow `local` backwards through *value-preserving* definitions only (copies, moves,
    reborrows, derefs, Clone/Into/thin accessors listed in `transparent`).  Returns a set of
    source descriptions:  ('place', local, (field names..))  |  ('arg', n)  |
    ('call', callee)  |  ('const', text)  |  ('agg', adt::variant) | ('other', kind).
    Every definition of every local on the way is followed, so a value that may come from
    two places yields two sources."""
    out = set()
    seen = set()
    trans = set(_TRANSPARENT) | set(transparent)

    def defs_of(l):
        ds = []
        for b, i, s in f.stmts():
            if s["k"] == "a" and s["lhs"]["l"] == l and not s["lhs"].get("p"):
                ds.append(("stmt", s["rv"]))
        for b, t in f.calls():
            if t["k"] == "call" and t["dest"]["l"] == l and not t["dest"].get("p"):
                ds.append(("call", t))
        return ds

    def walk(l, fields, d):
        key = (l, fields)
        if key in seen or d > depth:
            return
        seen.add(key)
        if l in stop:
            out.add(("place", l, fields))
            return
        ds = defs_of(l)
        if not ds:
            if 1 <= l <= f.argc:
                out.add(("arg", l, fields))
            else:
                out.add(("place", l, fields))
            return
        for kind, x in ds:
            if kind == "call":
                names = callee_names(x)
                if any(n in trans for n in names) and x["args"]:
                    a = x["args"][0]
                    if a["k"] in ("copy", "move"):
                        nf = tuple(e[2] for e in a["p"].get("p", []) if e[0] == "f")
                        walk(a["p"]["l"], nf + fields, d + 1)
                        continue
                out.add(("call", names[0] if names else "?"))
                continue
            rv = x
            if rv["k"] in ("use", "cast") and rv["o"]["k"] in ("copy", "move"):
                p = rv["o"]["p"]
                nf = tuple(e[2] for e in p.get("p", []) if e[0] == "f")
                if any(e[0] in ("idx", "ci", "sub") for e in p.get("p", [])):
                    out.add(("other", "index"))
                    continue
                walk(p["l"], nf + fields, d + 1)
            elif rv["k"] == "ref":
                p = rv["p"]
                nf = tuple(e[2] for e in p.get("p", []) if e[0] == "f")
                walk(p["l"], nf + fields, d + 1)
            elif rv["k"] in ("use", "cast") and rv["o"]["k"] == "const":
                out.add(("const", rv["o"].get("def") or rv["o"].get("v") or "?"))
            elif rv["k"] == "agg":
                if rv["ak"] == "adt":
                    out.add(("agg", "%s::%s" % (rv["adt"], rv["variant"])))
                else:
                    out.add(("agg", rv["ak"]))
            else:
                out.add(("other", rv["k"]))

    walk(local, (), 0)
    return out
