"""Rule-level helpers shared by the property modules."""
import re
from .facts import norm, op_local, op_base, callee_names, is_call_to, call_matches
from .analysis import (defuse, value_tests, call_result_tests, requires, requires_failure,
                       ctor_sites, call_sites, field_accesses, ref_consumers, returns_of,
                       agg_shape, await_output, source_fn, family_of_type, switch_edges, Test)
from .report import AnchorMissing


def get_fn(F, rep, npath):
    try:
        f = F.fn(npath)
    except KeyError as e:
        raise AnchorMissing("function %s not found (%s)" % (npath, e))
    rep.fn(f)
    return f


def get_tree(F, rep, npath):
    try:
        t = F.tree_of(npath)
    except KeyError as e:
        raise AnchorMissing("function %s not found (%s)" % (npath, e))
    for f in t:
        rep.fn(f)
    return t


def body_of(F, rep, npath):
    """The body holding the user's code of a source-level function: for `async fn` the
    coroutine closure, one level deeper under #[instrument].  Chosen structurally: the
    largest coroutine body in the closure tree that is reached from the root through
    coroutine/closure aggregates; for plain fns the root itself."""
    tree = get_tree(F, rep, npath)
    root = tree[0]
    cands = [g for g in tree if g.coroutine]
    if not cands:
        return root
    # the user body is the coroutine with the most blocks whose path nests only {closure#0}
    # segments below the root (async fn desugaring / instrument wrapper)
    def only_zero(g):
        rest = g.path[len(root.path):]
        return re.fullmatch(r"(::\{closure#0\})+", rest) is not None
    direct = [g for g in cands if only_zero(g)]
    if direct:
        return max(direct, key=lambda g: len(g.blocks))
    return root


def find_calls(f, *names, regex=None):
    out = []
    for b, t in f.calls():
        if (names and is_call_to(t, *names)) or (regex and call_matches(t, regex)):
            out.append((b, t))
    return out


def tests_of_calls(f, calls, family=None, enum_success=None, awaited=None):
    tests = []
    for b, t in calls:
        ts, _ = call_result_tests(f, b, family=family, enum_success=enum_success, awaited=awaited)
        tests.extend(ts)
    return tests


def skey(F, f, what):
    """Line-number-free site key."""
    return "%s|%s" % (source_fn(F, f), what)


def site(f, bb=None):
    return "%s %s" % (f.loc(bb), f.npath)


def arg_ref_target(f, op):
    """For an argument operand that is a reference local, the local it refers to (through
    reborrows / moves), else the operand's own base local."""
    du = defuse(f)
    l = op_base(op)
    if l is None:
        return None
    seen = set()
    while l in du.ref_of and l not in seen:
        seen.add(l)
        l = du.ref_of[l]
    return l


def ref_source_place(f, local, depth=6):
    """If `local` is (a move/reborrow chain of) `&place`, return that place, else None."""
    for _ in range(depth):
        found = None
        for b, i, s in f.stmts():
            if s["k"] == "a" and s["lhs"]["l"] == local and not s["lhs"].get("p"):
                rv = s["rv"]
                if rv["k"] == "ref":
                    pr = rv["p"].get("p", [])
                    if pr and all(e[0] == "deref" for e in pr):
                        found = ("local", rv["p"]["l"])
                    else:
                        return rv["p"]
                elif rv["k"] == "use" and rv["o"]["k"] in ("copy", "move"):
                    if not rv["o"]["p"].get("p"):
                        found = ("local", rv["o"]["p"]["l"])
                    else:
                        return rv["o"]["p"]
                elif rv["k"] == "cast" and rv["o"]["k"] in ("copy", "move") and not rv["o"]["p"].get("p"):
                    found = ("local", rv["o"]["p"]["l"])
                break
        if not found:
            return {"l": local}
        local = found[1]
    return {"l": local}


def place_field_names(pl):
    return [e[2] for e in pl.get("p", []) if e[0] == "f"]


def nontracing_calls(f):
    for b, t in f.calls():
        if f.is_tracing(b):
            continue
        yield b, t


def ok_return_requires(f, tests):
    """Every assignment to the return place that can be a success value (not an
    `Err`/`None` aggregate, not a `from_residual`) requires the tests.  Returns list of
    (bb, ok, description)."""
    out = []
    for b, i, rv in returns_of(f):
        if i is None:
            # _0 = call(..)
            if is_call_to(rv, "core::ops::try_trait::FromResidual::from_residual"):
                continue
            desc = "return via call %s" % (callee_names(rv)[0] if callee_names(rv) else "?")
            out.append((b, requires(f, b, tests), desc))
            continue
        if rv["k"] == "agg" and rv["ak"] == "adt" and rv["variant"] in ("Err", "None", "Pending", "Break"):
            continue
        out.append((b, requires(f, b, tests), "return %s" % agg_shape(f, rv, 2)))
    return out


def const_value(F, path):
    try:
        return F.const(path)["val"]
    except KeyError:
        raise AnchorMissing("const %s not found" % path)
