"""Decision-tree extraction for loop-free boolean logic (DESIGN §3.13).

A function (or the part of a function that decides whether a given block is reached) whose
control flow is a loop-free cascade of tests is turned into its *truth function*: every
path from the entry is enumerated; each two-way switch on a boolean that comes from an
*atom* (a call result or a comparison) contributes `(atom, value)` to the path condition;
the path ends in a constant, in an atom's value, or in reaching / not reaching the target.
A property module names the atoms it recognises (checking operand provenance) and compares
the extracted truth function with the expected one over **all valuations of the named
atoms**, so the verdict does not depend on the idiom (`&&` chain, nested ifs, early
returns, negated conditions, reordered tests all give the same function).  Anything the
extractor does not understand (a loop, a multi-way switch on something else, an atom the
module cannot name) is reported, never guessed.
"""
import itertools
from .facts import op_local, op_base, callee_names


class Unsupported(Exception):
    pass


class Atom:
    """A boolean-valued primitive: a call (kind 'call') or a comparison (kind 'cmp')."""
    __slots__ = ("kind", "bb", "name", "args", "term", "stmt")

    def __init__(self, kind, bb, name, args, term=None, stmt=None):
        self.kind, self.bb, self.name, self.args, self.term, self.stmt = kind, bb, name, args, term, stmt

    def __repr__(self):
        return "%s@bb%d" % (self.name, self.bb)


_CMP = ("Eq", "Ne", "Lt", "Le", "Gt", "Ge")
_TAGS = {"Ok": 0, "Err": 1, "None": 0, "Some": 1, "Continue": 0, "Break": 1}
_TAGGED = ("core::result::Result", "core::option::Option", "core::ops::control_flow::ControlFlow")


def _call_value(f, env, t):
    """abstract value of a call result: tags through `?` plumbing"""
    n0 = t.get("resolved") or t["callee"]
    d = t["dest"]
    if d.get("p"):
        return None
    dty = str(f.locals[d["l"]])
    if n0.endswith("FromResidual::from_residual") or "FromResidual" in n0 and n0.endswith("::from_residual"):
        if dty.startswith("core::option::Option"):
            return ("tag", "None")
        if dty.startswith("core::result::Result"):
            return ("tag", "Err")
    if (n0.endswith("Try::branch") or "Try>::branch" in n0) and t["args"] and t["args"][0]["k"] in ("copy", "move") and not t["args"][0]["p"].get("p"):
        v = env.get(t["args"][0]["p"]["l"])
        if v is not None and v[0] == "tag":
            return ("tag", "Continue" if v[1] in ("Ok", "Some", "Continue") else "Break")
    return None


def _tuple_elem(env, p):
    """value of `(_t.N)` when `_t` is a tuple whose element values are known"""
    pr = p.get("p", [])
    if len(pr) == 1 and pr[0][0] == "f":
        v = env.get(p["l"])
        if v is not None and v[0] == "tuple" and isinstance(pr[0][1], int) and pr[0][1] < len(v[1]):
            return v[1][pr[0][1]]
    return None


def _assign_value(f, env, rv, b, i):
    """abstract value of an rvalue: ('const', bool) | ('atom', Atom, neg) | None"""
    k = rv["k"]
    if k in ("use", "cast"):
        o = rv["o"]
        if o["k"] == "const":
            v = str(o.get("v"))
            if v in ("true", "const true"):
                return ("const", True)
            if v in ("false", "const false"):
                return ("const", False)
            return None
        p = o["p"]
        if not p.get("p"):
            return env.get(p["l"])
        return _tuple_elem(env, p)
    if k == "agg" and rv.get("ak") == "tuple":
        # `match (a, b) { .. }`: remember the element values, the arms switch on `.0` / `.1`
        vals = []
        for o in rv["ops"]:
            if o["k"] == "const":
                v = str(o.get("v"))
                vals.append(("const", True) if v in ("true", "const true") else ("const", False) if v in ("false", "const false") else None)
            else:
                vals.append(env.get(o["p"]["l"]) if not o["p"].get("p") else _tuple_elem(env, o["p"]))
        return ("tuple", tuple(vals)) if any(v is not None for v in vals) else None
    if k == "agg" and rv.get("ak") == "adt" and rv.get("variant") in _TAGS and str(rv.get("adt")) in _TAGGED:
        return ("tag", rv["variant"])
    if k == "discr" and not rv["p"].get("p"):
        v = env.get(rv["p"]["l"])
        if v is not None and v[0] == "tag":
            return ("int", _TAGS[v[1]])
        return None
    if k == "bin" and rv["op"] in _CMP:
        return ("atom", Atom("cmp", b, rv["op"], [rv["a"], rv["b"]], stmt=(b, i)), False)
    if k == "un" and rv.get("op") == "Not":
        l = op_local(rv["a"]) if rv["a"]["k"] != "const" else None
        v = env.get(l) if l is not None else None
        if v is None:
            return None
        if v[0] == "const":
            return ("const", not v[1])
        return ("atom", v[1], not v[2])
    return None


def extract(f, target=None, max_paths=4096, start=0, stop=(), value_at=None, loop_atoms=None):
    """Enumerate paths.  Without `target`: result = value assigned to `_0` at return.
    With `target` (a block id): result = ('const', True) when the path passes through
    `target` (a block or a set of blocks), ('const', False) when it returns, diverges or
    reaches a block in `stop` without it.  `loop_atoms` = {loop head block: (Atom, block after
    the loop)} summarises all-quantifier loops recognised by the caller (see all_loop).
    Returns list of (conds, result), conds = [(Atom, bool), ...]."""
    paths = []
    is_bool_fn = str(f.locals[0]) == "bool"

    def run(b, env, conds, onpath, hit):
        if len(paths) > max_paths:
            raise Unsupported("too many paths")
        if b in onpath:
            raise Unsupported("loop through bb%d" % b)
        onpath = onpath | {b}
        if target is not None and (b == target or (isinstance(target, (set, frozenset)) and b in target)):
            paths.append((conds, ("const", True)))
            return
        if b in stop:
            # end of the analysed region (e.g. the loop head): target not reached
            paths.append((conds, ("const", False)))
            return
        if loop_atoms and b in loop_atoms:
            # a summarised `for x in xs { if !p(x) { return false } }` loop: one atom
            # ("p holds for all elements"): true -> continue after the loop, false -> the
            # function returns `false` from inside the loop
            atom, after = loop_atoms[b]
            paths.append((conds + [(atom, False)], ("const", False)))
            return run(after, env, conds + [(atom, True)], onpath, hit)
        if value_at is not None and b == value_at[0]:
            # read the boolean local `value_at[1]` on entry to this block
            v = env.get(value_at[1])
            if v is None or v[0] not in ("const", "atom"):
                raise Unsupported("value of _%d at bb%d is not a recognised boolean" % (value_at[1], b))
            paths.append((conds, v))
            return
        env = dict(env)
        blk = f.blocks[b]
        for i, s in enumerate(blk["s"]):
            if s["k"] != "a" or s["lhs"].get("p"):
                continue
            l = s["lhs"]["l"]
            v = _assign_value(f, env, s["rv"], b, i)
            if v is None:
                env.pop(l, None)
            else:
                env[l] = v
        t = blk["t"]
        k = t["k"]
        if k == "return":
            if target is not None or value_at is not None:
                # the target / observation point was not reached on this path
                paths.append((conds, ("const", False)))
            else:
                v = env.get(0)
                if v is None or v[0] not in ("const", "atom"):
                    raise Unsupported("return value at bb%d is not a recognised boolean" % b)
                paths.append((conds, v))
            return
        if k in ("unreachable", "resume", "abort"):
            if target is not None:
                paths.append((conds, ("const", False)))
            return
        if k == "goto":
            return run(t["t"], env, conds, onpath, hit)
        if k == "drop":
            return run(t["t"], env, conds, onpath, hit)
        if k == "assert":
            return run(t["t"], env, conds, onpath, hit)
        if k == "call":
            d = t["dest"]
            if not d.get("p"):
                cv = _call_value(f, env, t)
                if cv is not None:
                    env[d["l"]] = cv
                elif str(f.locals[d["l"]]) == "bool":
                    env[d["l"]] = ("atom", Atom("call", b, callee_names(t)[0], t["args"], term=t), False)
                else:
                    env.pop(d["l"], None)
            if t.get("t") is None:
                if target is not None:
                    paths.append((conds, ("const", False)))
                return
            return run(t["t"], env, conds, onpath, hit)
        if k == "switch":
            l = op_local(t["d"])
            if l is not None and t["d"]["k"] in ("copy", "move") and t["d"]["p"].get("p"):
                l = None
            v = env.get(l) if l is not None else None
            elem = False
            if l is None and t["d"]["k"] in ("copy", "move"):
                v = _tuple_elem(env, t["d"]["p"])
                elem = v is not None and v[0] in ("const", "atom")
            tg = [(int(x), y) for x, y in t["targets"]]
            if v is not None and v[0] == "int":
                nxt = dict(tg).get(v[1], t["otherwise"])
                return run(nxt, env, conds, onpath, hit)
            if v is not None and v[0] in ("const", "atom") and (elem or str(f.locals[l]) == "bool"):
                zero = [y for x, y in tg if x == 0]
                f_edge = zero[0] if zero else t["otherwise"]
                ones = [y for x, y in tg if x == 1]
                t_edge = ones[0] if ones else t["otherwise"]
                if v[0] == "const":
                    return run(t_edge if v[1] else f_edge, env, conds, onpath, hit)
                atom, neg = v[1], v[2]
                for val, edge in ((True, t_edge), (False, f_edge)):
                    # val = value of the switched local; atom value = val xor neg
                    e2 = dict(env)
                    if l is not None:
                        e2[l] = ("const", val)
                    run(edge, e2, conds + [(atom, val != neg)], onpath, hit)
                return
            # a switch on something else (enum discriminant ...): opaque multi-way atom
            at = Atom("switch", b, "switch@bb%d" % b, [t["d"]])
            succ = []
            for x, y in tg:
                succ.append((x, y))
            succ.append(("otherwise", t["otherwise"]))
            for x, y in succ:
                if f.blocks[y]["t"]["k"] == "unreachable" and not f.blocks[y]["s"]:
                    continue
                run(y, env, conds + [(at, x)], onpath, hit)
            return
        if k == "yield":
            raise Unsupported("yield at bb%d" % b)
        raise Unsupported("terminator %s at bb%d" % (k, b))

    run(start, {}, [], frozenset(), False)
    return paths


def extract_outcomes(f, start, stop=(), targets=None, ret_label=None, max_paths=4096):
    """Like `extract`, but every path ends in a *label*: reaching a block in `targets`
    (dict block -> label) yields that label, reaching a block in `stop` yields "stop", a
    `return` yields ret_label(block) (default "return").  Result: list of (conds, label)."""
    targets = targets or {}
    out = []
    marker = object()

    class _T(dict):
        pass
    # reuse `extract` by running it once per label set is wasteful; a small dedicated walk:
    def run(b, env, conds, onpath):
        if len(out) > max_paths:
            raise Unsupported("too many paths")
        if b in targets:
            out.append((conds, targets[b]))
            return
        if b in stop:
            out.append((conds, "stop"))
            return
        if b in onpath:
            raise Unsupported("loop through bb%d" % b)
        onpath = onpath | {b}
        env = dict(env)
        blk = f.blocks[b]
        for i, s_ in enumerate(blk["s"]):
            if s_["k"] != "a" or s_["lhs"].get("p"):
                continue
            l = s_["lhs"]["l"]
            v = _assign_value(f, env, s_["rv"], b, i)
            if v is None:
                env.pop(l, None)
            else:
                env[l] = v
        t = blk["t"]
        k = t["k"]
        if k == "return":
            out.append((conds, ret_label(b) if ret_label else "return"))
            return
        if k in ("unreachable", "resume", "abort"):
            return
        if k in ("goto", "drop", "assert"):
            return run(t["t"], env, conds, onpath)
        if k == "call":
            d = t["dest"]
            if not d.get("p"):
                cv = _call_value(f, env, t)
                if cv is not None:
                    env[d["l"]] = cv
                elif str(f.locals[d["l"]]) == "bool":
                    env[d["l"]] = ("atom", Atom("call", b, callee_names(t)[0], t["args"], term=t), False)
                else:
                    env.pop(d["l"], None)
            if t.get("t") is None:
                return
            return run(t["t"], env, conds, onpath)
        if k == "switch":
            l = op_local(t["d"])
            if l is not None and t["d"]["k"] in ("copy", "move") and t["d"]["p"].get("p"):
                l = None
            v = env.get(l) if l is not None else None
            elem = False
            if l is None and t["d"]["k"] in ("copy", "move"):
                v = _tuple_elem(env, t["d"]["p"])
                elem = v is not None and v[0] in ("const", "atom")
            tg = [(int(x), y) for x, y in t["targets"]]
            if v is not None and v[0] == "int":
                nxt = dict(tg).get(v[1], t["otherwise"])
                return run(nxt, env, conds, onpath)
            if v is not None and v[0] in ("const", "atom") and (elem or str(f.locals[l]) == "bool"):
                zero = [y for x, y in tg if x == 0]
                f_edge = zero[0] if zero else t["otherwise"]
                ones = [y for x, y in tg if x == 1]
                t_edge = ones[0] if ones else t["otherwise"]
                if v[0] == "const":
                    return run(t_edge if v[1] else f_edge, env, conds, onpath)
                atom, neg = v[1], v[2]
                for val, edge in ((True, t_edge), (False, f_edge)):
                    e2 = dict(env)
                    if l is not None:
                        e2[l] = ("const", val)
                    run(edge, e2, conds + [(atom, val != neg)], onpath)
                return
            at = Atom("switch", b, "switch@bb%d" % b, [t["d"]])
            for x, y in tg + [("otherwise", t["otherwise"])]:
                if f.blocks[y]["t"]["k"] == "unreachable" and not f.blocks[y]["s"]:
                    continue
                run(y, env, conds + [(at, x)], onpath)
            return
        raise Unsupported("terminator %s at bb%d" % (k, b))

    run(start, {}, [], frozenset())
    return out


def outcome(paths, value_of):
    for conds, label in paths:
        if all(value_of(a) == v for a, v in conds):
            return label
    raise Unsupported("no path matches the valuation")


def atoms_of(paths):
    seen, out = set(), []
    for conds, res in paths:
        for a, v in conds:
            if id(a) not in seen and (a.kind, a.bb, a.name) not in seen:
                seen.add((a.kind, a.bb, a.name))
                out.append(a)
        if res[0] == "atom":
            a = res[1]
            if (a.kind, a.bb, a.name) not in seen:
                seen.add((a.kind, a.bb, a.name))
                out.append(a)
    return out


def evaluate(paths, value_of):
    """Value of the truth function under an oracle `value_of(atom) -> value`."""
    for conds, res in paths:
        if all(value_of(a) == v for a, v in conds):
            if res[0] == "const":
                return res[1]
            return value_of(res[1]) != res[2]
    raise Unsupported("no path matches the valuation (non-exhaustive tree)")


def compare(paths, naming, expected, names, constraint=None):
    """Compare the extracted function with `expected(dict name->bool)` over all valuations.
    naming: dict (kind, bb, name) -> (semantic name, polarity) for every atom in the tree.
    Returns list of counterexample dicts (empty = equal)."""
    bad = []
    names = list(names)
    for vals in itertools.product((False, True), repeat=len(names)):
        env = dict(zip(names, vals))
        if constraint is not None and not constraint(env):
            continue

        def value_of(a):
            n, pol = naming[(a.kind, a.bb, a.name)]
            return env[n] == pol
        got = evaluate(paths, value_of)
        want = expected(env)
        if got != want:
            bad.append((env, got, want))
    return bad


# ------------------------------------------------------------------------------------------
# linear (affine) integer values per path
# ------------------------------------------------------------------------------------------

def _lin_add(a, b, sign=1):
    out = dict(a)
    for k, v in b.items():
        out[k] = out.get(k, 0) + sign * v
        if out[k] == 0 and k != 1:
            del out[k]
    return out


def _int_of(o):
    import re
    if o["k"] != "const":
        return None
    m = re.match(r"^(?:const )?(-?\d+)_[ui](8|16|32|64|128|size)$", str(o.get("v")))
    return int(m.group(1)) if m else None


def extract_lin(f, symbol_of, const_closure=None, max_paths=512):
    """Paths of a loop-free integer-valued function: list of (conds, linear form) where a
    linear form is {1: const, symbol: coeff}.  `symbol_of(call terminator)` names a call
    result as a symbol (or returns None: unsupported).  `const_closure(operand)` returns the
    constant an `Option::map_or` closure evaluates to (or None)."""
    paths = []

    def val(env, o):
        if o["k"] == "const":
            c = _int_of(o)
            return {1: c} if c is not None else None
        p = o["p"]
        pr = p.get("p", [])
        v = env.get(p["l"])
        if v is None:
            return None
        if not pr:
            return v
        if len(pr) == 1 and pr[0][0] == "f" and pr[0][1] == 0 and isinstance(v, tuple) and v[0] == "ovf":
            return v[1]
        return None

    def run(b, env, conds, onpath):
        if len(paths) > max_paths:
            raise Unsupported("too many paths")
        if b in onpath:
            raise Unsupported("loop through bb%d" % b)
        onpath = onpath | {b}
        env = dict(env)
        blk = f.blocks[b]
        for i, s in enumerate(blk["s"]):
            if s["k"] != "a" or s["lhs"].get("p"):
                continue
            l = s["lhs"]["l"]
            rv = s["rv"]
            v = None
            if rv["k"] in ("use", "cast"):
                v = val(env, rv["o"])
            elif rv["k"] == "bin" and rv["op"] in ("Add", "AddWithOverflow", "Sub", "SubWithOverflow", "AddUnchecked", "SubUnchecked"):
                x, y = val(env, rv["a"]), val(env, rv["b"])
                if x is not None and y is not None and not isinstance(x, tuple) and not isinstance(y, tuple):
                    r = _lin_add(x, y, 1 if rv["op"].startswith("Add") else -1)
                    v = ("ovf", r) if rv["op"].endswith("WithOverflow") else r
            elif rv["k"] == "bin" and rv["op"] in _CMP:
                v = ("atom", Atom("cmp", b, rv["op"], [rv["a"], rv["b"]], stmt=(b, i)), False)
            elif rv["k"] == "discr":
                v = None
            if v is None:
                env.pop(l, None)
            else:
                env[l] = v
        t = blk["t"]
        k = t["k"]
        if k == "return":
            v = env.get(0)
            if v is None or isinstance(v, tuple):
                raise Unsupported("return value at bb%d is not a recognised integer expression" % b)
            paths.append((conds, v))
            return
        if k in ("goto", "drop", "assert"):
            return run(t["t"], env, conds, onpath)
        if k == "call":
            d = t["dest"]
            nm = callee_names(t)[0]
            if nm == "core::option::Option::map_or" and const_closure is not None:
                dv = val(env, t["args"][1])
                cv = const_closure(t["args"][2])
                if dv is not None and cv is not None:
                    at = Atom("call", b, "Option::is_some", [t["args"][0]], term=t)
                    for some in (True, False):
                        e2 = dict(env)
                        e2[d["l"]] = {1: cv} if some else dv
                        run(t["t"], e2, conds + [(at, some)], onpath)
                    return
            if not d.get("p"):
                if str(f.locals[d["l"]]) == "bool":
                    env[d["l"]] = ("atom", Atom("call", b, nm, t["args"], term=t), False)
                else:
                    sym = symbol_of(t)
                    if sym is None:
                        env.pop(d["l"], None)
                    else:
                        env[d["l"]] = {sym: 1}
            if t.get("t") is None:
                return
            return run(t["t"], env, conds, onpath)
        if k == "switch":
            l = op_local(t["d"])
            v = env.get(l) if l is not None else None
            tg = [(int(x), y) for x, y in t["targets"]]
            if isinstance(v, tuple) and v[0] == "atom" and str(f.locals[l]) == "bool":
                zero = [y for x, y in tg if x == 0]
                f_edge = zero[0] if zero else t["otherwise"]
                ones = [y for x, y in tg if x == 1]
                t_edge = ones[0] if ones else t["otherwise"]
                atom, neg = v[1], v[2]
                for valb, edge in ((True, t_edge), (False, f_edge)):
                    run(edge, env, conds + [(atom, valb != neg)], onpath)
                return
            at = Atom("switch", b, "switch@bb%d" % b, [t["d"]])
            for x, y in tg + [("otherwise", t["otherwise"])]:
                if f.blocks[y]["t"]["k"] == "unreachable" and not f.blocks[y]["s"]:
                    continue
                run(y, env, conds + [(at, x)], onpath)
            return
        if k in ("unreachable", "resume", "abort"):
            return
        raise Unsupported("terminator %s at bb%d" % (k, b))

    run(0, {}, [], frozenset())
    return paths


def evaluate_lin(paths, value_of):
    for conds, res in paths:
        if all(value_of(a) == v for a, v in conds):
            return res
    raise Unsupported("no path matches the valuation")


def all_loop(f, is_subject_iter, pred_atom_ok):
    """Recognise `for x in <subject> { if !pred(x) { return false } }` in a bool function.
    is_subject_iter(next_call_terminator) -> bool tells whether a `next()` call iterates the
    subject; pred_atom_ok(atom) -> bool whether an atom is the element predicate.  Returns
    {head block: (Atom('call', head, 'loop-all', [pred atom]), after-loop block)} or {}."""
    from .analysis import call_result_tests, returns_of
    out = {}
    for b in sorted(f.reachable(0)):
        t = f.blocks[b]["t"]
        if t["k"] != "call" or not callee_names(t)[0].endswith("Iterator::next") or not is_subject_iter(t):
            continue
        ts, _ = call_result_tests(f, b)
        some = [tg for x in ts for _, tg in x.success]
        none = [tg for x in ts for _, tg in x.failure if f.blocks[tg]["t"]["k"] != "unreachable"]
        if len(some) != 1 or len(none) != 1:
            continue
        false_rets = {bb for bb, i, rv in returns_of(f) if i is not None and rv["k"] == "use" and rv["o"]["k"] == "const" and rv["o"].get("v") == "false"}
        other_rets = {bb for bb, i, rv in returns_of(f)} - false_rets
        targets = {bb: "false" for bb in false_rets}
        targets.update({bb: "other" for bb in other_rets})
        try:
            paths = extract_outcomes(f, some[0], stop={b}, targets=targets)
        except Unsupported:
            continue
        atoms = atoms_of([(c, ("const", True)) for c, l in paths])
        if len(atoms) != 1 or not pred_atom_ok(atoms[0]):
            continue
        pa = atoms[0]
        try:
            if outcome(paths, lambda a: True) == "stop" and outcome(paths, lambda a: False) == "false":
                out[b] = (Atom("call", b, "loop-all", [pa], term=pa.term), none[0])
        except Unsupported:
            continue
    return out
