"""Virtual inlining of small workspace helpers (DESIGN §8.3: robustness against
"extract a helper" / "inline a helper" refactors).

`inlined(F, f, keep=...)` returns a copy of `f` in which every call to a *private,
non-generic-dispatch, same-crate, same-file* function that is not named in `keep` is replaced
by the callee's blocks (locals and block ids renamed, arguments assigned to the callee's
parameter locals, `return` turned into a jump to a continuation block that moves the
callee's `_0` into the call's destination).  Rules then see the same CFG whether a
maintainer wrote the logic in line or in a helper.  Closures and trait-dispatched calls
stay calls.  The rules decide on the inlined view exactly as on an ordinary function.
"""
import copy
from .facts import Fn, norm


def _rename(x, lo, bo):
    """deep-copy a facts JSON fragment, adding `lo` to local ids and `bo` to block ids"""
    if isinstance(x, list):
        if x and x[0] == "idx" and len(x) == 2 and isinstance(x[1], int):
            return ["idx", x[1] + lo]
        return [_rename(e, lo, bo) for e in x]
    if not isinstance(x, dict):
        return x
    out = {}
    is_place = "k" not in x and "l" in x
    for k, v in x.items():
        if is_place and k == "l":
            out[k] = v + lo
        elif "k" in x and k in ("t", "otherwise", "unwind", "drop") and isinstance(v, int) and x["k"] in ("goto", "call", "drop", "assert", "switch", "yield"):
            out[k] = v + bo
        elif "k" in x and k == "targets" and x["k"] == "switch":
            out[k] = [[a, b + bo] for a, b in v]
        else:
            out[k] = _rename(v, lo, bo)
    return out


def _callee(F, f, t):
    cand = [t.get("resolved"), t.get("callee")]
    for c in cand:
        if not c:
            continue
        n = norm(c)
        fs = F.fns_named(n)
        if len(fs) == 1:
            return fs[0]
    return None


def default_select(f, g):
    return (g.crate == f.crate and g.file == f.file and g.kind in ("Fn", "AssocFn") and not g.coroutine
            and not g.derived and g.vis != "pub" and g.blocks and g.path != f.path and len(g.blocks) <= 600)


def inlined(F, f, keep=(), select=None, depth=2):
    keep = set(keep)
    d = copy.deepcopy(f.d)
    changed = False
    done_paths = {f.path}
    for _round in range(depth):
        any_round = False
        nblocks = len(d["blocks"])
        for b in range(nblocks):
            t = d["blocks"][b]["t"]
            if t["k"] != "call":
                continue
            view = Fn(d, f.crate)
            g = _callee(F, view, t)
            if g is None or g.npath in keep or g.path in done_paths:
                continue
            if not (select or default_select)(f, g):
                continue
            if len(t["args"]) != g.argc or t["dest"].get("p"):
                continue
            lo = len(d["locals"])
            bo = len(d["blocks"])
            d["locals"] = list(d["locals"]) + list(g.locals)
            cont = bo + len(g.blocks)
            for gb in g.blocks:
                nb = _rename(gb, lo, bo)
                if nb["t"]["k"] == "return":
                    nb["t"] = {"k": "goto", "l": nb["t"].get("l"), "mac": [], "t": cont}
                d["blocks"].append(nb)
            # continuation: dest = move callee._0 ; goto original target
            line = t.get("l")
            cs = [{"k": "a", "l": line, "lhs": copy.deepcopy(t["dest"]), "rv": {"k": "use", "o": {"k": "move", "p": {"l": lo}}}}]
            if t.get("t") is None:
                d["blocks"].append({"s": cs, "t": {"k": "unreachable", "l": line, "mac": []}})
            else:
                d["blocks"].append({"s": cs, "t": {"k": "goto", "l": line, "mac": [], "t": t["t"]}})
            # argument assignment in the calling block, then jump into the callee
            for i, a in enumerate(t["args"]):
                d["blocks"][b]["s"].append({"k": "a", "l": line, "lhs": {"l": lo + 1 + i}, "rv": {"k": "use", "o": copy.deepcopy(a)}})
            d["blocks"][b]["t"] = {"k": "goto", "l": line, "mac": [], "t": bo, "inlined": g.npath}
            names = {n for n, _ in d["vars"]}
            for n, pl in g.vars:
                if n not in names:
                    d["vars"] = list(d["vars"]) + [[n, _rename(pl, lo, 0)]]
            changed = any_round = True
        if not any_round:
            break
    if not changed:
        return f
    return Fn(d, f.crate)
