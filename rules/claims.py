"""Claims registry: one entry per property that has a working check.  Properties without a
check (yet) or outside the reach of static analysis are in NOT_APPLICABLE with the reason."""

CLAIMS = {
    "C03": {
        "text": "Decides structurally, on all paths of the handshake code: an authenticated identity is constructed only on the success edge of a signature verification of that same key; verify functions return Ok only through strict signature verification over the fresh challenge / TLS exporter; confirmation is written only on Access::Allow; registration requires it. Static verdict on code shape, not a proof of cryptographic strength.",
        "technique": "MIR success-edge dominance (requires_success) + constructor-site and who-calls inventories + derives-from slices",
    },
}

_PENDING = "rules for this property are not implemented yet in this revision (see DESIGN.md §4 for the planned structural clauses)"

NOT_APPLICABLE = {
    "C13": "Pure predicate over header byte values (length 1-63, character classes): truth lies in constants compared against run-time bytes; no structural necessary condition that is not a frozen source fragment.",
    "C16": "Arithmetic partition of a byte buffer by run-time lengths and segment sizes; needs symbolic evaluation, not code shape.",
    "C23": "Pruning counts/ordering over run-time collections (sort by time, keep N); any shape rule would freeze a source fragment.",
    "C28": "Numeric choice (best latency in a time window, 2/3 hysteresis) over report histories; value-level, not structural.",
}
for _i in range(1, 44):
    _p = "C%02d" % _i
    if _p not in CLAIMS and _p not in NOT_APPLICABLE:
        NOT_APPLICABLE[_p] = _PENDING
