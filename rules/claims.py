"""Claims registry: one entry per property that has a working check.  Properties without a
check (yet) or outside the reach of static analysis are in NOT_APPLICABLE with the reason."""

CLAIMS = {
    "C16": {
        "text": "Decides relational clauses of Datagrams::take_segments: self.contents is touched only through mem::take / Bytes::split_to and the returned contents is exactly that value (conservation, order); the split length is min(num_segments * segment_size, self.contents.len()) (at most n segments, never more than there is); every result keeps self.ecn; the result's segment size is None on the unsegmented path and otherwise Some(self's size) exactly when more than one segment was taken (truth function over n in {1,>1} x taken.len() <,=,> segment_size); self.segment_size is cleared exactly when at most one segment remains. The byte values, Bytes' own semantics and multiplication overflow (checked: panics) are not decided.",
        "technique": "who-writes / exact provenance of the returned fields, operand provenance of min(), decision-tree (truth-function) extraction over ordering cells of (length, segment size)",
    },
    "C28": {
        "text": "Decides relational clauses of add_report_history_and_set_preferred_relay: report.preferred_relay is written only with the url of an entry of this report's relay_latency that has a windowed best latency, or with the previous preferred relay and then only if that relay was measured in this report; best_recent merges exactly the previous reports within MAX_AGE (= 300 s) and the current one; the candidate is a running minimum of best_recent.get(url); the latency the candidate is compared with is the LOWEST latency the current report holds for the previous relay (running minimum over its per-probe entries); the previous relay is restored exactly when it exists, differs from the candidate, was measured now and candidate_best > previous / 3 * 2 (truth functions extracted from the MIR, operands by exact provenance). Duration arithmetic and Instant ordering are not evaluated.",
        "technique": "decision-tree (truth-function) extraction of accumulator updates and of the stickiness decision over slot states, exact operand provenance, who-writes of the result field, constant evaluation",
    },
    "C23": {
        "text": "Decides relational clauses of prune_non_relay_paths: only Unusable / Inactive entries of the non-relay part of the map can enter the prune set and retain() removes exactly that set (open, unknown-status and relay paths are never removed); nothing is removed below MAX_NON_RELAY_PATHS non-relay paths; the closed paths are sorted most-recently-closed first and the kept prefix must have length min(n, MAX_INACTIVE_NON_RELAY_PATHS) for every n (index expression evaluated for n = 0..40) with at least one closed path surviving; the failed list is cut only when every path failed and then leaves exactly 30. KNOWN FINDING on the pinned tree: the split index is n - 10 (saturating), so 10 (not all-but-10) closed paths are pruned and a map of failed + <=10 closed paths is emptied. Time values and container semantics are assumed.",
        "technique": "match-arm table and exact def-chain provenance of the prune set, success-edge guards, evaluation of the index expression over all small n (finite enumeration of an integer relation), sort-key orientation",
    },
    "C13": {
        "text": "Decides the decision logic of the captive-portal handler as a truth function extracted from the MIR (independent of idiom): the response header is added exactly when the challenge header is present, 1..=63 bytes long and every byte passes the character predicate (all lengths 0..100 enumerated against the extracted decision tree); the character predicate accepts exactly [0-9A-Za-z._-] (evaluated on every cell of the finite code-point partition induced by its constants and the std class boundaries); the echoed value is `response ` + that same header value; every non-error path answers 204. Assumes std's is_ascii_* / http's len()/is_empty()/as_bytes()/to_str() do what they document; unrecognised tests fail closed.",
        "technique": "decision-tree (truth-function) extraction from loop-free MIR + exact evaluation over a finite partition of the input domain (predicate abstraction), operand provenance",
    },
    "C03": {
        "text": "Decides structurally, on all paths of the handshake code: an authenticated identity is constructed only on the success edge of a signature verification of that same key; verify functions return Ok only through strict signature verification over the fresh challenge / TLS exporter; confirmation is written only on Access::Allow; registration requires it. Static verdict on code shape, not a proof of cryptographic strength.",
        "technique": "MIR success-edge dominance (requires_success) + constructor-site and who-calls inventories + derives-from slices",
    },
    "C04": {
        "text": "Decides structurally: the sender id of every forwarded packet is exactly the authenticated identity held by the connection guard (copy-chain provenance, independent of the frame), packets are enqueued only on the active connection registered under the frame's destination, and Packet -> Datagrams message conversion only moves src/data. Ordering/at-most-once are properties of the mpsc channel and not decided.",
        "technique": "MIR copy-chain provenance + who-calls/who-constructs/who-writes inventories + select!-arm attribution",
    },
    "C05": {
        "text": "Foreign-data fatality analysis of the per-connection actor: every error variant constructed under a test of a forwarded message on the call chain packet arm -> send_packet -> send_raw -> write_frame -> Sink::start_send must be absorbed before it can reach an exit of the run loop; the message queue carries server-built messages only; full/closed queues never end the sender's handler.",
        "technique": "select!-arm attribution, control-dependence of error constructor sites on message-derived tests, variant-absorption check on the resolved call chain (with SinkExt::send summary)",
    },
    "C06": {
        "text": "Decides the shape of the registry transitions on all paths: who mutates the map / active slot, replace-notify-park on register, LIFO promotion + Healthy on unregister of the active connection, entry and sent-to set removed only when nothing is parked, retain-only for inactive, notifications outside the shard guard. Multi-connection histories as values are not explored.",
        "technique": "who-writes inventory over DashMap mutators, success-edge dominance on the closure's tests, copy-chain provenance, push/pop table agreement",
    },
    "C07": {
        "text": "Ownership argument covering every fault point at once: OnDisconnectGuard is a non-Clone RAII token, constructed with access control only on the Allow arm for the same request before the confirmation write, moved Config -> Client::new -> Actor, consumed by unregister on every normal exit; Drop is the only on_disconnect caller; no leak primitive has a call site; ConnectionId comes from one fetch_add.",
        "technique": "constructor/who-calls inventories, impl table (no Clone/Copy), dominance/post-dominance on MIR, zero-count leak rule, copy-chain provenance",
    },
    "C08": {
        "text": "Static revocation-visibility rule: reports the window between publication of the connection id (on_connect) and the registry insert when a suspension point lies between them and a missed disconnect leaves no state that registration consults (currently a recorded known finding); plus: disconnect only shuts down connections found under the given endpoint/connection id.",
        "technique": "must-precede + yield-between on coroutine MIR, who-writes/reads of registry fields, success-edge dominance",
    },
    "C09": {
        "text": "Decides the gating shape of the receive rate limiter on all paths: inner stream polled only when no refill sleep is pending or it was polled Ready; every completed read is charged with the measured amount before Ready(Ok); over-draft stores sleep_until(deadline); live update replaces bucket and clears the sleep together; Bucket's divisors are non-zero by a constructor-established invariant. The numeric rate bound, timing and overflow for extreme parameters are NOT decided.",
        "technique": "success-edge dominance and must-pass-through on MIR, derives-from on the charged amount, constructor-invariant + who-writes for division safety",
    },
    "C10": {
        "text": "Sibling-table agreement on the relay codec: typ() vs decoder arm relation per enum, symbolic size agreement of write_to vs encoded_len per variant, batch<=>segment-size consistency across the four Datagrams functions, version gating of Health/Status, all size checks bound the same quantity by the same const with the right orientation, websocket limits, distinct single-byte tags. Byte-exact round trip and panic-freedom of decoding are NOT decided (fuzzed by existing proptests).",
        "technique": "match-arm table extraction from MIR and relational comparison; same-const and orientation checks on comparison statements; ADT discriminant table",
    },
    "C11": {
        "text": "Decides: derived Ord of ProtocolVersion is strictly increasing in the wire-name version number, printer/parser tables agree and ALL is complete; the server selects with Iterator::max (or a running-maximum accumulator decided as a truth function) over parsed offers, echoes and runs exactly the selected value, and only upgrades with a selection; every possible source of the client's connection version is a value parsed from the response header (no default or substitute). Header string splitting is not decided.",
        "technique": "match-arm table extraction (printer/parser), ADT variant order, copy-chain provenance of the selected version into response header and spawned handler, success-edge dominance, parsed-only source walk through Option/Result adapters and closures",
    },
    "C12": {
        "text": "Decides the control-flow order of token sources in ClientRequest::auth_token on all paths: headers first and in order, non-ASCII header aborts with None (no query fallback), first Bearer match returns immediately, query only after header exhaustion, scheme/token are the halves of split_once. Case-folding and form-decoding semantics are not decided.",
        "technique": "CFG reachability / success-edge dominance on MIR of the function",
    },
    "C14": {
        "text": "Decides: PingTracker state is written only by its four methods; pong_received changes state only under (ping outstanding && payload equal), clears it and measures RTT from that ping; new_ping_with_timeout overwrites unconditionally and returns the stored random payload; timeout sleeps on the outstanding ping's own deadline and pends otherwise. The 3x-RTT clamp and timing are not decided.",
        "technique": "who-writes inventory + success-edge dominance on field tests + copy-chain provenance",
    },
    "C15": {
        "text": "Decides two clauses structurally: (1) inside the dial loop Err is returned only when the resolver stream is finished AND the address queue is empty AND no attempt is in flight; `finished` is set only on the stream's None item; every resolved address is queued and the queue is only consumed by pop_family; the first Ok attempt is returned as is; (2) head start of the preferred family: after a resolved address is queued, the action on the next-dial timer is the outcome function preferred => cleared, other family and unarmed => armed with RESOLUTION_DELAY, other family and armed => left alone. Alternation in pop_family and the delays themselves are schedule/time and not decided.",
        "technique": "success-edge dominance on MIR incl. select!-arm payload tests, copy-chain provenance, decision-tree / outcome-function extraction of the head-start block",
    },
    "C43": {
        "text": "Static lockset nested-acquire rule over every RelayMap method: a second acquisition of the map's RwLock through a possibly aliasing RelayMap value while a guard is held (one side exclusive) is reported unless excluded by Arc::ptr_eq. Map semantics as values are not decided.",
        "technique": "static lockset (guard lifetimes on MIR) + alias argument from the impl/ADT tables (Clone over Arc)",
    },
    "C31": {
        "text": "Decides: writer and reader attribute tables are inverse relations (TransportAddr variant <-> IrohAttr key, user data), same separator and record-name const, and the reader does not truncate values (a `key=value` string is split at the first separator only). Equality of resolved values (URL/address parser semantics) is not decided.",
        "technique": "match-arm table extraction across writer/reader (incl. closures), constant agreement, iterator-truncation rule on str::Split consumers",
    },
    "C32": {
        "text": "Decides: SignedPacket has three construction sites; from_bytes constructs only after key parse, signature verification over signable(timestamp,payload) with the packet's own key/signature, payload parse and length bounds, all from the same bytes; a constructor-established invariant (valid key bytes, len >= HEADER_SIZE at every site) discharges the accessors' expect/slicing; the server reaches *_unchecked only from store/DHT conversion. Cryptographic strength is not decided.",
        "technique": "constructor-site inventory + success-edge dominance + derives-from, constructor-established invariant for accessor panics, who-calls",
    },
    "C33": {
        "text": "Atomic-pattern rule on the single static LAST_TIMESTAMP: only a load and compare-exchange style RMWs touch it; now() returns exactly the installed value and only on the RMW's Ok edge; installed = max(clock, expected+1) with expected the RMW's expected operand, at every site that computes it; a failed RMW retries from the observed value and recomputes the value to install on every retry path. One variable => total modification order under Relaxed.",
        "technique": "who-uses inventory of the static, success-edge dominance, copy-chain provenance of RMW operands",
    },
    "C34": {
        "text": "Decides (a) no division/remainder in add_jitter has a possibly-zero divisor (literal, NonZero provenance, or a dominating comparison with 0 on the same value) and (b) stagger_call's control shape: Ok straight from the first Some(Ok), Err only after exhaustion carrying the list every failed call was pushed to, one call per delay plus the immediate one. Jitter bounds and timing are not decided.",
        "technique": "partial-arithmetic (non-zero divisor) rule on MIR Div/Rem statements + success-edge dominance / provenance on the awaited stream items",
    },
    "C35": {
        "text": "State-machine discipline of resolve_host_all's unfold closure on all paths: closed checked first and set before every terminal item, ResolveBoth needs both stored errors, NoResponse needs !yielded, yielded set exactly on address yields, per-family symmetry (own address kind, own error slot), terminal branch requires both lookups finished; literal hosts give single-item streams. Termination/timing not decided.",
        "technique": "dominance of flag writes over terminal yields, success-edge dominance on field tests, select!-arm table agreement (v4/v6)",
    },
    "C36": {
        "text": "Provenance: ZoneStore::insert is called only from the HTTP publish handler with exactly the Ok value of from_relay_payload(key parsed from the path, body) (authenticity then follows from C32); store/cache keys derive from the packet; CachedZone is built only through one converter in which a record is inserted only off the SOA/NS arms and on the equal edge of last-label == z32(packet key). Hickory's answer assembly is not decided.",
        "technique": "who-calls + copy-chain provenance + success-edge dominance (with materialised-condition tracking for matches!)",
    },
    "C37": {
        "text": "Decides the shape of the Upsert arm: ack(false) exactly on stored.more_recent_than(offered) with that orientation and without table mutation; the update path writes serialize(offered) then acks true; more_recent_than compares self>other on timestamp, tie-break on encoded packet; served = stored: after an acknowledged update every path of ZoneStore::insert invalidates the cached zone for the key. Permutation invariance over histories is not decided.",
        "technique": "match-arm regions on MIR, success-edge dominance, operand orientation by derives-from",
    },
    "C38": {
        "text": "Static lockset atomic-set rule across await: the resolve path's [store read -> cache fill] and the publish path's [store write -> cache invalidation] share no continuously held cache guard and the publish path does not install the new packet; reported once as a recorded known finding (stale zone served after an acknowledged publish). Also decides that every cache layer a query is answered from is cleared by the invalidation, and that the invalidation after an acknowledged update is unconditional (must-pass-through).",
        "technique": "guard-lifetime lockset on coroutine MIR (held-at-call across Yield), derives-from of the fill value",
    },
    "C39": {
        "text": "Decides: only handle_message (from run0) mutates the redb tables; row/index pairing on every path of Upsert and CheckExpired incl. that eviction compares the *stored* packet's timestamp with the cut-off; every non-error exit of the batch loop commits after dropping the tables; serialize/deserialize agree on the prefix. Crash durability (redb) and cut-off arithmetic are not decided.",
        "technique": "who-writes over redb mutators, must-pass-through (no Ok exit bypassing a paired operation) on match-arm regions, derives-from of comparison operands",
    },
    "C17": {
        "text": "Decides progress and wake-up discipline of the relay receive path: the segment count given to take_segments is proven >= 1, the stored pending item is cleared exactly when empty (or undeliverable), poll_recv_queue serves the stored item first and returns Pending only from the channel, and every way out of the receive loop that can end in Poll::Pending follows the channel's Pending or re-arms the waker. The segmentation of a batch that is re-batched across several polls (payload bytes, count, segment size of the remainder) is decided under C16 (Datagrams::take_segments), not here. Exactly-once/in-order delivery of bytes is not decided.",
        "technique": "partial-arithmetic rule (zero quotient as progress count), success-edge dominance, loop-exit coverage on the CFG",
    },
    "C20": {
        "text": "Symmetry rule on Builder::bind_addr_with_opts: every DuplicateDefaultAddr rejection must be control-dependent on the new bind's opts.is_default_route() as well as on the scan of existing binds; the stored flag is the same predicate; each family scans with its own predicate. Exhaustive enumeration of bind sequences is not performed.",
        "technique": "control-dependence (success-edge dominance) of error constructor sites on two predicates; copy-chain provenance of the stored flag",
    },
    "C25": {
        "text": "Release-before-signal rule on the task spawned by DirectAddrUpdateState::run: the captured OwnedMutexGuard must be dropped on every path before run_done.send; plus want_update writers and the try_lock_owned gating of run/try_run. Channel liveness is not decided.",
        "technique": "must-precede (dominance) of a guard release over a channel send in coroutine MIR, who-writes, success-edge dominance",
    },
    "C26": {
        "text": "Static check-then-act rule: HomeRelayWatch::set_status's read (Watchable::get) and dependent write (Watchable::set) must lie under one continuously held guard that the other writers (set, clear) hold too; who-calls split between RelayActor and ActiveRelayActor; new URL published before SetHomeRelay goes out. What watchers observe in between is n0-watcher's contract.",
        "technique": "static lockset (guard lifetimes) + control-dependence of the write on the read + who-calls + dominance",
    },
    "C30": {
        "text": "Static lockset atomic-set rule over {last_data, services}: add_boxed keeps a last_data guard from the read through priming the new service until it is appended; publish holds last_data exclusively from before the fan-out until the store; consistent lock order; filter applied once and the filtered value stored. What services do with the data is not decided.",
        "technique": "static lockset: guard held-at-call queries on MIR, lock-order check, derives-from",
    },
    "C41": {
        "text": "Request-flag-as-completion rule on Router::shutdown: every Ok return that does not itself complete the join of the run task must be selected by state other callers can only observe after the join (not by the cancel flag raised before the join, nor by a task slot emptied and released before it); plus the run-loop epilogue order (protocols.shutdown completed before endpoint.close, both on every exit, drop-guard first). Termination of handler shutdowns is not decided.",
        "technique": "join-free-path search on coroutine MIR, dominance of state writes by the join's Ready edge, lockset (guard held across the join), must-follow on the epilogue",
    },
    "C01": {
        "text": "Decides structurally: the TLS verifier asserts `verified` only after name decode, no intermediates and equality of the presented raw key with the dialed id's key; signatures go through rustls's raw-key TLS1.3 verification with ed25519 only (TLS1.2 refused, raw keys required); within iroh only tls::verifier produces rustls assertion tokens and the QUIC configs are wired to these verifiers; dialed name = encode(dialed id), decode accepts exactly `<b32>.iroh.invalid`; the remote id is derived from the single peer certificate. rustls/noq honouring the verifier contract is assumed.",
        "technique": "success-edge dominance on the verifier MIR, who-calls over rustls assertion constructors, derives-from / copy-chain provenance, encode/decode table agreement",
    },
    "C02": {
        "text": "Decides: PublicKey values come only from successfully parsed/derived ed25519 keys (constructor inventory + success-edge), verify is strict, CustomAddrBytes' Inline arm is built only under len <= N (N from the field type) so accessors cannot index out of range, and every panic-capable operation in iroh-base's parsers/accessors is in a reviewed inventory with its discharge reason. Round-trip equality across encodings is NOT decided.",
        "technique": "constructor-site inventory, constructor-established invariant, targeted panic inventory over resolved callees (index/expect/copy_from_slice)",
    },
    "C18": {
        "text": "Decides: AddrMap::get performs lookup, generate-until-unused and both inserts under one continuously held guard on the struct that holds both maps; get is the only writer, nothing is ever removed, forward and reverse insert carry the same pair; per mapped type the byte ranges generate() writes (0, 1..6, 6..8 with prefix / global id / subnet constants) are exactly the ranges try_from compares for whole-range equality before any Ok, subnets are distinct, newtypes only built there; classification tries all mapped kinds first. Randomness quality is not decided.",
        "technique": "static lockset (single guard spans all map operations), who-writes over HashMap mutators, copy-chain provenance, byte-range table agreement between writer and reader (helpers inlined)",
    },
    "C40": {
        "text": "Decides: run loop spawns a handler task only on IncomingFilterOutcome::Accept (outcome->action table for the others); handle_connection invokes exactly the map entry for the connection's negotiated ALPN, nothing without an entry, accept() gets on_accepting's connection; set_alpns receives the map's keys. ALPN negotiation in noq/rustls is not decided.",
        "technique": "match-arm regions + reachability cut at the loop head, copy-chain provenance of the handler and connection values, success-edge dominance",
    },
    "C42": {
        "text": "Decides: noq connect_with requires before_connect Accept, id != self, non-empty ALPN (closed endpoint refuses first); HandshakeCompletedData is assembled only in conn_from_noq_conn whose future yields Ok only on after_handshake Accept and closes+errs on Reject; hook lists return Accept only after exhaustion and Reject immediately. What hooks decide is not decided.",
        "technique": "success-edge dominance on enum-valued outcomes through awaits, constructor-site inventory, iterator-exhaustion edges",
    },
    "C19": {
        "text": "Decides: the QUIC-facing sender's returns are all Poll::Ready(Ok(())) except the propagated socket-closed error (built only when the socket is closed); unknown synthetic addresses are dropped before any transport; Mixed addresses go to the per-remote actor and never to a transport; each mapped kind resolves through its own map into its own FourTuple kind; TransportsSender::poll_send only reaches senders of the FourTuple's own kind and blackholes otherwise. IP socket selection is decided as a table of relations: with a source address a socket matches only via wildcard(ip_net.addr()) or ip_net.addr() == src, without one only via ip_net.contains(dst.ip()) or (link-local) scope_id == dst.scope_id(); the default-route predicate depends only on is_default and the family; the destination's family selects the socket family; bound sockets are searched first (sorted by Reverse(prefix_len) at bind, default index computed after sorting) and the default-route socket only when none matched and only if is_valid_default_addr holds. That ipnet/std address predicates compute what their names say is assumed; no evaluation over address values.",
        "technique": "return-shape classification, match-arm table extraction, reachability from None edges, relation-table extraction of boolean predicates (allowed-operation sets per match region + exact operand provenance), search-order dominance",
    },
    "C21": {
        "text": "Decides the hand-off protocol shape: run() has no in-loop return, closes the inbox before draining, returns the drained buffer with its own id, handles initial messages first; remove_or_restart_actor removes on empty leftovers else restarts *the same id* with exactly the leftovers and stores the new sender; send_to_actor hands the joined task's own id on, hands over exactly [leftovers, failed message] in that order (sequence abstraction over push / chain / once / collect); only those two functions write senders / start actors. Interleavings with try_send from other threads are not explored.",
        "technique": "must-precede / must-pass-through on coroutine MIR, copy-chain provenance of ids and message vectors, who-writes",
    },
    "C22": {
        "text": "Decides linearity (answered-or-queued on every path, every queued sender drained and replied) and reply correctness shape (immediate Ok iff paths non-empty and nothing else decides; Err only built under paths.is_empty(); emit only from three callers, insert_multiple only on the empty->non-empty transition; finished only on terminal lookup arms and on every path of each terminal arm; paths only removed by pruning). `never loses all paths` depends on pruning arithmetic (C23) and is not decided.",
        "technique": "linear-resource rule (by-value consumers on all paths), success-edge dominance, who-calls/who-writes",
    },
    "C24": {
        "text": "Decides one clause: every path passed to selection.set is the recorded candidate, candidates are recorded only for elements of ctx.paths() with Some stats, no candidate => untouched PathSelection::none(); select_path replaces selected_path only with the selector's Some(addr) (elsewhere only cleared). Ranking is decided as relations: `best` and `current_key` are running minima (overwritten exactly when empty or the new key is smaller, extracted as truth functions over slot states), the switching decision is exactly `candidate && (no current key || tiers differ || best_biased + RTT_SWITCHING_MIN <= current_biased)` with checked operand provenance, keys are (tier, rtt saturating_add bias) with derived order Primary < Backup, the default bias table (IPv4/IPv6 primary, IPv6 minus IPV6_RTT_ADVANTAGE, relay backup) and the constants 5 ms / 3 ms. Arithmetic on RTT values is not evaluated.",
        "technique": "success-edge dominance + derives-from on the candidate slot, who-writes, decision-tree (truth-function) extraction of the accumulator updates and the switching decision, operand provenance, enum-order and constant tables",
    },
    "C27": {
        "text": "Decides: Probe kind <-> latency map table agreement across update_relay/merge/iter/is_empty/get; the only store into an existing latency is under `new < old`; write-once discipline of global_v4/v6 and mapping_varies (Some(true) only on a differing later address, Some(false) only on agreement with nothing recorded), wrong-family early return, per-family field sets. Commutativity over histories as values is not decided.",
        "technique": "match-arm table extraction, guarded-write idiom check (success-edge dominance on comparison operands), field-write inventory per arm",
    },
    "C29": {
        "text": "Terminal-item discipline of AddressLookupStream::poll_next on all paths (anchored on its `closed`/`did_emit`/`errors` state): closed checked first, every terminal item after closed=true, NoResults requires !did_emit and carries the buffered errors, did_emit set exactly on Ok items, inner errors buffered and yielded; resolve() is the no-services stream exactly when the configured service list itself (provenance to self.services, not a derived collection) is empty. A refactor of the state representation needs the instance table updated (fails closed). Merge order of services is external.",
        "technique": "dominance of flag writes over terminal yields, nested success-edge tests on the polled item",
    },
}

_PENDING = "rules for this property are not implemented yet in this revision (see DESIGN.md §4 for the planned structural clauses)"

NOT_APPLICABLE = {
}
for _i in range(1, 44):
    _p = "C%02d" % _i
    if _p not in CLAIMS and _p not in NOT_APPLICABLE:
        NOT_APPLICABLE[_p] = _PENDING
