"""Static lockset: guard acquisitions, their lifetimes and what is held where (DESIGN §3.7)."""
import re
from .facts import norm, op_local, op_base, callee_names, is_call_to, call_matches
from .analysis import defuse, await_output
from .lib import copy_sources, ref_source_place, _fields_of

# callee regex -> (mode, kind)
ACQUIRE = [
    (r"^std::sync::(poison::)?rwlock::RwLock::read$", "shared", "std-rwlock"),
    (r"^std::sync::(poison::)?rwlock::RwLock::write$", "exclusive", "std-rwlock"),
    (r"^std::sync::(poison::)?rwlock::RwLock::try_read$", "shared", "std-rwlock"),
    (r"^std::sync::(poison::)?rwlock::RwLock::try_write$", "exclusive", "std-rwlock"),
    (r"^std::sync::(poison::)?mutex::Mutex::(lock|try_lock)$", "exclusive", "std-mutex"),
    (r"^tokio::sync::mutex::Mutex::(lock|lock_owned|try_lock|try_lock_owned|blocking_lock)$", "exclusive", "tokio-mutex"),
    (r"^tokio::sync::rwlock::RwLock::(read|read_owned|try_read)$", "shared", "tokio-rwlock"),
    (r"^tokio::sync::rwlock::RwLock::(write|write_owned|try_write)$", "exclusive", "tokio-rwlock"),
    (r"^parking_lot::.*::(lock|write)$", "exclusive", "parking_lot"),
    (r"^parking_lot::.*::read$", "shared", "parking_lot"),
]
GUARD_TYPES = re.compile(r"(MutexGuard|RwLockReadGuard|RwLockWriteGuard|OwnedMutexGuard|OwnedRwLock\w*Guard)")
GUARD_HEAD = re.compile(r"^([A-Za-z_0-9]+::)*(MutexGuard|RwLockReadGuard|RwLockWriteGuard|OwnedMutexGuard|OwnedRwLock\w*Guard|MappedMutexGuard)<")


def is_guard_ty(ty):
    return GUARD_HEAD.match(ty) is not None
_FORWARD = ("core::result::Result::expect", "core::result::Result::unwrap", "core::option::Option::expect",
            "core::option::Option::unwrap", "core::result::Result::unwrap_or_else", "core::ops::try_trait::Try::branch",
            "core::result::Result::ok", "core::result::Result::map_err")


class Guard:
    def __init__(self, f, bb, term, mode, kind, lock, guard_locals, drops):
        self.f = f
        self.bb = bb                # acquiring call block
        self.term = term
        self.mode = mode
        self.kind = kind
        self.lock = lock            # set of copy-source descriptions of the lock object
        self.locals = guard_locals  # locals that hold the guard (chain)
        self.drops = drops          # blocks whose terminator drops the guard

    def held_blocks(self):
        """Blocks at whose *entry* the guard may be held: reachable from the acquire block's
        successor without passing a drop of the guard."""
        f = self.f
        seen = set()
        stack = list(f.succs()[self.bb])
        while stack:
            b = stack.pop()
            if b in seen:
                continue
            seen.add(b)
            if b in self.drops:
                continue        # held on entry of the drop block, released by its terminator
            stack.extend(f.succs()[b])
        return seen

    def __repr__(self):
        return "Guard(bb%d %s %s)" % (self.bb, self.mode, sorted(self.lock))


def guards(f):
    out = []
    for b, t in f.calls():
        names = callee_names(t)
        hit = None
        for rx, mode, kind in ACQUIRE:
            if any(re.search(rx, n) for n in names):
                hit = (mode, kind)
                break
        if hit is None or not t["args"]:
            continue
        a0 = t["args"][0]
        lock = set()
        if a0["k"] in ("copy", "move"):
            if a0["p"].get("p"):
                lock = {("place", a0["p"]["l"], _fields_of(a0["p"]))}
            else:
                lock = copy_sources(f, a0["p"]["l"])
        # follow the result forward to the guard-typed locals
        chain = {t["dest"]["l"]}
        work = [t["dest"]["l"]]
        # awaited acquisitions
        dty = f.locals[t["dest"]["l"]]
        if not is_guard_ty(dty) and "Future" in dty:
            for o in await_output(f, t["dest"]["l"]):
                chain.add(o)
                work.append(o)
        while work:
            l = work.pop()
            for bb, i, s in f.stmts():
                if s["k"] != "a" or s["lhs"].get("p"):
                    continue
                rv = s["rv"]
                if rv["k"] == "use" and rv["o"]["k"] in ("copy", "move") and rv["o"]["p"]["l"] == l:
                    pr = rv["o"]["p"].get("p", [])
                    if all(e[0] in ("dc", "f") for e in pr):
                        x = s["lhs"]["l"]
                        if x not in chain and GUARD_TYPES.search(f.locals[x]) and "Future" not in f.locals[x]:
                            chain.add(x)
                            work.append(x)
            for bb, ct in f.calls():
                if ct["k"] == "call" and ct["args"] and op_local(ct["args"][0]) == l and any(n in _FORWARD for n in callee_names(ct)):
                    x = ct["dest"]["l"]
                    if x not in chain:
                        chain.add(x)
                        work.append(x)
        gl = {l for l in chain if is_guard_ty(f.locals[l])}
        # built MIR keeps an unconditional scope-end drop for temporaries that were moved
        # out on every path: a drop of `l` dominated by a whole-local move of `l` is a no-op
        moved_at = {}
        for bb, i, s in f.stmts():
            if s["k"] == "a" and not s["lhs"].get("p") and s["rv"]["k"] == "use" and s["rv"]["o"]["k"] == "move" \
                    and not s["rv"]["o"]["p"].get("p") and s["rv"]["o"]["p"]["l"] in gl:
                moved_at.setdefault(s["rv"]["o"]["p"]["l"], []).append(bb)
        drops = set()
        for bb in f.reachable(0):
            tt = f.blocks[bb]["t"]
            if tt["k"] == "drop" and not tt["p"].get("p") and tt["p"]["l"] in gl:
                if any(f.dominates(mb, bb) for mb in moved_at.get(tt["p"]["l"], [])):
                    continue
                drops.add(bb)
            # explicit drop(guard) call / move into another function consumes it
            if tt["k"] == "call" and is_call_to(tt, "core::mem::drop") and tt["args"] and op_local(tt["args"][0]) in gl:
                drops.add(bb)
        out.append(Guard(f, b, t, hit[0], hit[1], lock, gl, drops))
    return out


def held_at(f, bb, gs=None):
    gs = gs if gs is not None else guards(f)
    return [g for g in gs if bb in g.held_blocks()]
