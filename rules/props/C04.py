"""C04 Relay forwards datagrams only to the addressed endpoint, with the true sender."""
from ..lib import *

S = "iroh_relay::server::"
GUARD = S + "OnDisconnectGuard"
DG = "iroh_relay::protos::relay::Datagrams"
R2C = "iroh_relay::protos::relay::RelayToClientMsg"


def check(F, rep):
    rep.clause("the sender id attached to a forwarded packet is exactly the authenticated identity held by the connection's guard (never taken from the frame)")
    rep.clause("a packet is enqueued only on the queue of the active connection registered under the frame's destination id")
    rep.clause("Packet -> RelayToClientMsg::Datagrams moves src and data unchanged; the server never writes Datagrams fields")
    rep.undecided("per-pair ordering / at-most-once (properties of one FIFO mpsc channel per client, a library contract)")

    # ---- 1. attribution
    cs = [x for x in call_sites(F, S + "clients::Clients::send_packet", crates=["iroh_relay"])]
    rep.floor("who_calls", "call sites of Clients::send_packet", len(cs), 1)
    for f, b, t, kind in cs:
        rep.fn(f)
        src_fn = source_fn(F, f)
        rep.ob("who_calls", src_fn == S + "client::Actor::handle_frame_send_packet" and kind == "call", site(f, b),
               "Clients::send_packet called from %s" % src_fn, skey(F, f, "send_packet-caller"))
        if kind != "call":
            continue
        srcs = copy_sources(f, op_base(t["args"][3]), F=F)
        ok = bool(srcs) and all(x[0] == "arg" and x[1] == 1 and x[2] == ("guard", "endpoint_id") for x in srcs)
        rep.ob("provenance", ok, site(f, b), "src argument is exactly self.guard.endpoint_id; sources: %s" % sorted(map(str, srcs)),
               skey(F, f, "src-from-guard"))
        du = defuse(f)
        cl = du.closure(op_base(t["args"][3]))
        rep.ob("derives_from", not ({2, 3} & cl), site(f, b), "src does not depend on the frame (dst, data parameters)", skey(F, f, "src-independent-of-frame"))
        # dst / data are the frame's
        d = copy_sources(f, op_base(t["args"][1]))
        rep.ob("provenance", d == {("arg", 2, ())}, site(f, b), "dst argument is the frame's destination id", skey(F, f, "dst-from-frame"))
        dd = copy_sources(f, op_base(t["args"][2]))
        rep.ob("provenance", dd == {("arg", 3, ())}, site(f, b), "data argument is the frame's datagrams, unmodified", skey(F, f, "data-from-frame"))
    # accessor is thin
    acc = get_fn(F, rep, GUARD + "::endpoint_id")
    rs = returns_of(acc)
    rep.ob("thin_wrapper", len(rs) == 1 and rs[0][1] is not None and copy_sources(acc, 0) == {("arg", 1, ("endpoint_id",))},
           site(acc), "OnDisconnectGuard::endpoint_id returns self.endpoint_id", skey(F, acc, "accessor"))
    # handle_frame passes the decoded frame fields
    hf = body_of(F, rep, S + "client::Actor::handle_frame")
    hc = find_calls(hf, S + "client::Actor::handle_frame_send_packet")
    rep.exact("who_calls", "handle_frame_send_packet calls in handle_frame", len(hc), 1)
    allc = call_sites(F, S + "client::Actor::handle_frame_send_packet", crates=["iroh_relay"])
    for f, b, t, kind in allc:
        rep.ob("who_calls", source_fn(F, f) == S + "client::Actor::handle_frame", site(f, b), "handle_frame_send_packet called only from handle_frame", skey(F, f, "hfsp-caller"))
    if hc:
        b, t = hc[0]
        for idx, fld in ((1, "dst_endpoint_id"), (2, "datagrams")):
            srcs = copy_sources(hf, op_base(t["args"][idx]))
            ok = bool(srcs) and all(x[0] == "arg" and "maybe_frame" in x[2] and x[2][-1] == fld for x in srcs)
            rep.ob("provenance", ok, site(hf, b), "argument %d is the decoded frame's `%s` field; sources %s" % (idx, fld, sorted(map(str, srcs))),
                   skey(F, hf, "frame-field-" + fld))

    # ---- 2. routing target
    sp = get_fn(F, rep, S + "clients::Clients::send_packet")
    tsp = find_calls(sp, S + "client::Client::try_send_packet")
    rep.exact("routing", "try_send_packet calls in Clients::send_packet", len(tsp), 1)
    allt = call_sites(F, S + "client::Client::try_send_packet", crates=["iroh_relay"])
    for f, b, t, kind in allt:
        rep.ob("who_calls", source_fn(F, f) == S + "clients::Clients::send_packet", site(f, b), "try_send_packet called only from Clients::send_packet", skey(F, f, "tsp-caller"))
    if tsp:
        b, t = tsp[0]
        du = defuse(sp)
        recv = ref_source_place(sp, op_base(t["args"][0]))
        rep.ob("routing", recv is not None and place_field_names(recv)[-1:] == ["active"], site(sp, b),
               "receiver of try_send_packet is the `.active` connection of the entry", skey(F, sp, "recv-is-active"))
        gets = [(gb, gt) for gb, gt in find_calls(sp, "dashmap::DashMap::get") if (S + "clients::Inner", "clients") in du.field_reads(op_base(gt["args"][0]))]
        rep.exact("routing", "clients.get(..) lookups in send_packet", len(gets), 1)
        if gets:
            gb, gt = gets[0]
            key = arg_ref_target(sp, gt["args"][1])
            rep.ob("provenance", key == 2, site(sp, gb), "registry lookup key is the dst parameter", skey(F, sp, "lookup-key-dst"))
            rep.ob("derives_from", gt["dest"]["l"] in du.closure(op_base(t["args"][0])), site(sp, b),
                   "try_send_packet receiver derives from that lookup", skey(F, sp, "recv-from-lookup"))
            tests, _ = call_result_tests(sp, gb)
            rep.ob("requires_success", requires(sp, b, tests), site(sp, b), "enqueue requires a registered destination (Some)", skey(F, sp, "enqueue-requires-some"))
        rep.ob("provenance", copy_sources(sp, op_base(t["args"][1])) == {("arg", 4, ())}, site(sp, b), "src passed on unchanged", skey(F, sp, "src-pass"))
        rep.ob("provenance", copy_sources(sp, op_base(t["args"][2])) == {("arg", 3, ())}, site(sp, b), "data passed on unchanged", skey(F, sp, "data-pass"))

    # ---- 3. Packet construction and conversion
    pk = [x for x in ctor_sites(F, S + "client::Packet") if not x[0].derived]
    rep.floor("ctor_sites", "Packet construction sites", len(pk), 1)
    for f, b, i, rv in pk:
        rep.fn(f)
        ok = source_fn(F, f) == S + "client::Client::try_send_packet"
        if ok:
            ok = copy_sources(f, op_base(rv["ops"][rv["fields"].index("src")])) == {("arg", 2, ())} and \
                 copy_sources(f, op_base(rv["ops"][rv["fields"].index("data")])) == {("arg", 3, ())}
        rep.ob("ctor_sites", ok, site(f, b), "Packet{src,data} built only in try_send_packet from its parameters", skey(F, f, "packet-ctor"))
    tf = get_fn(F, rep, S + "client::Client::try_send_packet")
    ts = find_calls(tf, "tokio::sync::mpsc::bounded::Sender::try_send")
    ok = False
    if len(ts) == 1:
        q = ref_source_place(tf, op_base(ts[0][1]["args"][0]))
        ok = q is not None and place_field_names(q) == ["packet_queue"] and q["l"] == 1
    rep.ob("routing", ok, site(tf), "packet is enqueued on self.packet_queue", skey(F, tf, "own-queue"))

    sr = body_of(F, rep, S + "client::Actor::send_raw")
    dgs = [x for x in ctor_sites(F, R2C, "Datagrams", crates=["iroh_relay"]) if source_fn(F, x[0]).startswith(S)]
    rep.floor("ctor_sites", "server-side RelayToClientMsg::Datagrams construction sites", len(dgs), 1)
    for f, b, i, rv in dgs:
        rep.fn(f)
        ok = source_fn(F, f) == S + "client::Actor::send_raw"
        a = copy_sources(f, op_base(rv["ops"][rv["fields"].index("remote_endpoint_id")]))
        d = copy_sources(f, op_base(rv["ops"][rv["fields"].index("datagrams")]))
        ok = ok and all(x[0] == "arg" and x[2] == ("packet", "src") for x in a) and bool(a) and all(x[0] == "arg" and x[2] == ("packet", "data") for x in d) and bool(d)
        rep.ob("ctor_sites", ok, site(f, b), "Datagrams message built only in send_raw from packet.src / packet.data (moves only); sources %s %s" % (sorted(map(str, a)), sorted(map(str, d))),
               skey(F, f, "datagrams-ctor"))
    # run_inner: packet handed to send_packet is the one received from the queue
    ri = body_of(F, rep, S + "client::Actor::run_inner")
    sps = find_calls(ri, S + "client::Actor::send_packet")
    rep.exact("routing", "Actor::send_packet calls in run_inner", len(sps), 1)
    if sps:
        sels = selects(ri)
        rep.floor("select", "select! dispatches in run_inner", len(sels), 1)
        ok = False
        for sel in sels:
            arms = sel.arm_by_output(r"Option<iroh_relay::server::client::Packet>")
            for a in arms:
                if sps[0][0] in sel.region(a):
                    du = defuse(ri)
                    ok = sel.local in du.closure(op_base(sps[0][1]["args"][1]))
        rep.ob("routing", ok, site(ri, sps[0][0]), "send_packet is called in the packet-queue arm with the received packet", skey(F, ri, "arm-packet"))
    allsp = call_sites(F, S + "client::Actor::send_packet", S + "client::Actor::send_raw", crates=["iroh_relay"])
    for f, b, t, kind in allsp:
        rep.ob("who_calls", source_fn(F, f) in (S + "client::Actor::run_inner", S + "client::Actor::send_packet"), site(f, b),
               "send_packet/send_raw callers", skey(F, f, "send-callers"))

    # ---- 4. no server-side writes into Datagrams
    for fld in ("ecn", "segment_size", "contents"):
        acc = [x for x in field_accesses(F, DG, fld, crates=["iroh_relay"]) if x[3] in ("write", "refmut") and x[0].npath.startswith(S)]
        for f, b, i, kind, obj in acc:
            rep.ob("who_writes", False, site(f, b), "server code writes Datagrams.%s" % fld, skey(F, f, "writes-datagrams-" + fld))
        rep.ob("who_writes", not acc, "iroh_relay::server::*", "no write / &mut of Datagrams.%s in server modules (%d found)" % (fld, len(acc)), "server|no-write-" + fld)

    # ---- 5. guard identity
    for fld in ("endpoint_id", "connection_id", "access"):
        acc = [x for x in field_accesses(F, GUARD, fld, crates=["iroh_relay"]) if x[3] in ("write", "refmut")]
        rep.ob("who_writes", not acc, GUARD, "OnDisconnectGuard.%s is never written after construction (%d writes)" % (fld, len(acc)), "guard|no-write-" + fld)
    # server path: the guard's endpoint id is the authenticated key
    acc_fn = body_of(F, rep, S + "http_server::Inner::accept")
    cr = find_calls(acc_fn, S + "ClientRequest::new")
    rep.exact("provenance", "ClientRequest::new calls in Inner::accept", len(cr), 1)
    if cr:
        srcs = copy_sources(acc_fn, op_base(cr[0][1]["args"][0]))
        ok = bool(srcs) and all(x[0] == "call" and x[1] == "iroh_relay::protos::handshake::serverside" and x[2][-1:] == ("client_key",) for x in srcs)
        rep.ob("provenance", ok, site(acc_fn, cr[0][0]), "ClientRequest endpoint id is authentication.client_key of the serverside() result; sources %s" % sorted(map(str, srcs)),
               skey(F, acc_fn, "request-id-from-auth"))
    fac = get_fn(F, rep, GUARD + "::for_access_control")
    for f, b, i, rv in [x for x in ctor_sites(F, GUARD) if x[0].npath == GUARD + "::for_access_control"]:
        e = copy_sources(f, op_base(rv["ops"][rv["fields"].index("endpoint_id")]), F=F)
        rep.ob("provenance", e == {("arg", 2, ("endpoint_id",))}, site(f, b), "guard endpoint id = request.endpoint_id; sources %s" % sorted(map(str, e)), skey(F, f, "guard-id"))
    cra = get_fn(F, rep, S + "ClientRequest::endpoint_id")
    rep.ob("thin_wrapper", copy_sources(cra, 0) == {("arg", 1, ("endpoint_id",))}, site(cra), "ClientRequest::endpoint_id returns self.endpoint_id", skey(F, cra, "accessor"))
