"""C40 Router hands each connection only to the handler for its protocol."""
from ..lib import *

P = "iroh::protocol::"
OUT = P + "IncomingFilterOutcome"


def check(F, rep):
    rep.clause("run loop: with a filter configured a connection task is spawned only on IncomingFilterOutcome::Accept; Retry / Reject / Ignore call retry / refuse / ignore respectively and go back to the loop head without spawning")
    rep.clause("handle_connection: the handler invoked (on_accepting, accept) is exactly the entry of the protocol map for the connection's negotiated ALPN; without an entry no handler is called; accept() receives the connection on_accepting returned")
    rep.clause("RouterBuilder::spawn advertises exactly the protocol map's keys as the endpoint's ALPNs")
    rep.undecided("ALPN negotiation inside noq / rustls")
    sp = get_fn(F, rep, P + "RouterBuilder::spawn")
    loops = [g for g in F.tree(sp) if g.coroutine and find_calls(g, regex=r"ProtocolMap::shutdown$")]
    if len(loops) != 1:
        rep.missing("run-loop", "run loop coroutine of RouterBuilder::spawn")
        return
    g = rep.fn(loops[0])
    du = defuse(g)
    spawns = [(b, t) for b, t in g.calls() if call_matches(t, r"JoinSet::spawn$")]
    rep.exact("filter", "join_set.spawn(..) in the run loop", len(spawns), 1)
    sw = enum_switches(F, g, OUT)
    rep.exact("filter", "switches on IncomingFilterOutcome", len(sw), 1)
    if spawns and sw:
        sb, pl, arms, other = sw[0]
        spb = spawns[0][0]
        # spawn reachable from the filter switch only through Accept
        non_accept = {(sb, tb) for v, tb in arms.items() if v != "Accept"}
        heads = {x.bb for x in selects(g)}
        rep.floor("filter", "select! dispatch (loop head) of the run loop", len(heads), 1)
        leak = any(spb in g.reachable(tb, removed_blocks=heads) for v, tb in arms.items() if v != "Accept")
        rep.ob("filter", not leak, site(g, spb), "with a filter, the connection task is spawned (within the same loop iteration) only through the Accept arm", skey(F, g, "spawn-requires-accept"))
        table = {}
        for v, tb in arms.items():
            if v == "Accept":
                continue
            reg = arm_region(g, sb, tb)
            names = {callee_names(t)[0].rsplit("::", 1)[-1] for b, t in calls_in(g, reg) if callee_names(t)[0].startswith("iroh::endpoint::") and not g.is_tracing(b)}
            table[v] = names
            rep.ob("filter", spb not in reg, site(g, tb), "%s arm does not spawn a handler task" % v, skey(F, g, "no-spawn-" + v))
        want = {"Retry": "retry", "Reject": "refuse", "Ignore": "ignore"}
        rep.ob("table_agreement", all(want[v] in table.get(v, ()) for v in want) and all(not ({"retry", "refuse", "ignore"} - {want[v]} - ({"refuse"} if v == "Retry" else set())) & table.get(v, set()) for v in want), site(g, sb),
               "filter outcome -> action table: %s" % {k: sorted(v) for k, v in table.items()}, skey(F, g, "outcome-actions"))
        # the spawned future handles this incoming with the shared protocol map
        hc = []
        for h in F.tree(g):
            for b, t in find_calls(h, P + "handle_connection"):
                hc.append((h, b, t))
        rep.exact("filter", "handle_connection calls from the run loop", len(hc), 1)
        # the filter sees the incoming it decides about
        ft = field_tests(g, "incoming_filter") or []
    # ---- handle_connection
    h = body_of(F, rep, P + "handle_connection")
    hdu = defuse(h)
    get = find_calls(h, regex=r"ProtocolMap::get$")
    al = find_calls(h, regex=r"endpoint::connection::Accepting::alpn$|Accepting::alpn$")
    oa = find_calls(h, regex=r"DynProtocolHandler::on_accepting$|ProtocolHandler::on_accepting$")
    ac = find_calls(h, regex=r"DynProtocolHandler::accept$|ProtocolHandler::accept$")
    rep.exact("dispatch", "protocols.get(..) calls", len(get), 1)
    rep.exact("dispatch", "accepting.alpn() calls", len(al), 1)
    rep.exact("dispatch", "on_accepting calls", len(oa), 1)
    rep.exact("dispatch", "accept calls", len(ac), 1)
    if get and al and oa and ac:
        key = copy_sources(h, op_base(get[0][1]["args"][1]))
        rep.ob("dispatch", bool(key) and all(x[0] == "call" and x[1].endswith("Accepting::alpn") for x in key), site(h, get[0][0]), "the handler is looked up by the connection's own negotiated ALPN; sources %s" % sorted(map(str, key)), skey(F, h, "lookup-by-alpn"))
        gt, _ = call_result_tests(h, get[0][0])
        for nm, calls in (("on_accepting", oa), ("accept", ac)):
            b, t = calls[0]
            rep.ob("dispatch", requires(h, b, gt), site(h, b), "%s is called only when the map has a handler for the ALPN" % nm, skey(F, h, nm + "-requires-entry"))
            s_ = copy_sources(h, op_base(t["args"][0]))
            rep.ob("dispatch", bool(s_) and all(x[0] == "call" and x[1].endswith("ProtocolMap::get") for x in s_), site(h, b), "%s is invoked on the looked-up handler; sources %s" % (nm, sorted(map(str, s_))), skey(F, h, nm + "-on-looked-up"))
        s_ = copy_sources(h, op_base(oa[0][1]["args"][1]))
        rep.ob("dispatch", bool(s_) and all(x[0] == "call" and x[1].endswith("Incoming::accept") for x in s_), site(h, oa[0][0]), "on_accepting receives this incoming's Accepting; %s" % sorted(map(str, s_)), skey(F, h, "accepting-own"))
        ot = tests_of_calls(h, oa, awaited=True)
        rep.ob("dispatch", requires(h, ac[0][0], ot, levels=[0]), site(h, ac[0][0]), "accept runs only after on_accepting succeeded", skey(F, h, "accept-after-on_accepting"))
        outs = await_output(h, oa[0][1]["dest"]["l"])
        s2 = copy_sources(h, op_base(ac[0][1]["args"][1]), stop=tuple(outs))
        rep.ob("dispatch", bool(s2) and all(x[0] == "place" and x[1] in outs for x in s2), site(h, ac[0][0]), "accept receives the connection on_accepting returned; %s" % sorted(map(str, s2)), skey(F, h, "accept-own-conn"))
        other_handlers = [(b, t) for b, t in h.calls() if call_matches(t, r"ProtocolHandler::") and (b, t) not in oa + ac]
        rep.ob("dispatch", not other_handlers, site(h), "no other handler entry point is called", skey(F, h, "no-other-handler"))
    pg = get_fn(F, rep, P + "ProtocolMap::get")
    pdu = defuse(pg)
    bg = [(b, t) for b, t in pg.calls() if call_matches(t, r"BTreeMap::get$|HashMap::get$")]
    rep.ob("dispatch", len(bg) == 1 and pdu.derives_from_arg(op_base(bg[0][1]["args"][1]), 2) and pdu.derives_from_call(0, regex=r"(BTreeMap|HashMap)::get$"), site(pg), "ProtocolMap::get is a plain map lookup by the given ALPN", skey(F, pg, "map-get"))
    # ---- advertised ALPNs
    sa = find_calls(sp, regex=r"Endpoint::set_alpns$")
    rep.exact("alpns", "set_alpns calls in spawn", len(sa), 1)
    if sa:
        sdu = defuse(sp)
        rep.ob("alpns", sdu.derives_from_call(op_base(sa[0][1]["args"][1]), P + "ProtocolMap::alpns") or sdu.derives_from_call(op_base(sa[0][1]["args"][1]), regex=r"ProtocolMap::alpns$"), site(sp, sa[0][0]), "the endpoint advertises ProtocolMap::alpns()", skey(F, sp, "alpns-from-map"))
        pa = get_fn(F, rep, P + "ProtocolMap::alpns")
        padu = defuse(pa)
        rep.ob("alpns", padu.derives_from_call(0, regex=r"(BTreeMap|HashMap)::keys$"), site(pa), "ProtocolMap::alpns() = the map's keys", skey(F, pa, "alpns-are-keys"))
