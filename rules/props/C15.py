"""C15 Relay dialing (happy eyeballs): failure only after everything was tried."""
from ..lib import *
from .. import booltab
from ..booltab import Unsupported

FN = "iroh_relay::client::tls::dial_happy_eyeballs"


def var_local(f, name):
    ls = [pl["l"] for n, pl in f.vars if n == name and not pl.get("p")]
    return ls[0] if len(set(ls)) == 1 else None


def check(F, rep):
    rep.clause("inside the dial loop an error is returned only when the resolver stream is finished AND no resolved address is waiting AND no attempt is in flight; `finished` is set only when the address stream ended; every resolved address is queued; the first successful attempt is returned as is")
    rep.clause("head start of the preferred family: when a resolved address is queued before any attempt, the action on the next-dial timer is a function of (address is of the preferred family, timer unarmed) - preferred => timer cleared (dial at once); other family and timer unarmed => armed with RESOLUTION_DELAY; other family and timer already armed => left alone (a second address of the other family must not cancel the head start) - decided as the outcome function of the block after the queue push")
    rep.undecided("family alternation in pop_family and the attempt delays themselves (timing, schedules)")
    f = body_of(F, rep, FN)
    du = defuse(f)
    fin = var_local(f, "resolve_stream_finished")
    queue = var_local(f, "queue")
    dials = var_local(f, "dials")
    if None in (fin, queue, dials):
        rep.missing("anchor", "locals resolve_stream_finished/queue/dials in dial_happy_eyeballs")
        return
    errs = [(b, i, rv) for b, i, rv in returns_of(f) if i is not None and rv["k"] == "agg" and rv.get("variant") == "Err"]
    rep.floor("all-tried", "Err returns in the loop", len(errs), 1)
    # tests
    fin_tests = []
    for b in sorted(f.reachable(0)):
        t = f.blocks[b]["t"]
        if t["k"] == "switch" and t["d"]["k"] in ("copy", "move") and copy_sources(f, t["d"]["p"]["l"], stop=(fin,)) == {("place", fin, ())}:
            su, fa = switch_edges(f, b, 1)
            fin_tests.append(Test(b, su, fa, 0, "bool", False, fin))
    # `is_empty()` / `len() == 0` / `len() > 0` ... alike (success edge = empty)
    q_tests, _ = emptiness_tests(f, None, recv=lambda a: arg_ref_target(f, a) == queue)
    d_tests, _ = emptiness_tests(f, None, recv=lambda a: arg_ref_target(f, a) == dials)
    rep.floor("all-tried", "tests of resolve_stream_finished", len(fin_tests), 1)
    rep.floor("all-tried", "tests of queue.is_empty()", len(q_tests), 1)
    rep.floor("all-tried", "tests of dials.is_empty()", len(d_tests), 1)
    for b, i, rv in errs:
        rep.ob("all-tried", requires(f, b, fin_tests), site(f, b), "Err requires the resolver stream to be finished", skey(F, f, "err-requires-finished"))
        rep.ob("all-tried", requires(f, b, q_tests), site(f, b), "Err requires the address queue to be empty", skey(F, f, "err-requires-queue-empty"))
        rep.ob("all-tried", requires(f, b, d_tests), site(f, b), "Err requires no attempt in flight", skey(F, f, "err-requires-no-dials"))
    # `finished = true` only on stream end
    sets = [(b, i, s) for b, i, s in f.stmts() if s["k"] == "a" and s["lhs"] == {"l": fin} and s["rv"]["k"] == "use" and s["rv"]["o"]["k"] == "const" and s["rv"]["o"].get("v") == "true"]
    rep.exact("finished", "assignments `resolve_stream_finished = true`", len(sets), 1)
    sels = selects(f)
    # one select!; a second switch on the same Out value (pattern-bound arm `Some(res) = ..`) is
    # part of the same dispatch
    rep.exact("finished", "select! outputs", len({s_.local for s_ in sels}), 1)
    sels = sorted(sels, key=lambda s_: -len(s_.arms))[:1]
    if sels and sets:
        sel = sels[0]
        arms = sel.arm_by_output(r"^core::option::Option<core::result::Result<core::net::ip_addr::IpAddr")
        rep.exact("finished", "arm polling the resolver stream", len(arms), 1)
        if arms:
            region = sel.region(arms[0])
            pay = [s["lhs"]["l"] for b in region for s in f.blocks[b]["s"] if s["k"] == "a" and s["rv"]["k"] == "use" and s["rv"]["o"]["k"] in ("copy", "move")
                   and s["rv"]["o"]["p"]["l"] == sel.local and any(e[0] == "dc" for e in s["rv"]["o"]["p"].get("p", []))]
            ts, _ = value_tests(f, pay, family="option")
            b, i, s = sets[0]
            rep.ob("finished", b in region and requires_failure(f, b, ts), site(f, b), "`finished` is set only on the None (stream ended) edge of the resolver stream's item", skey(F, f, "finished-on-none"))
            # every Ok(ip) is queued
            pb = [(cb, ct) for cb, ct in find_calls(f, regex=r"VecDeque::(push_back|push_front)$") if arg_ref_target(f, ct["args"][0]) == queue]
            rep.exact("queued", "pushes onto the address queue", len(pb), 1)
            if pb:
                cb, ct = pb[0]
                src = copy_sources(f, op_base(ct["args"][1]), stop=(sel.local,))
                rep.ob("queued", cb in region and bool(src) and all(x[0] == "place" and x[1] == sel.local for x in src), site(f, cb), "the queued address is the resolver's item; sources %s" % sorted(map(str, src)), skey(F, f, "queue-resolved"))
                rep.ob("queued", requires(f, cb, ts, levels=[0, 1]), site(f, cb), "pushed on the Some(Ok(ip)) path", skey(F, f, "queue-on-ok"))
    # every attempt carries its own relative timeout
    att = []
    for g in tree_with_helpers(F, F.fn(FN)):
        for b, t in find_calls(g, regex=r"^tokio::time::timeout::(timeout|timeout_at)$"):
            if any(True for _ in find_calls(g, regex=r"TcpStream::connect$")):
                att.append((g, b, t))
    rep.exact("per-attempt-timeout", "timeouts around TcpStream::connect", len(att), 1)
    for g, b, t in att:
        rep.fn(g)
        gdu = defuse(g)
        n0 = callee_names(t)[0]
        d = t["args"][0]
        cs = {d.get("def")} if d["k"] == "const" else {x[4].get("def") for x in gdu.origin_facts(op_base(d), kinds=("const",))}
        rep.ob("per-attempt-timeout", n0.endswith("::timeout") and any((c or "").endswith("DIAL_ENDPOINT_TIMEOUT") for c in cs) and g.coroutine, site(g, b),
               "each connection attempt is capped by its own relative timeout(DIAL_ENDPOINT_TIMEOUT, connect) started inside the attempt (callee %s, duration %s) - a shared absolute deadline would expire attempts that start late" % (n0.rsplit("::", 1)[-1], sorted(map(str, cs))),
               skey(F, f, "attempt-timeout"))
    # the queue is consumed only by pop_family
    users = []
    for b, t in f.calls():
        for ai, a in enumerate(t["args"]):
            if arg_ref_target(f, a) == queue and f.locals[op_base(a)].startswith("&mut"):
                users.append((b, t))
    names = sorted({callee_names(t)[0] for b, t in users})
    rep.ob("queued", set(names) <= {"alloc::collections::vec_deque::VecDeque::push_back", "iroh_relay::client::tls::pop_family"}, site(f), "the queue is mutated only by push_back and pop_family: %s" % names, skey(F, f, "queue-mutators"))
    # Ok(stream)
    oks = [(b, i, rv) for b, i, rv in returns_of(f) if i is not None and rv["k"] == "agg" and rv.get("variant") == "Ok"]
    rep.exact("first-success", "Ok returns", len(oks), 1)
    if oks and sels:
        b, i, rv = oks[0]
        src = copy_sources(f, op_base(rv["ops"][0]), stop=(sels[0].local,))
        rep.ob("first-success", bool(src) and all(x[0] == "place" and x[1] == sels[0].local for x in src), site(f, b), "the returned stream is the completed attempt's own result; sources %s" % sorted(map(str, src)), skey(F, f, "ok-from-dial"))
    head_start(F, rep, f)


def head_start(F, rep, f):
    sl = [(b, t) for b, t in f.calls() if call_matches(t, r"time::sleep::sleep$|::sleep$") and any(a["k"] == "const" and str(a.get("def") or "").endswith("RESOLUTION_DELAY") for a in t["args"])]
    rep.exact("head-start", "sleep(RESOLUTION_DELAY) calls", len(sl), 1)
    if len(sl) != 1:
        return
    arm = [(b, t) for b, t in find_calls(f, regex=r"MaybeFuture::set_future$") if f.dominates(sl[0][0], b) and any(x[0] == "call" and x[1].endswith("sleep") for x in copy_sources(f, op_base(t["args"][1])))]
    rep.exact("head-start", "timer armed with that sleep (set_future)", len(arm), 1)
    if len(arm) != 1:
        return
    tkey = lambda o: frozenset(copy_sources(f, op_base(o))) if op_base(o) is not None else None
    timer = tkey(arm[0][1]["args"][0])
    pbs = [(b, t) for b, t in find_calls(f, regex=r"VecDeque::push_back$") if f.dominates(b, arm[0][0])]
    rep.exact("head-start", "queue push of the resolved address in front of the head-start logic", len(pbs), 1)
    if len(pbs) != 1:
        return
    start = pbs[0][1]["t"]
    addr = copy_sources(f, op_base(pbs[0][1]["args"][1]))
    # the join after the head-start logic: post-dominators of the push that lie behind the arm site
    stops = {b for b in f.reachable(start) if b != start and f.postdominates(b, start) and not f.dominates(b, arm[0][0])}
    clears = {b for b, t in find_calls(f, regex=r"MaybeFuture::set_none$") if tkey(t["args"][0]) == timer and b in f.reachable(start, removed_blocks=stops)}
    targets = {b: "clear" for b in clears}
    targets[arm[0][0]] = "arm"
    key = skey(F, f, "head-start")
    try:
        paths = booltab.extract_outcomes(f, start, stop=stops, targets=targets)
        def fkey(a):
            """a test of the same variable at two places is one free variable"""
            l = op_local(a.args[0])
            for _ in range(4):
                nxt = None
                for st in f.blocks[a.bb]["s"]:
                    if st["k"] == "a" and st["lhs"] == {"l": l} and st["rv"]["k"] == "use" and st["rv"]["o"]["k"] in ("copy", "move") and not st["rv"]["o"]["p"].get("p"):
                        nxt = st["rv"]["o"]["p"]["l"]
                if nxt is None:
                    break
                l = nxt
            named = {pl["l"] for n, pl in f.vars if not pl.get("p")}
            return ("var", l) if l in named and str(f.locals[l]) == "bool" else ("bb", a.bb)
        free = {}
        for conds, lab in paths:
            for a, v in conds:
                if a.kind == "switch":
                    free.setdefault(fkey(a), set()).add(v)

        def classify(a):
            if a.kind == "cmp" and a.name in ("Eq", "Ne"):
                sides = []
                for o in a.args:
                    cs = copy_sources(f, op_base(o)) if op_base(o) is not None else set()
                    if cs and all(x[0] == "call" and x[1].endswith("IpAddr::is_ipv6") for x in cs):
                        sides.append("is_v6")
                    elif cs and all(x[0] in ("arg", "place") for x in cs):
                        sides.append("pref")
                    else:
                        sides.append("?")
                if sorted(sides) == ["is_v6", "pref"]:
                    return ("preferred", a.name == "Ne")
            if a.kind == "call" and call_matches(a.term, r"MaybeFuture::(is_none|is_some)$") and tkey(a.args[0]) == timer:
                return ("unarmed", a.name.endswith("is_some"))
            return None
        for conds, lab in paths:
            for a, v in conds:
                if a.kind != "switch" and classify(a) is None:
                    raise Unsupported("test %s at bb%d" % (a.name, a.bb))
        import itertools
        frees = sorted(free, key=str)
        want = {(True, True): "clear", (True, False): "clear", (False, True): "arm", (False, False): "stop"}
        exact, bad = 0, []
        for combo in itertools.product(*[sorted(free[b], key=str) for b in frees]):
            fv = dict(zip(frees, combo))
            got = {}
            for pref in (True, False):
                for unarmed in (True, False):
                    def value_of(a):
                        if a.kind == "switch":
                            return fv[fkey(a)]
                        nm, neg = classify(a)
                        return ({"preferred": pref, "unarmed": unarmed}[nm]) != neg
                    got[(pref, unarmed)] = booltab.outcome(paths, value_of)
            if got == want:
                exact += 1
            elif set(got.values()) != {"stop"}:
                say = {"clear": "cleared", "arm": "armed", "stop": "left alone", "return": "return"}
                bad += ["%s family, timer %s -> %s (must be %s)" % ("preferred" if k[0] else "other", "unarmed" if k[1] else "armed", say.get(v, v), say[want[k]]) for k, v in sorted(got.items()) if v != want[k]]
        rep.ob("head-start", exact >= 1 and not bad, site(f, arm[0][0]), "after queueing a resolved address: preferred family => timer cleared; other family & timer unarmed => armed with RESOLUTION_DELAY; other family & timer armed => left alone. Mismatches: %s" % sorted(set(bad))[:4], key)
    except Unsupported as e:
        rep.ob("head-start", False, site(f, arm[0][0]), "the head-start logic could not be extracted (unrecognised idiom, fails closed): %s" % e, key)
