"""C30 Every lookup service ends up with the latest published address data (atomicity)."""
from ..lib import *
from ..lockset import guards

S = "iroh::address_lookup::AddressLookupServices"
PUB = r"address_lookup::AddressLookup::publish$"


def lock_field(g):
    for d in g.lock:
        if len(d) == 3 and d[2]:
            return d[2][-1]
    return None


def check(F, rep):
    rep.clause("atomic set {last_data, services}: add_boxed (read last_data, publish it to the new service, append the service) and publish (fan out to all services, store last_data) exclude each other and publishes exclude one another: add_boxed keeps a last_data guard from the read until the service is appended; publish holds last_data exclusively from before the fan-out until it stored the new value")
    rep.clause("the address filter is applied once, before the fan-out, and the filtered value is what is stored")
    rep.undecided("what each service does with the data it was handed")
    from ..inline import inlined
    ab = inlined(F, get_fn(F, rep, S + "::add_boxed"))      # e.g. priming the new service moved into a private helper
    pb0 = get_fn(F, rep, S + "::publish")
    pb = inlined(F, pb0)        # e.g. the filter step moved into a private helper
    # ---- add_boxed
    gs = guards(ab)
    ld = [g for g in gs if lock_field(g) == "last_data"]
    sv = [g for g in gs if lock_field(g) == "services"]
    rep.exact("lockset", "add_boxed: last_data acquisitions", len(ld), 1)
    rep.exact("lockset", "add_boxed: services acquisitions", len(sv), 1)
    push = find_calls(ab, "alloc::vec::Vec::push")
    pubs = find_calls(ab, regex=PUB)
    rep.exact("lockset", "add_boxed: publish to the new service", len(pubs), 1)
    rep.exact("lockset", "add_boxed: append to services", len(push), 1)
    if ld and sv and push and pubs:
        held_pub = pubs[0][0] in ld[0].held_blocks()
        held_push = push[0][0] in ld[0].held_blocks()
        rep.ob("atomic-set", held_pub, site(ab, pubs[0][0]), "the historical data is handed to the new service under the last_data guard", skey(F, ab, "publish-under-last_data"))
        rep.ob("atomic-set", held_push, site(ab, push[0][0]),
               "the last_data guard taken for the read is still held when the service is appended%s"
               % ("" if held_push else ": it is released first, so a publish() in between reaches neither the new service (not yet in the list) nor is its data re-read here - the new service keeps stale data until the next publish"),
               "AddressLookupServices::add_boxed|last_data-guard-spans-push")
        rep.ob("atomic-set", sv[0].mode == "exclusive", site(ab, sv[0].bb), "services is locked exclusively for the append", skey(F, ab, "services-write"))
        s_ = copy_sources(ab, op_base(push[0][1]["args"][1]))
        rep.ob("provenance", s_ == {("arg", 2, ())}, site(ab, push[0][0]), "the appended service is the one that was primed", skey(F, ab, "same-service"))
    # ---- publish
    gp = guards(pb)
    pld = [g for g in gp if lock_field(g) == "last_data"]
    psv = [g for g in gp if lock_field(g) == "services"]
    fan = find_calls(pb, regex=PUB)
    if not fan:
        # `services.iter().for_each(|s| s.publish(&data))`: the adapter call is the fan-out
        for b_, t_ in find_calls(pb, regex=r"Iterator::for_each$"):
            m_ = re.search(r"closure@[^:]+:(\d+):", str(pb.locals[op_base(t_["args"][1])])) if op_base(t_["args"][1]) is not None else None
            for c_ in F.tree(pb0):
                if c_ is not pb0 and m_ and c_.line == int(m_.group(1)) and find_calls(c_, regex=PUB):
                    rep.fn(c_)
                    caps = [st["rv"]["ops"] for bb_, i_, st in pb.stmts() if st["k"] == "a" and st["lhs"] == {"l": op_base(t_["args"][1])} and st["rv"]["k"] == "agg"]
                    # present the call as publish(receiver, data) with the captured data
                    fan.append((b_, {"k": "call", "callee": "for_each:publish", "args": [t_["args"][0], (caps[0][0] if caps and caps[0] else t_["args"][1])], "dest": t_["dest"]}))
    rp = find_calls(pb, "core::option::Option::replace")
    if not rp:
        # `*last_data = Some(data)` through the write guard
        for b_, i_, st in pb.stmts():
            if st["k"] == "a" and st["lhs"].get("p") and st["lhs"]["p"][0][0] == "deref" and len(st["lhs"]["p"]) == 1:
                dc = def_call(pb, st["lhs"]["l"])
                if dc is not None and call_matches(dc[1], r"DerefMut::deref_mut$") and "last_data" in str(pb.locals[arg_ref_target(pb, dc[1]["args"][0]) or 0]) + "".join(str(x) for x in copy_sources(pb, op_base(dc[1]["args"][0]))):
                    pass
                if dc is not None and call_matches(dc[1], r"DerefMut::deref_mut$") and st["rv"]["k"] in ("use", "agg"):
                    val = st["rv"]["o"] if st["rv"]["k"] == "use" else (st["rv"]["ops"][0] if st["rv"].get("ops") else None)
                    if val is not None:
                        rp.append((b_, {"k": "call", "callee": "assign:last_data", "args": [dc[1]["args"][0], val], "dest": {"l": 0}}))
    rep.exact("lockset", "publish: last_data acquisitions", len(pld), 1)
    rep.exact("lockset", "publish: services acquisitions", len(psv), 1)
    rep.exact("lockset", "publish: fan-out call", len(fan), 1)
    rep.exact("lockset", "publish: store of last_data", len(rp), 1)
    if pld and psv and fan and rp:
        g = pld[0]
        rep.ob("atomic-set", g.mode == "exclusive", site(pb, g.bb), "publish locks last_data exclusively", skey(F, pb, "last_data-write"))
        spans = fan[0][0] in g.held_blocks() and rp[0][0] in g.held_blocks()
        rep.ob("atomic-set", spans, site(pb, fan[0][0]),
               "one exclusive last_data guard spans the fan-out and the store%s"
               % ("" if spans else ": the fan-out runs under a *shared* services guard only, so two publishes interleave (services may see D1,D2 in different orders and last_data may end up older than what a service saw) and add_boxed can slip between fan-out and store"),
               "AddressLookupServices::publish|last_data-guard-spans-fanout")
        rep.ob("atomic-set", fan[0][0] in psv[0].held_blocks(), site(pb, fan[0][0]), "the fan-out iterates under the services guard", skey(F, pb, "fanout-under-services"))
        # consistent lock order with add_boxed: last_data before services in both
        if ld and sv:
            order_ab = ab.dominates(ld[0].bb, sv[0].bb)
            order_pb = pb.dominates(g.bb, psv[0].bb) if spans else True
            rep.ob("lock-order", order_ab and order_pb, site(pb, g.bb), "both units take last_data before services (no lock-order inversion)", "AddressLookupServices|lock-order")
    # ---- filter once
    du = defuse(pb)
    af = find_calls(pb, regex=r"EndpointData::apply_filter$")
    rep.exact("filter", "apply_filter calls in publish", len(af), 1)
    if af and fan and rp:
        rep.ob("filter", pb.dominates(af[0][0], fan[0][0]) or af[0][0] not in pb.reachable(fan[0][0]), site(pb, af[0][0]), "the filter is applied before (not inside) the fan-out loop", skey(F, pb, "filter-once"))
        a1 = du.closure(op_base(fan[0][1]["args"][1]))
        a2 = du.closure(op_base(rp[0][1]["args"][1]))
        rep.ob("filter", af[0][1]["dest"]["l"] in a1 and af[0][1]["dest"]["l"] in a2, site(pb, fan[0][0]), "services receive, and last_data stores, the filtered value", skey(F, pb, "filtered-value"))
