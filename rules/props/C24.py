"""C24 Path selection only ever selects a path that exists and has statistics (one clause)."""
from ..lib import *

SEL = "<iroh::socket::biased_rtt_path_selector::BiasedRttPathSelector as iroh::socket::remote_map::PathSelector>::select"
PSN = "iroh::socket::remote_map::remote_state::PathSelection"
RSA = "iroh::socket::remote_map::remote_state::RemoteStateActor"


def check(F, rep):
    rep.clause("BiasedRttPathSelector::select: every path handed to selection.set(..) is an element yielded by ctx.paths() whose stats() was Some; without such an element the untouched PathSelection::none() is returned; RemoteStateActor::select_path replaces the selected path only with a Some(addr) the selector returned")
    rep.undecided("tiering (primary vs backup) and the 5 ms / 3 ms thresholds (values)")
    fs = F.find(r"^<iroh::socket::biased_rtt_path_selector::BiasedRttPathSelector as .*::PathSelector>::select$")
    if len(fs) != 1:
        rep.missing("anchor", SEL)
        return
    f = rep.fn(fs[0])
    du = defuse(f)
    sets = find_calls(f, regex=r"PathSelection::set$")
    rep.floor("selection", "selection.set(..) calls", len(sets), 2)
    paths = find_calls(f, regex=r"PathSelectionContext::paths$")
    rep.exact("selection", "ctx.paths() calls", len(paths), 1)
    nx = [(b, t) for b, t in find_calls(f, "core::iter::traits::iterator::Iterator::next") if paths and paths[0][1]["dest"]["l"] in du.closure(op_base(t["args"][0]))]
    rep.exact("selection", "iteration over ctx.paths()", len(nx), 1)
    stats = find_calls(f, regex=r"PathSelectionData::stats$")
    rep.exact("selection", "psd.stats() calls", len(stats), 1)
    if not (sets and nx and stats):
        return
    st, _ = call_result_tests(f, stats[0][0])
    nt, _ = call_result_tests(f, nx[0][0])
    best = None
    for n, pl in f.vars:
        if n == "best" and not pl.get("p"):
            best = pl["l"]
    rep.ob("selection", best is not None, site(f), "candidate slot `best` found", SEL + "|best-var")
    if best is None:
        return
    writes = [(b, i, s) for b, i, s in f.stmts() if s["k"] == "a" and s["lhs"] == {"l": best}]
    some_w = [(b, i, s) for b, i, s in writes if operand_or_agg_variant(f, s) == "Some"]
    none_w = [(b, i, s) for b, i, s in writes if operand_or_agg_variant(f, s) == "None"]
    rep.floor("selection", "assignments best = Some(..)", len(some_w), 1)
    for b, i, s in some_w:
        src_l = op_base(s["rv"]["o"]) if s["rv"]["k"] == "use" else None
        dep = nx[0][1]["dest"]["l"] in du.closure(src_l) if src_l is not None else any(nx[0][1]["dest"]["l"] in du.closure(op_base(o)) for o in s["rv"].get("ops", []) if op_base(o) is not None)
        rep.ob("selection", requires(f, b, st) and requires(f, b, nt) and dep, site(f, b), "a candidate is recorded only for an element of ctx.paths() whose stats() is Some", SEL + "|candidate-requires-stats")
    for b, t in sets:
        a = op_base(t["args"][1])
        cl = du.closure(a)
        rep.ob("selection", best in cl or any(best in du.closure(x) for x in cl), site(f, b), "the path selected is the recorded candidate", SEL + "|set-from-best")
    # none when no candidate
    none_calls = find_calls(f, regex=r"PathSelection::none$")
    rep.exact("selection", "PathSelection::none() calls", len(none_calls), 1)
    bt = []
    for b in sorted(f.reachable(0)):
        t = f.blocks[b]["t"]
        if t["k"] == "switch":
            for s in f.blocks[b]["s"]:
                if s["k"] == "a" and s["rv"]["k"] == "discr" and s["rv"]["p"]["l"] == best and op_local(t["d"]) == s["lhs"]["l"]:
                    su, fa = switch_edges(f, b, 1)
                    bt.append(Test(b, su, fa, 0, "discr:option", False, None))
    rep.floor("selection", "tests of `best`", len(bt), 1)
    if bt:
        for b, t in sets:
            rep.ob("selection", requires(f, b, bt[-1:]) or requires(f, b, bt), site(f, b), "set(..) requires a recorded candidate (best is Some)", SEL + "|set-requires-candidate")
        none_t = {tg for t in bt[-1:] for _, tg in t.failure}
        leak = any(sb in f.reachable(tg) for tg in none_t for sb, _ in sets)
        rep.ob("selection", bool(none_t) and not leak, site(f, bt[-1].bb), "with no candidate nothing is selected (the PathSelection::none() value is returned untouched)", SEL + "|none-untouched")
    # ---- select_path
    sp = [g for g in F.tree_of(RSA + "::select_path")]
    body = max(sp, key=lambda g: len(g.blocks))
    rep.fn(body)
    bdu = defuse(body)
    rp = [(b, t) for b, t in body.calls() if call_matches(t, r"Option::replace$") and recv_field(body, t["args"][0]) == "selected_path"]
    ws = field_writes(body, "selected_path")
    rep.ob("select_path", len(rp) + len(ws) == 1, site(body), "one write to selected_path in select_path (%d replace, %d assignments)" % (len(rp), len(ws)), RSA + "::select_path|single-write")
    sel = find_calls(body, regex=r"PathSelector::select$")
    sd = find_calls(body, regex=r"PathSelection::selected$")
    if rp and sel and sd:
        b, t = rp[0]
        ts, _ = call_result_tests(body, sd[0][0])
        cl = find_calls(body, "core::option::Option::cloned")
        tests = []
        for cb, ct in cl:
            if sd[0][1]["dest"]["l"] in bdu.closure(op_base(ct["args"][0])):
                tests += call_result_tests(body, cb)[0]
        rep.ob("select_path", bool(tests) and requires(body, b, tests), site(body, b), "selected_path is replaced only when the selector returned Some(addr)", RSA + "::select_path|replace-requires-some")
        rep.ob("select_path", sel[0][1]["dest"]["l"] in bdu.closure(op_base(t["args"][1])) or sd[0][1]["dest"]["l"] in bdu.closure(op_base(t["args"][1])), site(body, b), "the new value is the selector's selection", RSA + "::select_path|value-from-selector")
    else:
        rep.missing("select_path", "replace/select/selected calls in select_path")
    allw = [x for x in field_accesses(F, "iroh::socket::remote_map::remote_state::State", "selected_path", crates=["iroh"]) if x[3] in ("write", "refmut")]
    for g, b, i, kind, s in allw:
        is_clear = kind == "write" and s["rv"]["k"] == "use" and operand_sources(g, s["rv"]["o"], follow=True) == {("agg", "core::option::Option::None")}
        rep.ob("who_writes", source_fn(F, g) == RSA + "::select_path" or is_clear, site(g, b), "State.selected_path is set to a path only in select_path (elsewhere only cleared): %s%s" % (source_fn(F, g), " [clear]" if is_clear else ""), skey(F, g, "selected_path-writer"))


def operand_or_agg_variant(f, s):
    rv = s["rv"]
    if rv["k"] == "agg" and rv["ak"] == "adt":
        return rv["variant"]
    if rv["k"] == "use" and rv["o"]["k"] in ("copy", "move"):
        src = copy_sources(f, op_base(rv["o"]))
        vs = {x[1].rsplit("::", 1)[-1] for x in src if x[0] == "agg"}
        if len(vs) == 1:
            return next(iter(vs))
    return None
