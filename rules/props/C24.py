"""C24 Path selection only ever selects a path that exists and has statistics (one clause)."""
from ..lib import *

SEL = "<iroh::socket::biased_rtt_path_selector::BiasedRttPathSelector as iroh::socket::remote_map::PathSelector>::select"
PSN = "iroh::socket::remote_map::remote_state::PathSelection"
RSA = "iroh::socket::remote_map::remote_state::RemoteStateActor"


def check(F, rep):
    rep.clause("BiasedRttPathSelector::select: every path handed to selection.set(..) is an element yielded by ctx.paths() whose stats() was Some; without such an element the untouched PathSelection::none() is returned; RemoteStateActor::select_path replaces the selected path only with a Some(addr) the selector returned")
    rep.clause("ranking, as relations: both accumulators of the single pass (`best`, and `current_key` for the currently selected address) are running minima - a slot is overwritten only when it is empty or the new key is `<` the stored one - so duplicates of an address across connections count with their lowest key; the final decision, extracted as a truth function, is: select best iff a candidate exists and (no key for the current path, or the tiers differ, or best_biased + RTT_SWITCHING_MIN <= current_biased); keys are (tier, rtt_nanos saturating_add bias) compared lexicographically with Primary < Backup; the default table makes IPv4/IPv6 primary, relay backup, IPv6 credited IPV6_RTT_ADVANTAGE; RTT_SWITCHING_MIN = 5 ms, IPV6_RTT_ADVANTAGE = 3 ms")
    rep.undecided("arithmetic on the RTT values themselves (overflow of as_nanos as i128 cannot happen; saturating add)")
    fs = F.find(r"^<iroh::socket::biased_rtt_path_selector::BiasedRttPathSelector as .*::PathSelector>::select$")
    if len(fs) != 1:
        rep.missing("anchor", SEL)
        return
    f = rep.fn(fs[0])
    du = defuse(f)
    sets = find_calls(f, regex=r"PathSelection::set$")
    rep.floor("selection", "selection.set(..) calls", len(sets), 1)
    paths = find_calls(f, regex=r"PathSelectionContext::paths$")
    rep.exact("selection", "ctx.paths() calls", len(paths), 1)
    nx = [(b, t) for b, t in find_calls(f, "core::iter::traits::iterator::Iterator::next") if paths and paths[0][1]["dest"]["l"] in du.closure(op_base(t["args"][0]))]
    rep.exact("selection", "iteration over ctx.paths()", len(nx), 1)
    stats = find_calls(f, regex=r"PathSelectionData::stats$")
    rep.exact("selection", "psd.stats() calls", len(stats), 1)
    if not (sets and nx and stats):
        return
    st, _ = call_result_tests(f, stats[0][0])
    nt, _ = call_result_tests(f, nx[0][0])
    best = None
    for n, pl in f.vars:
        # the candidate accumulator, whatever it is called: Option<(PathSelectionData, key)>
        if not pl.get("p") and re.match(r"^core::option::Option<\(.*PathSelectionData", str(f.locals[pl["l"]])):
            best = pl["l"]
    rep.ob("selection", best is not None, site(f), "candidate slot `best` found", SEL + "|best-var")
    if best is None:
        return
    writes = [(b, i, s) for b, i, s in f.stmts() if s["k"] == "a" and s["lhs"] == {"l": best}]
    some_w = [(b, i, s) for b, i, s in writes if operand_or_agg_variant(f, s) == "Some"]
    none_w = [(b, i, s) for b, i, s in writes if operand_or_agg_variant(f, s) == "None"]
    rep.floor("selection", "assignments best = Some(..)", len(some_w), 1)
    for b, i, s in some_w:
        src_l = op_base(s["rv"]["o"]) if s["rv"]["k"] == "use" else None
        dep = nx[0][1]["dest"]["l"] in du.closure(src_l) if src_l is not None else any(nx[0][1]["dest"]["l"] in du.closure(op_base(o)) for o in s["rv"].get("ops", []) if op_base(o) is not None)
        rep.ob("selection", requires(f, b, st) and requires(f, b, nt) and dep, site(f, b), "a candidate is recorded only for an element of ctx.paths() whose stats() is Some", SEL + "|candidate-requires-stats")
    for b, t in sets:
        a = op_base(t["args"][1])
        cl = du.closure(a)
        rep.ob("selection", best in cl or any(best in du.closure(x) for x in cl), site(f, b), "the path selected is the recorded candidate", SEL + "|set-from-best")
    # none when no candidate
    none_calls = find_calls(f, regex=r"PathSelection::none$")
    rep.exact("selection", "PathSelection::none() calls", len(none_calls), 1)
    bt = []
    for b in sorted(f.reachable(0)):
        t = f.blocks[b]["t"]
        if t["k"] == "switch":
            for s in f.blocks[b]["s"]:
                if s["k"] == "a" and s["rv"]["k"] == "discr" and s["rv"]["p"]["l"] == best and op_local(t["d"]) == s["lhs"]["l"]:
                    su, fa = switch_edges(f, b, 1)
                    bt.append(Test(b, su, fa, 0, "discr:option", False, None))
    rep.floor("selection", "tests of `best`", len(bt), 1)
    if bt:
        for b, t in sets:
            rep.ob("selection", requires(f, b, bt[-1:]) or requires(f, b, bt), site(f, b), "set(..) requires a recorded candidate (best is Some)", SEL + "|set-requires-candidate")
        none_t = {tg for t in bt[-1:] for _, tg in t.failure}
        leak = any(sb in f.reachable(tg) for tg in none_t for sb, _ in sets)
        rep.ob("selection", bool(none_t) and not leak, site(f, bt[-1].bb), "with no candidate nothing is selected (the PathSelection::none() value is returned untouched)", SEL + "|none-untouched")
    ranking(F, rep, f)
    # ---- select_path
    sp = [g for g in F.tree_of(RSA + "::select_path")]
    body = max(sp, key=lambda g: len(g.blocks))
    rep.fn(body)
    bdu = defuse(body)
    rp = [(b, t) for b, t in body.calls() if call_matches(t, r"Option::replace$") and recv_field(body, t["args"][0]) == "selected_path"]
    ws = field_writes(body, "selected_path")
    rep.ob("select_path", len(rp) + len(ws) == 1, site(body), "one write to selected_path in select_path (%d replace, %d assignments)" % (len(rp), len(ws)), RSA + "::select_path|single-write")
    sel = find_calls(body, regex=r"PathSelector::select$")
    sd = find_calls(body, regex=r"PathSelection::selected$")
    if rp and sel and sd:
        b, t = rp[0]
        ts, _ = call_result_tests(body, sd[0][0])
        cl = find_calls(body, "core::option::Option::cloned")
        tests = []
        for cb, ct in cl:
            if sd[0][1]["dest"]["l"] in bdu.closure(op_base(ct["args"][0])):
                tests += call_result_tests(body, cb)[0]
        rep.ob("select_path", bool(tests) and requires(body, b, tests), site(body, b), "selected_path is replaced only when the selector returned Some(addr)", RSA + "::select_path|replace-requires-some")
        rep.ob("select_path", sel[0][1]["dest"]["l"] in bdu.closure(op_base(t["args"][1])) or sd[0][1]["dest"]["l"] in bdu.closure(op_base(t["args"][1])), site(body, b), "the new value is the selector's selection", RSA + "::select_path|value-from-selector")
    else:
        rep.missing("select_path", "replace/select/selected calls in select_path")
    allw = [x for x in field_accesses(F, "iroh::socket::remote_map::remote_state::State", "selected_path", crates=["iroh"]) if x[3] in ("write", "refmut")]
    for g, b, i, kind, s in allw:
        is_clear = kind == "write" and s["rv"]["k"] == "use" and operand_sources(g, s["rv"]["o"], follow=True) == {("agg", "core::option::Option::None")}
        rep.ob("who_writes", source_fn(F, g) == RSA + "::select_path" or is_clear, site(g, b), "State.selected_path is set to a path only in select_path (elsewhere only cleared): %s%s" % (source_fn(F, g), " [clear]" if is_clear else ""), skey(F, g, "selected_path-writer"))


def ranking(F, rep, f):
    """Running-minimum accumulators and the final switching decision of select()."""
    from .. import booltab
    from ..booltab import Unsupported
    M = "iroh::socket::biased_rtt_path_selector::"
    du = defuse(f)
    slots = {}
    for n, pl in f.vars:
        # accumulators by type, not by name
        ty = str(f.locals[pl["l"]])
        if pl.get("p"):
            continue
        if re.match(r"^core::option::Option<\(.*PathSelectionData", ty):
            slots["best"] = pl["l"]
        elif re.match(r"^core::option::Option<\(.*TransportType, i128\)>$", ty) and (sum(1 for b_, i_, s_ in f.stmts() if s_["k"] == "a" and s_["lhs"] == {"l": pl["l"]}) >= 2
                                                                                    or any(call_matches(t_, r"^core::option::Option::(get_or_insert|get_or_insert_with|insert|replace)$") and arg_ref_target(f, t_["args"][0]) == pl["l"] for b_, t_ in f.calls())):
            slots["current_key"] = pl["l"]
    rep.ob("ranking", set(slots) == {"best", "current_key"}, site(f), "accumulators `best` and `current_key` found: %s" % sorted(slots), skey(F, f, "slots"))
    if set(slots) != {"best", "current_key"}:
        return
    sk = find_calls(f, M + "BiasedRttPathSelector::sort_key")
    rep.exact("ranking", "sort_key calls in select", len(sk), 1)
    none_c = find_calls(f, regex=r"PathSelection::none$")
    paths_c = find_calls(f, regex=r"PathSelectionContext::paths$")
    if not (sk and none_c and paths_c):
        return
    key_l = sk[0][1]["dest"]["l"]
    nx = [(b, t) for b, t in find_calls(f, "core::iter::traits::iterator::Iterator::next") if paths_c[0][1]["dest"]["l"] in du.closure(op_base(t["args"][0]))]
    if not nx:
        return
    loop_head = nx[0][0]
    stopset = {loop_head}
    slotset = set(slots.values())

    def src(o, fr=None):
        fr = fr or f
        l = op_base(o)
        return copy_sources(fr, l, stop=slotset if fr is f else ()) if l is not None else set()

    def is_key(o):
        x = src(o)
        return bool(x) and all(y[0] == "call" and y[1].endswith("BiasedRttPathSelector::sort_key") for y in x)

    def slot_payload(o, name):
        """operand is the key stored in slot `name` (payload of Some; for `best` its .1)"""
        x = src(o)
        want = ("0",) if name == "current_key" else ("0", "1")
        return bool(x) and all(y[0] == "place" and y[1] == slots[name] and tuple(y[2]) == want for y in x)

    def lt_closure(o, name):
        """closure |c| key < c  (for best: |(_, b)| key < *b) capturing the new key"""
        l = op_base(o)
        if l is None:
            return False
        ty = str(f.locals[l])
        m = re.search(r"closure@[^:]+:(\d+):(\d+)", ty)
        if not m:
            return False
        cl = [c for c in F.tree(f) if c is not f and c.kind == "Closure" and c.line == int(m.group(1)) and c.path.count("{closure") == f.path.count("{closure") + 1]
        # the captured value is the new key
        caps = [st["rv"] for b, i, st in f.stmts() if st["k"] == "a" and st["lhs"]["l"] == l and st["rv"]["k"] == "agg"]
        if not caps or not all(len(rv["ops"]) == 1 and is_key(rv["ops"][0]) for rv in caps):
            return False
        for c in cl:
            cc = list(c.calls())
            if len(cc) != 1 or not call_matches(cc[0][1], r"^core::cmp::PartialOrd::lt$") or cc[0][1]["dest"]["l"] != 0:
                continue
            a0 = copy_sources(c, op_base(cc[0][1]["args"][0]))
            a1 = copy_sources(c, op_base(cc[0][1]["args"][1]))
            want1 = () if name == "current_key" else ("1",)
            if a0 == {("arg", 1, ("key",))} and a1 == {("arg", 2, want1)}:
                rep.fn(c)
                return True
        return False

    # ---- running minima
    def newkey_blocks(name):
        """blocks that build `Some(<this path's key>)` of the slot's type (the value that
        overwrites the slot); every assignment to the slot must come from such a value or
        from the slot's own old content"""
        sl = slots[name]
        out, bad = set(), []
        sty = str(f.locals[sl])
        for b in f.reachable(sk[0][1]["t"]):
            for i, st in enumerate(f.blocks[b]["s"]):
                if st["k"] == "a" and st["rv"]["k"] == "agg" and st["rv"].get("variant") == "Some" and str(f.locals[st["lhs"]["l"]]) == sty and not st["lhs"].get("p"):
                    op = st["rv"]["ops"][0]
                    x = src(op)
                    if name == "best" and x == {("agg", "tuple")}:
                        tl = op_base(op)
                        x = set()
                        for b2, i2, st2 in f.stmts():
                            if st2["k"] == "a" and st2["lhs"] == {"l": tl} and st2["rv"]["k"] == "agg" and len(st2["rv"]["ops"]) == 2:
                                x |= src(st2["rv"]["ops"][1])
                    is_sk = lambda y: y[0] == "call" and y[1].endswith("BiasedRttPathSelector::sort_key")
                    is_mn = lambda y: y[0] == "call" and re.search(r"core::cmp::(Ord::min|min)$", y[1]) is not None
                    if x and all(is_sk(y) for y in x):
                        out.add(b)
                    elif x and all(y[0] == "place" and y[1] == sl for y in x):
                        pass        # re-wrapping the stored value: a no-op
                    elif x and all(is_sk(y) or is_mn(y) for y in x) and min_calls(name) is not None:
                        # `Some(min(stored, key))` (possibly `Some(key)` on the empty arm): the
                        # store keeps the smaller one - evaluated as "overwritten iff new < stored"
                        out.add(b)
                    else:
                        bad.append((b, sorted(map(str, x))))
        return out, bad

    def min_calls(name):
        """blocks of `min(stored key, new key)` calls (either order) for the slot, or None when
        some min() call in the loop body has other operands"""
        res = set()
        for b, t in f.calls():
            if t["k"] == "call" and call_matches(t, r"^core::cmp::(Ord::min|min)$") and b in f.reachable(sk[0][1]["t"]):
                a0, a1 = t["args"][0], t["args"][1]
                if (is_key(a0) and slot_payload(a1, name)) or (is_key(a1) and slot_payload(a0, name)):
                    res.add(b)
                elif name == "current_key" and ((is_key(a0) and slot_payload(a1, "best")) or (is_key(a1) and slot_payload(a0, "best"))):
                    continue
                elif name == "best" and ((is_key(a0) and slot_payload(a1, "current_key")) or (is_key(a1) and slot_payload(a0, "current_key"))):
                    continue
                else:
                    return None
        return res

    def slot_value_of(v):
        def value_of(a):
            if a.kind == "call":
                if call_matches(a.term, r"^core::cmp::PartialEq::(eq|ne)$"):
                    x0, x1 = src(a.args[0]), src(a.args[1])
                    cur = lambda x: bool(x) and all(y[0] == "call" and y[1].endswith("PathSelectionContext::current") for y in x)
                    npth = lambda x: x == {("agg", "core::option::Option::Some")} or (bool(x) and all(y[0] == "call" and y[1].endswith("network_path") for y in x))
                    if (cur(x0) and npth(x1)) or (cur(x1) and npth(x0)):
                        return v["is_current"] == a.name.endswith("::eq")
                for nm in slots:
                    st_ = v[nm]
                    if call_matches(a.term, r"^core::option::Option::is_none_or$"):
                        x = src(a.args[0])
                        if bool(x) and all(y[0] == "place" and y[1] == slots[nm] and tuple(y[2]) == () for y in x) and lt_closure(a.args[1], nm):
                            return st_ in ("empty", "lt")
                    if call_matches(a.term, r"^core::cmp::PartialOrd::(lt|ge)$") and is_key(a.args[0]) and slot_payload(a.args[1], nm):
                        return (st_ == "lt") == a.name.endswith("::lt")
                    if call_matches(a.term, r"^core::cmp::PartialOrd::(gt|le)$") and is_key(a.args[1]) and slot_payload(a.args[0], nm):
                        return (st_ == "lt") == a.name.endswith("::gt")
                    if call_matches(a.term, r"^core::option::Option::(is_none|is_some)$"):
                        x = src(a.args[0])
                        if bool(x) and all(y[0] == "place" and y[1] == slots[nm] and tuple(y[2]) == () for y in x):
                            return (st_ == "empty") == a.name.endswith("is_none")
                raise Unsupported("test %s at bb%d" % (a.name, a.bb))
            if a.kind == "switch":
                l = op_local(a.args[0])
                for st in f.blocks[a.bb]["s"]:
                    if st["k"] == "a" and st["lhs"]["l"] == l and st["rv"]["k"] == "discr":
                        pl = st["rv"]["p"]
                        x = {("place", pl["l"], ())} if pl["l"] in slotset and all(e[0] == "deref" for e in pl.get("p", [])) else copy_sources(f, pl["l"], stop=slotset)
                        for nm in slots:
                            if x and all(y[0] == "place" and y[1] == slots[nm] and tuple(y[2]) == () for y in x):
                                vals = [int(z) for z, _ in f.blocks[a.bb]["t"]["targets"]]
                                want = 0 if v[nm] == "empty" else 1
                                return want if want in vals else "otherwise"
                raise Unsupported("branch at bb%d" % a.bb)
            raise Unsupported("%s at bb%d" % (a.kind, a.bb))
        return value_of

    def first_wins_blocks(name):
        """`slot.get_or_insert(key)`: stores the new key only into an empty slot"""
        return {b for b, t in f.calls() if t["k"] == "call" and call_matches(t, r"^core::option::Option::get_or_insert$") and arg_ref_target(f, t["args"][0]) == slots[name] and is_key(t["args"][1])}

    for name in ("current_key", "best"):
        sl = slots[name]
        tg, badw = newkey_blocks(name)
        fw = first_wins_blocks(name)
        for b, t in f.calls():
            if t["k"] == "call" and call_matches(t, r"^core::option::Option::(get_or_insert_with|insert|replace|take|get_or_insert)$") and arg_ref_target(f, t["args"][0]) == sl and b not in fw:
                badw.append((b, [callee_names(t)[0]]))
        if not tg and fw:
            tg = set(fw)
        rep.ob("ranking", bool(tg) and not badw, site(f, min(tg) if tg else None), "`%s` is only ever overwritten with Some(this path's sort_key) (other sources: %s)" % (name, badw), skey(F, f, "stores-key-" + name))
        if not tg:
            continue
        try:
            paths = booltab.extract(f, target=tg, start=sk[0][1]["t"], stop=stopset)
            mcs = min_calls(name) or set()
            mpaths = booltab.extract(f, target=mcs, start=sk[0][1]["t"], stop=stopset) if mcs else None
            fpaths = booltab.extract(f, target=fw, start=sk[0][1]["t"], stop=stopset) if fw else None
            bad = []
            for is_current in (False, True):
                for cs in ("empty", "lt", "ge"):
                    for bs in ("empty", "lt", "ge"):
                        v = {"is_current": is_current, "current_key": cs, "best": bs}
                        got = booltab.evaluate(paths, slot_value_of(v))
                        if got and mpaths is not None and booltab.evaluate(mpaths, slot_value_of(v)):
                            got = v[name] == "lt"       # the store went through min(stored, new)
                        if got and fpaths is not None and booltab.evaluate(fpaths, slot_value_of(v)):
                            rest = tg - fw
                            if not (rest and booltab.evaluate(booltab.extract(f, target=rest, start=sk[0][1]["t"], stop=stopset), slot_value_of(v))):
                                got = v[name] == "empty"    # get_or_insert: the first value wins
                        mine = v[name]
                        want = (mine in ("empty", "lt")) and (is_current or name == "best")
                        if got != want:
                            bad.append("%s%s -> %s" % ("current path, " if is_current and name == "current_key" else "", {"empty": "slot empty", "lt": "new key < stored", "ge": "new key >= stored"}[mine], "overwritten" if got else "kept"))
            rep.ob("ranking", not bad, site(f, min(tg)), "`%s` is a running minimum: overwritten exactly when %sit is empty or the new key is smaller (so the lowest-RTT instance of a duplicated address counts); mismatches: %s" % (name, "the path is the current one and " if name == "current_key" else "", sorted(set(bad))), skey(F, f, "min-" + name))
        except Unsupported as e:
            rep.ob("ranking", False, site(f, min(tg)), "update logic of `%s` could not be extracted (unrecognised idiom, fails closed): %s" % (name, e), skey(F, f, "min-" + name))

    # ---- the final decision
    sets = [b for b, t in find_calls(f, regex=r"PathSelection::set$")]
    b_l, c_l = slots["best"], slots["current_key"]

    def fsrc(o):
        l = op_base(o)
        return copy_sources(f, l, stop=slotset) if l is not None else set()

    def is_place(x, sl, flds):
        return bool(x) and all(y[0] == "place" and y[1] == sl and tuple(y[2]) == flds for y in x)
    thresholds = []
    try:
        paths = booltab.extract(f, target=set(sets), start=none_c[0][0])
        bad = []
        for best_some in (False, True):
            for cur_some in (False, True):
                for tier_ne in (False, True):
                    for le in (False, True):
                        def value_of(a):
                            if a.kind == "switch":
                                l = op_local(a.args[0])
                                for st in f.blocks[a.bb]["s"]:
                                    if st["k"] == "a" and st["lhs"]["l"] == l and st["rv"]["k"] == "discr" and not st["rv"]["p"].get("p"):
                                        vals = [int(z) for z, _ in f.blocks[a.bb]["t"]["targets"]]
                                        if st["rv"]["p"]["l"] == b_l:
                                            w = 1 if best_some else 0
                                            return w if w in vals else "otherwise"
                                        if st["rv"]["p"]["l"] == c_l:
                                            w = 1 if cur_some else 0
                                            return w if w in vals else "otherwise"
                                raise Unsupported("branch at bb%d" % a.bb)
                            if a.kind == "call" and call_matches(a.term, r"^core::cmp::PartialEq::(eq|ne)$"):
                                x0, x1 = fsrc(a.args[0]), fsrc(a.args[1])
                                bt, ct = ("0", "1", "0"), ("0", "0")
                                if (is_place(x0, b_l, bt) and is_place(x1, c_l, ct)) or (is_place(x1, b_l, bt) and is_place(x0, c_l, ct)):
                                    return tier_ne == a.name.endswith("::ne")
                                raise Unsupported("equality test at bb%d is not between the two tiers" % a.bb)
                            if a.kind == "cmp":
                                x, y = a.args
                                op = a.name

                                def best_plus_min(o):
                                    l = op_base(o)
                                    if l is None:
                                        return False
                                    adds = [z for z in du.origin_facts(l, kinds=("bin",)) if z[4]["op"] in ("Add", "AddWithOverflow")]
                                    if len(adds) != 1:
                                        return False
                                    p, q = adds[0][4]["a"], adds[0][4]["b"]
                                    for u, w in ((p, q), (q, p)):
                                        if is_place(fsrc(u), b_l, ("0", "1", "1")):
                                            wl = op_base(w)
                                            cs = {z[4].get("def") for z in du.origin_facts(wl, kinds=("const",)) if z[4].get("def")} if wl is not None else set()
                                            calls = [ct for cb, ct in du.origin_calls(wl)] if wl is not None else []
                                            if cs == {M + "RTT_SWITCHING_MIN"} and len(calls) == 1 and call_matches(calls[0], r"Duration::as_nanos$"):
                                                return True
                                    return False
                                cur_b = lambda o: is_place(fsrc(o), c_l, ("0", "1"))

                                def is_min_gain(o):
                                    wl = op_base(o)
                                    if wl is None:
                                        return False
                                    cs = {z[4].get("def") for z in du.origin_facts(wl, kinds=("const",)) if z[4].get("def")}
                                    calls = [ct for cb, ct in du.origin_calls(wl)]
                                    bins = du.origin_facts(wl, kinds=("bin",))
                                    return cs == {M + "RTT_SWITCHING_MIN"} and len(calls) == 1 and call_matches(calls[0], r"Duration::as_nanos$") and not bins

                                def cur_minus_best(o):
                                    l = op_base(o)
                                    if l is None:
                                        return False
                                    subs = [z for z in du.origin_facts(l, kinds=("bin",)) if z[4]["op"] in ("Sub", "SubWithOverflow")]
                                    others = [z for z in du.origin_facts(l, kinds=("bin",)) if z[4]["op"] not in ("Sub", "SubWithOverflow")]
                                    return len(subs) == 1 and not others and cur_b(subs[0][4]["a"]) and is_place(fsrc(subs[0][4]["b"]), b_l, ("0", "1", "1"))
                                # `current_biased - best_biased >= RTT_SWITCHING_MIN` is the same test
                                if cur_minus_best(x) and is_min_gain(y) and op in ("Ge", "Lt"):
                                    thresholds.append(a.bb)
                                    return le == (op == "Ge")
                                if cur_minus_best(y) and is_min_gain(x) and op in ("Le", "Gt"):
                                    thresholds.append(a.bb)
                                    return le == (op == "Le")
                                if best_plus_min(x) and cur_b(y) and op in ("Le", "Gt"):
                                    thresholds.append(a.bb)
                                    return le == (op == "Le")
                                if best_plus_min(y) and cur_b(x) and op in ("Ge", "Lt"):
                                    thresholds.append(a.bb)
                                    return le == (op == "Ge")
                                raise Unsupported("comparison %s at bb%d is not `best_biased + RTT_SWITCHING_MIN <= current_biased`" % (op, a.bb))
                            raise Unsupported("%s %s at bb%d" % (a.kind, a.name, a.bb))
                        got = booltab.evaluate(paths, value_of)
                        want = best_some and ((not cur_some) or tier_ne or le)
                        if got != want:
                            bad.append("candidate=%s current_key=%s tiers_differ=%s best+5ms<=current=%s -> %s" % (best_some, cur_some, tier_ne, le, "switch" if got else "stay"))
        rep.ob("ranking", not bad, site(f, sets[0]), "the switching decision is: candidate exists and (no key for the current path, or another tier, or best_biased + RTT_SWITCHING_MIN <= current_biased); mismatches: %s" % bad[:4], skey(F, f, "decision"))
        rep.ob("ranking", bool(thresholds), site(f), "the same-tier threshold comparison was found and its operands are (best key's biased rtt + RTT_SWITCHING_MIN) vs (current key's biased rtt)", skey(F, f, "threshold-operands"))
    except Unsupported as e:
        rep.ob("ranking", False, site(f, sets[0]), "the switching decision could not be extracted (unrecognised idiom, fails closed): %s" % e, skey(F, f, "decision"))
    # ---- constants
    for cn, ms in (("RTT_SWITCHING_MIN", "5_u64"), ("IPV6_RTT_ADVANTAGE", "3_u64")):
        c = get_fn(F, rep, M + cn)
        cc = list(c.calls())
        ok = len(cc) == 1 and call_matches(cc[0][1], r"Duration::from_millis$") and cc[0][1]["dest"]["l"] == 0 and cc[0][1]["args"][0]["k"] == "const" and str(cc[0][1]["args"][0].get("v")).replace("const ", "") == ms
        rep.ob("ranking", ok, site(c), "%s = Duration::from_millis(%s)" % (cn, ms.split("_")[0]), skey(F, c, "value"))
    # ---- keys
    skf = get_fn(F, rep, M + "BiasedRttPathSelector::sort_key")
    rets = [(b, i, rv) for b, i, rv in returns_of(skf) if i is not None]
    ok = len(rets) == 1 and rets[0][2]["k"] == "agg" and rets[0][2]["ak"] == "tuple" and len(rets[0][2]["ops"]) == 2
    why = ""
    if ok:
        o0, o1 = rets[0][2]["ops"]
        s0 = copy_sources(skf, op_base(o0))
        s1 = copy_sources(skf, op_base(o1))
        sdu = defuse(skf)
        sat = [(b, t) for b, t in sdu.origin_calls(op_base(o1)) if call_matches(t, r"saturating_add$")]
        ok = s0 == {("call", M + "BiasedRttPathSelector::bias_for", ("transport_type",))} and len(sat) == 1 and all(x[0] == "call" and x[1].endswith("saturating_add") for x in s1)
        if ok:
            t = sat[0][1]
            a, b_ = t["args"]
            sa, sb_ = copy_sources(skf, op_base(a)), copy_sources(skf, op_base(b_))
            nan = lambda x: bool(x) and all(y[0] == "call" and y[1].endswith("Duration::as_nanos") for y in x)
            bias = lambda x: x == {("call", M + "BiasedRttPathSelector::bias_for", ("rtt_bias",))}
            ok = (nan(sa) and bias(sb_)) or (nan(sb_) and bias(sa))
            for cb, ct in sdu.origin_calls(op_base(o1)):
                if call_matches(ct, r"Duration::as_nanos$"):
                    ok = ok and copy_sources(skf, op_base(ct["args"][0])) == {("arg", 3, ())}
        why = "%s / %s" % (sorted(map(str, s0)), sorted(map(str, s1)))
    rep.ob("ranking", ok, site(skf), "sort_key = (bias.transport_type, rtt.as_nanos() saturating_add bias.rtt_bias) of bias_for(addr): %s" % why, skey(F, skf, "key-shape"))
    tt = F.adt(M + "TransportType")
    order = [(v["name"], int(v["discr"])) for v in tt["variants"]]
    der = {i["trait_path"] for i in F.impls_of(adt=M + "TransportType") if i.get("derived")}
    rep.ob("ranking", order == [("Primary", 0), ("Backup", 1)] and "core::cmp::PartialOrd" in der and "core::cmp::Ord" in der, M + "TransportType", "tiers are ordered Primary < Backup by the derived ordering (%s)" % order, "TransportType|order")
    # ---- default table
    df = F.find(r"^<iroh::socket::biased_rtt_path_selector::BiasedRttPathSelector as core::default::Default>::default$")
    if len(df) == 1:
        g = rep.fn(df[0])
        gdu = defuse(g)
        table = {}
        for b, t in find_calls(g, regex=r"HashMap::insert$"):
            k = {x[1].rsplit("::", 1)[-1] for x in copy_sources(g, op_base(t["args"][1])) if x[0] == "agg"}
            vl = op_base(t["args"][2])
            ctor = sorted({callee_names(ct)[0].rsplit("::", 1)[-1] for cb, ct in gdu.origin_calls(vl) if call_matches(ct, r"TransportBias::")})
            consts = sorted({str(z[4].get("def")).rsplit("::", 1)[-1] for z in gdu.origin_facts(vl, kinds=("const",)) if z[4].get("def")})
            for kk in k:
                table[kk] = (ctor, consts)
        want = {"IpV4": (["primary"], []), "IpV6": (["primary", "with_rtt_advantage"], ["IPV6_RTT_ADVANTAGE"]), "Relay": (["backup"], [])}
        rep.ob("ranking", table == want, site(g), "default bias table: %s" % table, skey(F, g, "bias-table"))
    else:
        rep.missing("ranking", "Default for BiasedRttPathSelector")
    for nm, var in (("primary", "Primary"), ("backup", "Backup")):
        c = get_fn(F, rep, M + "TransportBias::" + nm)
        vs = {rv["variant"] for b, i, rv in aggregates_in(c, c.reachable(0), M + "TransportType")}
        rep.ob("ranking", vs == {var}, site(c), "TransportBias::%s() is tier %s" % (nm, var), skey(F, c, "tier"))
    adv = get_fn(F, rep, M + "TransportBias::with_rtt_advantage")
    subs = [st for b, i, st in adv.stmts() if st["k"] == "a" and st["rv"]["k"] == "bin" and st["rv"]["op"] in ("Sub", "SubWithOverflow")]
    adds = [st for b, i, st in adv.stmts() if st["k"] == "a" and st["rv"]["k"] == "bin" and st["rv"]["op"] in ("Add", "AddWithOverflow")]
    rep.ob("ranking", len(subs) == 1 and not adds, site(adv), "an RTT advantage lowers the bias (one subtraction, no addition)", skey(F, adv, "advantage-subtracts"))


def operand_or_agg_variant(f, s):
    rv = s["rv"]
    if rv["k"] == "agg" and rv["ak"] == "adt":
        return rv["variant"]
    if rv["k"] == "use" and rv["o"]["k"] in ("copy", "move"):
        src = copy_sources(f, op_base(rv["o"]))
        vs = {x[1].rsplit("::", 1)[-1] for x in src if x[0] == "agg"}
        if len(vs) == 1:
            return next(iter(vs))
    return None
