"""C13 Captive-portal probe echoes only well-formed challenges."""
from ..lib import *
from .. import booltab
from ..booltab import Unsupported

H = "iroh_relay::server::serve_no_content_handler"
CHALLENGE_HDR = "iroh_relay::server::NO_CONTENT_CHALLENGE_HEADER"
RESPONSE_HDR = "iroh_relay::server::NO_CONTENT_RESPONSE_HEADER"

# character classes as code-point ranges (what the std predicates are documented to accept)
CLASS = {
    "is_ascii_lowercase": [(0x61, 0x7a)],
    "is_ascii_uppercase": [(0x41, 0x5a)],
    "is_ascii_digit": [(0x30, 0x39)],
    "is_ascii_alphabetic": [(0x41, 0x5a), (0x61, 0x7a)],
    "is_ascii_alphanumeric": [(0x30, 0x39), (0x41, 0x5a), (0x61, 0x7a)],
    "is_ascii": [(0, 0x7f)],
}
ALLOWED = [(0x30, 0x39), (0x41, 0x5a), (0x61, 0x7a), (0x2e, 0x2e), (0x2d, 0x2d), (0x5f, 0x5f)]
MAXLEN = 100            # lengths 0..MAXLEN are enumerated; every length constant must be below


def _char_const(o):
    if o["k"] != "const":
        return None
    v = str(o.get("v"))
    m = re.match(r"^(?:const )?'(\\?.|\\u\{[0-9a-f]+\}|\\x[0-9a-f]{2})'$", v)
    if m:
        c = m.group(1)
        if c.startswith("\\u{"):
            return int(c[3:-1], 16)
        if c.startswith("\\x"):
            return int(c[2:], 16)
        if c.startswith("\\") and len(c) == 2:
            return {"n": 10, "t": 9, "r": 13, "0": 0, "\\": 92, "'": 39}.get(c[1])
        return ord(c)
    m = re.match(r"^(?:const )?(\d+)_(u8|u32)$", v)
    if m:
        return int(m.group(1))
    return None


def _int_const(o):
    if o["k"] != "const":
        return None
    m = re.match(r"^(?:const )?(\d+)_usize$", str(o.get("v")))
    return int(m.group(1)) if m else None


_OPS = {"Eq": lambda a, b: a == b, "Ne": lambda a, b: a != b, "Lt": lambda a, b: a < b,
        "Le": lambda a, b: a <= b, "Gt": lambda a, b: a > b, "Ge": lambda a, b: a >= b}


class Frame:
    """Names the atoms of one function.  `is_subject(operand)` says whether an operand is
    the value under test (the challenge header value / the character)."""

    def __init__(self, F, rep, f, subject_args):
        self.F, self.rep, self.f = F, rep, f
        self.subject_args = subject_args
        self.problems = []

    def sources(self, o):
        l = op_base(o)
        return copy_sources(self.f, l, F=self.F) if l is not None else set()


# ------------------------------------------------------------------------------------------
# character predicate: evaluated exactly on a finite partition of the code points
# ------------------------------------------------------------------------------------------

def char_cells(consts):
    """Representatives of the maximal code-point intervals not crossing any boundary."""
    cuts = {0, 0x100}
    for ranges in list(CLASS.values()) + [ALLOWED]:
        for lo, hi in ranges:
            cuts.add(lo)
            cuts.add(hi + 1)
    for c in consts:
        cuts.add(c)
        cuts.add(c + 1)
    cuts = sorted(x for x in cuts if 0 <= x <= 0x100)
    return [(cuts[i], cuts[i + 1] - 1) for i in range(len(cuts) - 1)]


def char_pred_value(F, rep, g, subject_ok, cp, depth=0):
    """Value of the bool function `g` (a predicate over one character) for code point cp."""
    paths = booltab.extract(g)

    def value_of(a):
        if a.kind == "call":
            nm = a.name.rsplit("::", 1)[-1]
            callee = a.term.get("resolved") or a.term["callee"]
            if nm in CLASS and subject_ok(g, a.args[0]):
                return any(lo <= cp <= hi for lo, hi in CLASS[nm])
            # a workspace helper over the same character
            try:
                h = F.fn(norm(callee))
            except KeyError:
                h = None
            if h is not None and str(h.locals[0]) == "bool" and depth < 3 and subject_ok(g, a.args[-1]):
                return char_pred_value(F, rep, h, lambda hf, o: _is_param(hf, o), cp, depth + 1)
            raise Unsupported("character test %s is not in the rule's table" % a.name)
        if a.kind == "cmp":
            x, y = a.args
            cx, cy = _char_const(x), _char_const(y)
            if cy is not None and subject_ok(g, x):
                return _OPS[a.name](cp, cy)
            if cx is not None and subject_ok(g, y):
                return _OPS[a.name](cx, cp)
            raise Unsupported("comparison %s at bb%d does not relate the character to a constant" % (a.name, a.bb))
        if a.kind == "switch":
            if not subject_ok(g, a.args[0]):
                raise Unsupported("multi-way branch at bb%d on something other than the character" % a.bb)
            vals = [int(v) for v, _ in g.blocks[a.bb]["t"]["targets"]]
            return cp if cp in vals else "otherwise"
        raise Unsupported(a.kind)
    return booltab.evaluate(paths, value_of)


def _is_param(f, o, cast_ok=True):
    l = op_base(o)
    if l is None:
        return False
    s = copy_sources(f, l)
    return bool(s) and all(x[0] == "arg" and x[2] == () for x in s)


def _char_subject(f, o):
    """the operand is the predicate's parameter, possibly through `as char` / `as u32`"""
    l = op_base(o)
    if l is None:
        return False
    seen = set()
    work = [l]
    while work:
        cur = work.pop()
        if cur in seen:
            continue
        seen.add(cur)
        if 1 <= cur <= f.argc:
            continue
        defs = [s["rv"] for b, i, s in f.stmts() if s["k"] == "a" and s["lhs"]["l"] == cur and not s["lhs"].get("p")]
        conv = [t for b, t in f.calls() if t["dest"]["l"] == cur and not t["dest"].get("p")]
        if conv:
            # u8 -> char conversions are the identity on code points 0..=255
            if all(call_matches(t, r"^core::convert::(From::from|Into::into)$|^core::char::(methods::)?from$|char::from_u32_unchecked$") and len(t["args"]) == 1 and str(f.locals[cur]) == "char" for t in conv) and not defs:
                for t in conv:
                    l2 = op_base(t["args"][0])
                    if l2 is None:
                        return False
                    work.append(l2)
                continue
            return False
        if not defs:
            return False
        for rv in defs:
            if rv["k"] in ("use", "cast") and rv["o"]["k"] in ("copy", "move") and all(e[0] == "deref" for e in rv["o"]["p"].get("p", [])):
                work.append(rv["o"]["p"]["l"])
            elif rv["k"] == "ref" and not rv["p"].get("p"):
                work.append(rv["p"]["l"])
            elif rv["k"] == "discr":
                return False
            else:
                return False
    return any(1 <= x <= f.argc for x in seen)


def consts_in(F, g, depth=0):
    out = set()
    for b, i, s in g.stmts():
        if s["k"] == "a" and s["rv"]["k"] == "bin":
            for o in (s["rv"]["a"], s["rv"]["b"]):
                c = _char_const(o)
                if c is not None:
                    out.add(c)
    for b in g.reachable(0):
        t = g.blocks[b]["t"]
        if t["k"] == "switch":
            for v, _ in t["targets"]:
                out.add(int(v))
    if depth < 3:
        for b, t in g.calls():
            try:
                h = F.fn(norm(t.get("resolved") or t["callee"]))
            except KeyError:
                continue
            if str(h.locals[0]) == "bool":
                out |= consts_in(F, h, depth + 1)
    return {c for c in out if 0 <= c <= 0x10ffff}


# ------------------------------------------------------------------------------------------

def check(F, rep):
    rep.clause("the response header is added exactly when the challenge header is present, its length is 1..=63 and every byte satisfies the character predicate; the character predicate accepts exactly [0-9A-Za-z._-] (decided by evaluating the extracted decision tree on every cell of the code-point partition induced by its constants and class boundaries, and on every length 0..100 - independent of the idiom used); the echoed value is `response ` + the same header value; every non-error path answers 204 NO_CONTENT")
    rep.undecided("that `HeaderValue::to_str()` cannot fail for a challenge that passed the character test (http crate semantics: visible ASCII), that std's is_ascii_* / http's len()/is_empty()/as_bytes() compute what they are documented to; the literal header names")
    f = get_fn(F, rep, H)
    du = defuse(f)
    hdr = [(b, t) for b, t in find_calls(f, regex=r"^http::response::Builder::header$") if any(a["k"] == "const" and a.get("def") == RESPONSE_HDR for a in t["args"])]
    rep.exact("echo", "response-header insertions", len(hdr), 1)
    allhdr = find_calls(f, regex=r"^http::response::Builder::header$")
    rep.ob("echo", len(allhdr) == len(hdr), site(f), "no other header is added by the captive-portal handler", skey(F, f, "only-response-header"))
    gets = [(b, t) for b, t in find_calls(f, regex=r"^http::header::map::HeaderMap::get$") if any(a["k"] == "const" and a.get("def") == CHALLENGE_HDR for a in t["args"])]
    rep.exact("echo", "lookups of the challenge header", len(gets), 1)
    if not (hdr and gets):
        return
    hb, ht = hdr[0]
    gb, gt = gets[0]
    get_dest = gt["dest"]["l"]

    def is_challenge(fr, o):
        """operand is (a reference to) the header value returned by get(CHALLENGE)"""
        if fr is f:
            l = op_base(o)
            if l is None:
                return False
            s = copy_sources(f, l)
            if s == {("agg", "tuple")}:
                # the argument tuple of a closure call: look at its single operand
                for b, i, st in f.stmts():
                    if st["k"] == "a" and st["lhs"]["l"] == l and st["rv"]["k"] == "agg" and len(st["rv"]["ops"]) == 1:
                        return is_challenge(fr, st["rv"]["ops"][0])
                return False
            return bool(s) and all(x[0] == "call" and x[1].endswith("HeaderMap::get") and x[2] == ("0",) for x in s)
        return _is_param(fr, o)

    problems = []
    char_consts = set()

    loop_cache = {}

    def loops_of(fr):
        """all-quantifier loops over the challenge's bytes in a helper"""
        if id(fr) in loop_cache:
            return loop_cache[id(fr)]
        rdu = defuse(fr)

        def iter_ok(t):
            l = op_base(t["args"][0])
            if not rdu.derives_from_call(l, regex=r"HeaderValue::as_bytes$|HeaderValue::as_ref$"):
                return False
            return all(is_challenge(fr, ct["args"][0]) for cb, ct in rdu.origin_calls(l) if call_matches(ct, r"HeaderValue::as_bytes$|HeaderValue::as_ref$"))

        def pred_ok(a):
            return a.kind == "call" and a.term is not None
        res = booltab.all_loop(fr, iter_ok, pred_ok) if fr is not f else {}
        loop_cache[id(fr)] = res
        return res

    def handler_value(fr, length, present, allchars, to_str_ok, target=None, depth=0):
        la = loops_of(fr) if target is None else {}
        paths = booltab.extract(fr, target=target, loop_atoms=la or None)

        def value_of(a):
            if a.kind == "switch":
                # Option<&HeaderValue> from get(): 1 = Some;  Try::branch of to_str: 0 = Continue
                l = op_local(a.args[0])
                src = None
                for st in fr.blocks[a.bb]["s"]:
                    if st["k"] == "a" and st["lhs"]["l"] == l and st["rv"]["k"] == "discr":
                        src = st["rv"]["p"]
                if src is None:
                    raise Unsupported("multi-way branch at bb%d" % a.bb)
                s = copy_sources(fr, src["l"])
                vals = [int(v) for v, _ in fr.blocks[a.bb]["t"]["targets"]]
                if fr is f and src["l"] == get_dest and not src.get("p"):
                    want = 1 if present else 0
                    return want if want in vals else "otherwise"
                if s and all(x[0] == "call" and x[1].endswith("HeaderValue::to_str") for x in s):
                    want = 0 if to_str_ok else 1
                    return want if want in vals else "otherwise"
                raise Unsupported("branch at bb%d on %s" % (a.bb, sorted(map(str, s))))
            if a.kind == "call" and a.name == "loop-all":
                # the summarised loop: its element predicate is the character predicate
                pa = a.args[0]
                callee = pa.term.get("resolved") or pa.term["callee"]
                try:
                    pred = F.fn(norm(callee))
                except KeyError:
                    raise Unsupported("element predicate %s of the loop at bb%d is not a workspace function" % (callee, a.bb))
                rep.fn(pred)
                # the argument must be the loop's element (possibly `*b as char`)
                cs = consts_in(F, pred)
                char_consts.update(cs)
                bad = []
                for lo, hi in char_cells(cs):
                    got = char_pred_value(F, rep, pred, _char_subject, lo)
                    want = any(x <= lo <= y for x, y in ALLOWED)
                    if got != want:
                        bad.append("U+%04X..U+%04X %s" % (lo, hi, "accepted" if got else "rejected"))
                if bad and ("chars", tuple(bad)) not in problems:
                    problems.append(("chars", tuple(bad)))
                return allchars
            if a.kind == "call":
                nm = a.name
                if re.search(r"HeaderValue::is_empty$", nm) and is_challenge(fr, a.args[0]):
                    return length == 0
                if re.search(r"Iterator::all$", nm):
                    # receiver: bytes of the challenge; predicate: the character predicate
                    rdu = defuse(fr)
                    recv = op_base(a.args[0])
                    ok_recv = rdu.derives_from_call(recv, regex=r"HeaderValue::as_bytes$|HeaderValue::as_ref$")
                    for cb, ct in rdu.origin_calls(recv):
                        if call_matches(ct, r"HeaderValue::as_bytes$|HeaderValue::as_ref$") and not is_challenge(fr, ct["args"][0]):
                            ok_recv = False
                    if not ok_recv:
                        raise Unsupported("all() at bb%d does not iterate the challenge's bytes" % a.bb)
                    pred = _closure_of(F, fr, a.args[1])
                    if pred is None:
                        raise Unsupported("predicate of all() at bb%d not found" % a.bb)
                    rep.fn(pred)
                    cs = consts_in(F, pred)
                    char_consts.update(cs)
                    bad = []
                    for lo, hi in char_cells(cs):
                        got = char_pred_value(F, rep, pred, _char_subject, lo)
                        want = any(x <= lo <= y for x, y in ALLOWED)
                        if got != want:
                            bad.append("U+%04X..U+%04X %s" % (lo, hi, "accepted" if got else "rejected"))
                    if bad and ("chars", tuple(bad)) not in problems:
                        problems.append(("chars", tuple(bad)))
                    return allchars
                callee = a.term.get("resolved") or a.term["callee"]
                try:
                    h = F.fn(norm(callee))
                except KeyError:
                    h = None
                if h is not None and str(h.locals[0]) == "bool" and depth < 3 and is_challenge(fr, a.args[-1]):
                    rep.fn(h)
                    return handler_value(h, length, present, allchars, to_str_ok, None, depth + 1)
                raise Unsupported("test %s at bb%d is not in the rule's table" % (nm, a.bb))
            if a.kind == "cmp":
                x, y = a.args
                for p, q, flip in ((x, y, False), (y, x, True)):
                    k = _int_const(q)
                    if k is None:
                        continue
                    l = op_base(p)
                    if l is None:
                        continue
                    s = copy_sources(fr, l)
                    if s and all(z[0] == "call" and z[1].endswith("HeaderValue::len") for z in s):
                        okr = True
                        for cb, ct in defuse(fr).origin_calls(l):
                            if call_matches(ct, r"HeaderValue::len$") and not is_challenge(fr, ct["args"][0]):
                                okr = False
                        if okr:
                            if k >= MAXLEN:
                                raise Unsupported("length bound %d beyond the enumerated lengths" % k)
                            return _OPS[a.name](k, length) if flip else _OPS[a.name](length, k)
                raise Unsupported("comparison %s at bb%d is not `len(challenge) <op> const`" % (a.name, a.bb))
            raise Unsupported(a.kind)
        return booltab.evaluate(paths, value_of)

    # ---- (1) header added <=> present && 1 <= len <= 63 && all chars ok (&& to_str ok)
    try:
        bad = []
        n = 0
        for present in (False, True):
            for length in range(0, MAXLEN + 1):
                for allchars in (False, True):
                    for to_str_ok in (False, True):
                        got = handler_value(f, length, present, allchars, to_str_ok, target=hb)
                        want = present and 1 <= length <= 63 and allchars and to_str_ok
                        n += 1
                        if got != want:
                            bad.append("present=%s len=%d chars_ok=%s -> header %s" % (present, length, allchars, "added" if got else "not added"))
        rep.ob("echo", not bad, site(f, hb), "the response header is added exactly when the challenge is present, 1..=63 bytes long and all its bytes pass the character test (%d valuations); mismatches: %s" % (n, bad[:4]), skey(F, f, "echo-iff-wellformed"))
        cb = [p for p in problems if p[0] == "chars"]
        rep.ob("echo", not cb, site(f, hb), "the character test accepts exactly [0-9A-Za-z._-] on every cell of the code-point partition (constants seen: %s); mismatches: %s" % (sorted(chr(c) for c in char_consts if 32 <= c < 127), [x for p in cb for x in p[1]][:6]), skey(F, f, "charset"))
        rep.ob("echo", bool(char_consts) or True, site(f), "character predicate analysed", skey(F, f, "charset-analysed"))
    except Unsupported as e:
        rep.ob("echo", False, site(f, hb), "the decision logic could not be extracted (unrecognised idiom - the rule fails closed): %s" % e, skey(F, f, "echo-iff-wellformed"))
    # ---- (2) echoed value
    val = op_base(ht["args"][2])
    fm = [(b, t) for b, t in du.origin_calls(val) if call_matches(t, r"^alloc::fmt::format$")]
    ok = len(fm) == 1
    why = "value is not a format!() result"
    if ok:
        lits = [str(x[4].get("v")) for x in du.origin_facts(val, kinds=("const",)) if "response" in str(x[4].get("v"))]
        ts = [(b, t) for b, t in du.origin_calls(val) if call_matches(t, r"HeaderValue::to_str$")]
        nd = [(b, t) for b, t in du.origin_calls(val) if call_matches(t, r"Argument::new_")]
        ok = bool(lits) and len(ts) == 1 and len(nd) == 1 and is_challenge(f, ts[0][1]["args"][0]) and any(re.search(r'"(\\t)?response (\\x[0-9a-f]{2})*"$', l) or "response {}" in l for l in lits)
        why = "format pieces %s, %d to_str(challenge), %d arguments" % (lits, len(ts), len(nd))
    rep.ob("echo", ok, site(f, hb), "the echoed value is `response ` followed by the challenge itself: %s" % why, skey(F, f, "echo-value"))
    # ---- (3) status 204 on every non-error path
    st = find_calls(f, regex=r"^http::response::Builder::status$")
    rep.exact("status", "status() calls", len(st), 1)
    if st:
        sb, stt = st[0]
        rep.ob("status", any(a["k"] == "const" and str(a.get("def")).endswith("StatusCode::NO_CONTENT") for a in stt["args"]), site(f, sb), "the status is NO_CONTENT (204)", skey(F, f, "status-204"))
        try:
            bad = []
            for present in (False, True):
                for length in (0, 1, 63, 64):
                    for allchars in (False, True):
                        for to_str_ok in (False, True):
                            got = handler_value(f, length, present, allchars, to_str_ok, target=sb)
                            want = not (present and 1 <= length <= 63 and allchars and not to_str_ok)
                            if got != want:
                                bad.append((present, length, allchars, to_str_ok))
            rep.ob("status", not bad, site(f, sb), "every path except the to_str error path sets the 204 status: %s" % bad[:3], skey(F, f, "status-all-paths"))
        except Unsupported as e:
            rep.ob("status", False, site(f, sb), "could not extract: %s" % e, skey(F, f, "status-all-paths"))
        # the builder carrying the header is the one that is answered
        body = find_calls(f, regex=r"^http::response::Builder::body$")
        rep.ob("status", len(body) == 1 and f.dominates(sb, body[0][0]), site(f, sb), "the response is built after the status was set", skey(F, f, "body-after-status"))


def _closure_of(F, fr, o):
    """the closure / fn item passed as operand `o`"""
    l = op_base(o)
    if l is None:
        if o["k"] == "const" and (o.get("fn") or o.get("def")):
            try:
                return F.fn(norm(o.get("fn") or o.get("def")))
            except KeyError:
                return None
        return None
    ty = str(fr.locals[l])
    m = re.search(r"closure@[^:]+:(\d+):(\d+)", ty)
    if m:
        for c in F.tree(fr):
            if c is not fr and c.kind == "Closure" and c.line == int(m.group(1)) and c.path.startswith(fr.path):
                # nearest nesting level
                if c.path.count("{closure") == fr.path.count("{closure") + 1:
                    return c
    m = re.search(r"fn\(.*\) -> bool \{([^}]+)\}", ty)
    if m:
        try:
            return F.fn(norm(m.group(1)))
        except KeyError:
            return None
    return None
