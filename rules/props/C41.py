"""C41 Router shutdown returns only after handlers and endpoint are shut down."""
from ..lib import *
from ..lockset import guards

R = "iroh::protocol::Router"
RB = "iroh::protocol::RouterBuilder"
JOIN_POLL = r"^<tokio_util::task::abort_on_drop::AbortOnDropHandle as core::future::future::Future>::poll$|^<tokio::runtime::task::join::JoinHandle as core::future::future::Future>::poll$"


def check(F, rep):
    rep.clause("request-flag-as-completion: every Ok return of Router::shutdown that does not itself wait for the run task (join) must be selected by state that other callers can only observe *after* the join completed - not by the cancellation flag this function sets before its own join, nor by an emptied task slot that became visible before the join")
    rep.clause("run-loop epilogue: protocols.shutdown().await precedes endpoint.close().await on every path from the loop exit to the end of the task; the cancel drop-guard is declared first (dropped last)")
    rep.undecided("that ProtocolHandler::shutdown implementations terminate")
    f = body_of(F, rep, R + "::shutdown")
    du = defuse(f)
    # the join: a poll of the task handle
    import re as _re
    joins = []
    for b, t in find_calls(f, "core::future::future::Future::poll"):
        st = t.get("self_ty") or ""
        if _re.match(r"^(&mut )?(tokio_util::task::abort_on_drop::AbortOnDropHandle|tokio::runtime::task::join::JoinHandle)<", st):
            joins.append((b, t))
    rep.exact("join", "polls of the run task's JoinHandle in shutdown", len(joins), 1)
    if not joins:
        return
    jb, jt = joins[0]
    jtests, _ = value_tests(f, [jt["dest"]["l"]], family="poll")
    ready_edges = {e for t in jtests if t.level == 0 for e in t.success}
    oks = [(b, i, rv) for b, i, rv in returns_of(f) if i is not None and rv["k"] == "agg" and rv.get("variant") == "Ok"]
    rep.floor("join", "Ok returns of shutdown", len(oks), 1)
    join_free = [b for b, i, rv in oks if b in f.reachable(0, removed_edges=ready_edges)]
    rep.note("Ok returns: %d, of which %d are reachable without completing the join" % (len(oks), len(join_free)))
    gs = guards(f)
    task_guards = [g for g in gs if any(len(d) == 3 and d[2][-1:] == ("task",) for d in g.lock)]
    cancels = find_calls(f, regex=r"CancellationToken::cancel$")

    def after_join(b):
        return b not in f.reachable(0, removed_edges=ready_edges)

    n = 0
    ok_blocks = {b for b, i, rv in oks}
    selecting = []
    for sb in sorted(f.reachable(0, removed_edges=ready_edges)):
        if f.blocks[sb]["t"]["k"] != "switch":
            continue
        succ = set(f.succs()[sb])
        free = [tg for tg in succ if (sb, tg) not in ready_edges and ok_blocks & f.reachable(tg, removed_edges=ready_edges, removed_blocks={jb})]
        joining = [tg for tg in succ if jb in f.reachable(tg)]
        if free and joining and set(free) != set(joining):
            selecting.append(sb)
    for _rb in [0]:
        for sb in selecting:
            l = op_local(f.blocks[sb]["t"]["d"])
            if l is None:
                continue
            calls = du.origin_calls(l)
            is_flag = any(is_call_to(t, R + "::is_shutdown") or call_matches(t, r"CancellationToken::is_cancelled$") for _, t in calls)
            is_slot = any(x for x in du.field_reads(l) if x[1] == "task") or any(call_matches(t, r"Option::(take|as_mut|as_ref|is_none|is_some)$") and any(fld == "task" for _, fld in du.field_reads(op_base(t["args"][0]))) for _, t in calls)
            if is_flag:
                n += 1
                late = all(after_join(cb) for cb, _ in cancels)
                rep.ob("request-flag-as-completion", late and bool(cancels) or not cancels, site(f, sb),
                       "an Ok return is selected by the cancellation flag (is_shutdown / is_cancelled)%s"
                       % ("; the flag is only raised after the join" if late else ", which this very function raises *before* waiting for the run task: a second caller (any clone) sees the flag set by the first and returns Ok while handlers are still shutting down and the endpoint is not closed"),
                       "Router::shutdown|early-ok-on-cancel-flag")
            elif is_slot:
                n += 1
                # writes that empty the slot
                empt = [(cb, t) for cb, t in f.calls() if call_matches(t, r"Option::take$") and any(fld == "task" for _, fld in du.field_reads(op_base(t["args"][0])))]
                empt_blocks = [cb for cb, t in empt] + [b for b, i, s in f.stmts() if s["k"] == "a" and s["rv"]["k"] == "use" and operand_sources(f, s["rv"]["o"], follow=True) == {("agg", "core::option::Option::None")} and any(g_ for g_ in task_guards if b in g_.held_blocks())]
                ok = True
                for eb in empt_blocks:
                    if after_join(eb):
                        continue
                    # emptied before the join: only fine if a guard on the slot hides it until the join is done
                    hidden = any(eb in g.held_blocks() and jb in g.held_blocks() for g in task_guards)
                    if not hidden:
                        ok = False
                rep.ob("request-flag-as-completion", ok, site(f, sb),
                       "an Ok return is selected by the task slot being empty%s"
                       % ("; the slot only becomes (visibly) empty once the join completed" if ok else ", but the slot is emptied (take) and its guard released *before* the join: a concurrent caller finds None and returns Ok while the first caller is still waiting for the run task"),
                       "Router::shutdown|early-ok-on-empty-slot")
    rep.floor("request-flag-as-completion", "conditions selecting join-free Ok returns", n, 1)
    # the join waits on the handle stored in self.task
    hsrc = copy_sources(f, op_base(jt["args"][0]))
    rep.ob("join", any("task" in x[2] for x in hsrc if len(x) == 3) or any(fld == "task" for _, fld in du.field_reads(op_base(jt["args"][0]))), site(f, jb), "the awaited handle is the one stored in self.task", skey(F, f, "join-own-task"))

    # ---- run-loop epilogue
    sp = get_fn(F, rep, RB + "::spawn")
    loops = [g for g in F.tree(sp) if g.coroutine and find_calls(g, regex=r"ProtocolMap::shutdown$")]
    rep.exact("epilogue", "run-loop coroutine (calls ProtocolMap::shutdown)", len(loops), 1)
    if loops:
        g = rep.fn(loops[0])
        ps = find_calls(g, regex=r"ProtocolMap::shutdown$")
        ec = find_calls(g, "iroh::endpoint::Endpoint::close")
        rep.exact("epilogue", "endpoint.close() in the run loop task", len(ec), 1)
        if ps and ec:
            po = await_output(g, ps[0][1]["dest"]["l"])
            done_blocks = [b for b, i, s in g.stmts() if s["k"] == "a" and s["lhs"]["l"] in po]
            rep.ob("must_precede", bool(done_blocks) and all(g.dominates(b, ec[0][0]) for b in done_blocks), site(g, ec[0][0]), "endpoint.close() starts only after protocols.shutdown().await completed", skey(F, g, "shutdown-before-close"))
            # both on every path to the end of the task
            eo = await_output(g, ec[0][1]["dest"]["l"])
            close_done = [b for b, i, s in g.stmts() if s["k"] == "a" and s["lhs"]["l"] in eo]
            exits = g.exits()
            byp = [x for x in exits if x in g.reachable(0, removed_blocks=set(close_done))]
            rep.ob("must_follow", bool(close_done) and not byp, site(g, ec[0][0]), "no normal exit of the run task bypasses the completed endpoint.close()", skey(F, g, "close-on-all-exits"))
            byp2 = [x for x in exits if x in g.reachable(0, removed_blocks=set(done_blocks))]
            rep.ob("must_follow", bool(done_blocks) and not byp2, site(g, ps[0][0]), "no normal exit of the run task bypasses the completed protocols.shutdown()", skey(F, g, "shutdown-on-all-exits"))
        dg = find_calls(g, regex=r"CancellationToken::drop_guard$")
        first_calls = [b for b, t in nontracing_calls(g)]
        rep.ob("epilogue", len(dg) == 1 and all(g.dominates(dg[0][0], b) for b, t in ps + ec), site(g), "the cancel drop-guard is created before anything else (dropped last: the token flips when the task has finished)", skey(F, g, "drop-guard-first"))
