"""C22 Address resolution for a connect is answered exactly once and correctly."""
from ..lib import *

PS = "iroh::socket::remote_map::remote_state::path_state::RemotePathState"
ST = "iroh::socket::remote_map::remote_state::State"
SEND = r"oneshot::Sender::send$"


def consumed_on_all_paths(f, local, consumer_blocks):
    """No normal exit is reachable once the consumer blocks are removed (the by-value
    resource is handed to a consumer on every path)."""
    exits = f.exits()
    return not [x for x in exits if x in f.reachable(0, removed_blocks=set(consumer_blocks))]


def moves_of(f, local):
    """Calls that take `local` (or a plain move-copy of it) by value: [(bb, term, argidx)]."""
    holders = {local}
    for _ in range(4):
        for b, i, s in f.stmts():
            if s["k"] == "a" and s["rv"]["k"] == "use" and s["rv"]["o"]["k"] == "move" and not s["rv"]["o"]["p"].get("p") and s["rv"]["o"]["p"]["l"] in holders and not s["lhs"].get("p"):
                holders.add(s["lhs"]["l"])
    out = []
    for b, t in f.calls():
        for ai, a in enumerate(t["args"]):
            if a["k"] == "move" and not a["p"].get("p") and a["p"]["l"] in holders:
                out.append((b, t, ai))
    return out


def check(F, rep):
    rep.clause("linearity of the reply channel: in State::handle_msg_resolve_remote and RemotePathState::resolve_remote the oneshot sender is, on every path, either used for an immediate reply or queued; every queued sender is drained and replied to in emit_pending_resolve_requests (move semantics give at-most-once)")
    rep.clause("both terminal arms of the lookup stream (end, error) call address_lookup_finished on every path of the arm (must-pass-through on the helper-inlined CFG), so queued requests cannot stay unanswered when the lookup ends without a path")
    rep.clause("correctness of the reply: the immediate Ok is sent exactly when the path set is non-empty (and the request queued exactly when it is empty - the invariant insert_multiple's wake-up relies on); a failure is only ever produced in emit_pending_resolve_requests under paths.is_empty(); it is called from insert_open_path, insert_multiple (only on the empty->non-empty transition) and address_lookup_finished (only from the two terminal lookup arms)")
    rep.clause("paths are only removed by prune_non_relay_paths")
    rep.undecided("`never loses all paths` (pruning arithmetic, C23) and lookup liveness")
    rr = get_fn(F, rep, PS + "::resolve_remote")
    mv = moves_of(rr, 2)
    sends = [(b, t, ai) for b, t, ai in mv if call_matches(t, SEND) and ai == 0]
    pushes = [(b, t, ai) for b, t, ai in mv if call_matches(t, r"VecDeque::push_back$") and ai == 1 and recv_field(rr, t["args"][0]) == "pending_resolve_requests"]
    rep.exact("linear", "immediate replies in resolve_remote", len(sends), 1)
    rep.exact("linear", "queueings in resolve_remote", len(pushes), 1)
    others = [(b, t, ai) for b, t, ai in mv if (b, t, ai) not in sends + pushes]
    rep.ob("linear", not others, site(rr), "the sender is moved only into send(..) or the pending queue (other consumers: %s)" % [callee_names(t)[0] for b, t, ai in others], skey(F, rr, "consumers"))
    if sends and pushes:
        rep.ob("linear", consumed_on_all_paths(rr, 2, [sends[0][0], pushes[0][0]]), site(rr), "on every path the request is answered now or queued (never dropped)", skey(F, rr, "all-paths-consume"))
        ts, ie = emptiness_tests(rr, "paths")
        ctrl = {s for s, _ in controlling_switches(rr, sends[0][0])} | {s for s, _ in controlling_switches(rr, pushes[0][0])}
        rep.ob("reply", bool(ts) and requires_failure(rr, sends[0][0], ts) and requires(rr, pushes[0][0], ts), site(rr, ie[0] if ie else pushes[0][0]),
               "immediate Ok iff the path set is non-empty; queued iff it is empty (emptiness tests of `paths` found: %d) - a request queued while a path is known is not woken by insert_multiple, which only acts on the empty -> non-empty transition" % len(ie), skey(F, rr, "immediate-iff-nonempty"))
        rep.ob("reply", bool(ts) and ctrl == {t.bb for t in ts}, site(rr, ie[0] if ie else pushes[0][0]), "nothing but that emptiness test decides between answering and queueing (controlling switches: %s)" % sorted(ctrl), skey(F, rr, "only-emptiness-decides"))
        val = operand_sources(rr, sends[0][1]["args"][1], follow=True)
        rep.ob("reply", val == {("agg", "core::result::Result::Ok")}, site(rr, sends[0][0]), "the immediate reply is Ok(())", skey(F, rr, "immediate-ok"))
    # handle_msg_resolve_remote
    hm = get_fn(F, rep, ST + "::handle_msg_resolve_remote")
    mv2 = moves_of(hm, 3)
    fw = [(b, t, ai) for b, t, ai in mv2 if is_call_to(t, PS + "::resolve_remote")]
    rep.ob("linear", len(fw) == 1 and len(mv2) == 1 and hm.postdominates(fw[0][0], 0), site(hm), "the message's reply sender is handed to paths.resolve_remote on every path", skey(F, hm, "forwarded"))
    im = find_calls(hm, PS + "::insert_multiple")
    rep.ob("reply", len(im) == 1 and fw and hm.dominates(im[0][0], fw[0][0]), site(hm), "the addresses carried by the request are inserted before it is answered", skey(F, hm, "insert-before-resolve"))
    # emit
    em = get_fn(F, rep, PS + "::emit_pending_resolve_requests")
    edu = defuse(em)
    dr = [(b, t) for b, t in em.calls() if call_matches(t, r"VecDeque::drain$") and recv_field(em, t["args"][0]) == "pending_resolve_requests"]
    pf = [(b, t) for b, t in em.calls() if call_matches(t, r"VecDeque::(pop_front|pop_back)$") and recv_field(em, t["args"][0]) == "pending_resolve_requests"]
    rep.exact("linear", "drain of the pending queue (drain(..) loop or pop loop)", len(dr) + len(pf), 1)
    es = [(b, t) for b, t in em.calls() if call_matches(t, SEND)]
    rep.exact("linear", "replies in emit_pending_resolve_requests", len(es), 1)
    if (dr or pf) and es:
        if dr:
            nx = [(b, t) for b, t in find_calls(em, "core::iter::traits::iterator::Iterator::next") if dr[0][1]["dest"]["l"] in edu.closure(op_base(t["args"][0]))]
            rep.exact("linear", "drain iterator next()", len(nx), 1)
            item_src = "Iterator::next"
        else:
            # `while let Some(tx) = queue.pop_front()`: the pop is the loop's element source and
            # the loop only ends when it returns None (the queue is empty)
            nx = pf
            item_src = callee_names(pf[0][1])[0].rsplit("::", 1)[-1]
        if nx:
            nt, _ = call_result_tests(em, nx[0][0])
            s_ = copy_sources(em, op_base(es[0][1]["args"][0]))
            rep.ob("linear", bool(s_) and all(x[0] == "call" and x[1].endswith(item_src) for x in s_) and requires(em, es[0][0], nt), site(em, es[0][0]), "every drained sender is replied to", skey(F, em, "drained-replied"))
            some_t = {tg for t in nt for _, tg in t.success}
            rep.ob("linear", all(nx[0][0] not in em.reachable(tg, removed_blocks={es[0][0]}) for tg in some_t) and bool(some_t), site(em, es[0][0]), "no drained sender skips the reply", skey(F, em, "no-skip"))
            if pf:
                none_t = {tg for t in nt for _, tg in t.failure if em.blocks[tg]["t"]["k"] != "unreachable"}
                rep.ob("linear", all(nx[0][0] in em.reachable(tg) for tg in some_t) and all(nx[0][0] not in em.reachable(tg) for tg in none_t), site(em, nx[0][0]), "the pop loop runs until the queue is empty", skey(F, em, "pop-until-empty"))
        ie = [(b, t) for b, t in em.calls() if call_matches(t, r"HashMap::is_empty$") and recv_field(em, t["args"][0]) == "paths"]
        rep.exact("reply", "paths.is_empty() in emit", len(ie), 1)
        if ie:
            errs = [(b, i, rv) for b, i, rv in aggregates_in(em, em.reachable(0), "core::result::Result") if rv["variant"] == "Err"]
            oks = [(b, i, rv) for b, i, rv in aggregates_in(em, em.reachable(0), "core::result::Result") if rv["variant"] == "Ok"]
            # the match is on a tuple (is_empty, err): tests on tuple field 0
            tup = [s for b, i, s in em.stmts() if s["k"] == "a" and s["rv"]["k"] == "agg" and s["rv"]["ak"] == "tuple" and any(op_local(o) == ie[0][1]["dest"]["l"] for o in s["rv"]["ops"])]
            ts = []
            if tup:
                tl = tup[0]["lhs"]["l"]
                for b in sorted(em.reachable(0)):
                    t = em.blocks[b]["t"]
                    if t["k"] == "switch" and t["d"]["k"] in ("copy", "move") and t["d"]["p"]["l"] == tl and [e[1] for e in t["d"]["p"].get("p", []) if e[0] == "f"] == [0]:
                        su, fa = switch_edges(em, b, 1)
                        ts.append(Test(b, su, fa, 0, "bool", False, None))
            else:
                ts, _ = call_result_tests(em, ie[0][0], family="bool")
            rep.ob("reply", bool(ts) and bool(errs) and all(requires(em, b, ts) for b, i, rv in errs), site(em, ie[0][0]), "a failure reply is built only when the path set is empty (%d Err sites)" % len(errs), skey(F, em, "err-requires-empty"))
            rep.ob("reply", bool(ts) and bool(oks) and all(requires_failure(em, b, ts) for b, i, rv in oks), site(em, ie[0][0]), "Ok is sent only when a path is known", skey(F, em, "ok-requires-nonempty"))
    # who touches the queue
    acc = [x for x in field_accesses(F, PS, "pending_resolve_requests", crates=["iroh"]) if x[3] == "refmut"]
    for f, b, i, kind, s in acc:
        for cb, ct, ai in ref_consumers(f, s["lhs"]["l"]):
            if ai == 0:
                n = callee_names(ct)[0].rsplit("::", 1)[-1]
                ok = (f is rr and n == "push_back") or (f is em and n in ("drain", "pop_front", "pop_back"))
                rep.ob("who_writes", ok, site(f, cb), "pending_resolve_requests.%s in %s" % (n, source_fn(F, f)), skey(F, f, "queue-" + n))
    # who calls emit
    cs = call_sites(F, PS + "::emit_pending_resolve_requests", crates=["iroh"])
    allowed = {PS + "::insert_open_path", PS + "::insert_multiple", PS + "::address_lookup_finished"}
    rep.floor("who_calls", "callers of emit_pending_resolve_requests", len(cs), 3)
    for f, b, t, kind in cs:
        rep.fn(f)
        rep.ob("who_calls", source_fn(F, f) in allowed, site(f, b), "emit_pending_resolve_requests called from %s" % source_fn(F, f), skey(F, f, "emit-caller"))
        if f.npath == PS + "::insert_multiple":
            ies = [(cb, ct) for cb, ct in f.calls() if call_matches(ct, r"HashMap::is_empty$") and recv_field(f, ct["args"][0]) == "paths"]
            nxs = find_calls(f, "core::iter::traits::iterator::Iterator::next")
            before = [(cb, ct) for cb, ct in ies if nxs and f.dominates(cb, nxs[0][0])]
            after = [(cb, ct) for cb, ct in ies if (cb, ct) not in before]
            ok = len(before) == 1 and len(after) == 1
            if ok:
                tb = value_tests(f, [before[0][1]["dest"]["l"]], family="bool")[0]
                ta, _ = call_result_tests(f, after[0][0], family="bool")
                ok = requires(f, b, tb) and requires_failure(f, b, ta)
            rep.ob("reply", ok, site(f, b), "insert_multiple wakes queued requests only on the empty -> non-empty transition (was_empty && !is_empty)", skey(F, f, "transition-only"))
            em_arg = operand_sources(f, t["args"][1], follow=True)
            rep.ob("reply", em_arg == {("agg", "core::option::Option::None")}, site(f, b), "without a lookup error", skey(F, f, "no-error"))
    cs2 = call_sites(F, PS + "::address_lookup_finished", crates=["iroh"])
    hi0 = get_fn(F, rep, ST + "::handle_address_lookup_item")
    from ..inline import inlined
    hi = inlined(F, hi0)
    for f, b, t, kind in cs2:
        rep.fn(f)
        ok = source_fn(F, f) == ST + "::handle_address_lookup_item"
        if not ok and f.vis != "pub" and f.file == hi0.file:
            # a private helper of handle_address_lookup_item (every call of it comes from there)
            hc = call_sites(F, f.npath, crates=["iroh"])
            ok = bool(hc) and all(source_fn(F, g) == ST + "::handle_address_lookup_item" for g, _, _, _ in hc)
        rep.ob("who_calls", ok, site(f, b), "address_lookup_finished called from %s" % source_fn(F, f), skey(F, f, "finished-caller"))
    hdu = defuse(hi)
    fin = find_calls(hi, PS + "::address_lookup_finished")
    rep.floor("who_calls", "address_lookup_finished calls in handle_address_lookup_item (helpers inlined)", len(fin), 2)
    insm = find_calls(hi, PS + "::insert_multiple")
    if fin and insm:
        rep.ob("reply", all(insm[0][0] not in hi.reachable(b) and b not in hi.reachable(insm[0][0]) for b, t in fin), site(hi), "the lookup is declared finished only on the terminal arms (stream end / stream error), never on an item", skey(F, hi, "finished-terminal"))
    # every terminal arm declares the lookup finished on all of its paths (otherwise queued
    # requests stay unanswered when the stream ends without having produced a path)
    arms = {}
    for b in sorted(hi.reachable(0)):
        t = hi.blocks[b]["t"]
        if t["k"] != "switch" or op_local(t["d"]) is None:
            continue
        for st in hi.blocks[b]["s"]:
            if st["k"] == "a" and st["lhs"]["l"] == op_local(t["d"]) and st["rv"]["k"] == "discr":
                pl = st["rv"]["p"]
                flds = tuple(e[2] if e[2] else str(e[1]) for e in pl.get("p", []) if e[0] == "f")
                srcs = {((x[0], x[1], tuple(x[2]) + flds) if len(x) == 3 else x) for x in copy_sources(hi, pl["l"])} if pl["l"] != 2 else {("arg", 2, flds)}
                ty = str(hi.locals[pl["l"]]) if not pl.get("p") else None
                for v, tg in t["targets"]:
                    if srcs == {("arg", 2, ())} and int(v) == 0:
                        arms.setdefault("stream end (None)", set()).add(tg)
                    if srcs == {("arg", 2, ("0",))} and int(v) == 1:
                        arms.setdefault("stream error (Some(Err))", set()).add(tg)
    rep.exact("reply", "terminal arms found in handle_address_lookup_item (stream end, stream error)", len(arms), 2)
    rets = {b for b in hi.reachable(0) if hi.blocks[b]["t"]["k"] == "return"}
    finb = {b for b, t in fin}
    for name, entries in sorted(arms.items()):
        leak = [e for e in entries if rets & hi.reachable(e, removed_blocks=finb)]
        rep.ob("reply", not leak, site(hi, min(entries)), "on %s every path calls address_lookup_finished (no condition can skip answering the queued requests)" % name, skey(F, hi0, "terminal-always-finishes:" + name.split(" (")[0].replace(" ", "-")))
    # removals from paths
    rem = []
    for f in F.all_fns(crates=["iroh"], callee_regex=r"HashMap::(remove|retain|clear|drain|remove_entry|extract_if)$"):
        for b, t in f.calls():
            if call_matches(t, r"HashMap::(remove|retain|clear|drain|remove_entry|extract_if)$"):
                a0 = t["args"][0]
                if "transports::Addr" in f.locals[op_base(a0)] and "PathState" in f.locals[op_base(a0)]:
                    rem.append((f, b, t))
    rep.floor("who_writes", "removals from a path map", len(rem), 1)
    for f, b, t in rem:
        rep.fn(f)
        rep.ob("who_writes", source_fn(F, f).endswith("path_state::prune_non_relay_paths"), site(f, b), "paths.%s in %s" % (callee_names(t)[0].rsplit("::", 1)[-1], source_fn(F, f)), skey(F, f, "paths-removal"))
