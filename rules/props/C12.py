"""C12 Relay auth token extraction follows its documented order."""
from ..lib import *

FN = "iroh_relay::server::ClientRequest::auth_token"


def check(F, rep):
    rep.clause("source order on all paths: Authorization headers are scanned first and in order; a non-ASCII header value aborts with None without falling back to the query; the first `Bearer` match returns from inside the loop; the query parameter is consulted only after the header iterator is exhausted")
    rep.undecided("case-insensitive scheme comparison and form-decoding of the query (string semantics)")
    f = get_fn(F, rep, FN)
    du = defuse(f)
    ga = find_calls(f, regex=r"^http::header::map::HeaderMap::get_all$")
    rep.exact("order", "HeaderMap::get_all calls", len(ga), 1)
    if ga:
        cs = {x[4].get("def") for x in du.origin_facts(ga[0][1]["dest"]["l"], kinds=("const",)) if x[4].get("def")}
        rep.ob("order", any(str(c).endswith("::AUTHORIZATION") for c in cs), site(f, ga[0][0]), "the scanned header is AUTHORIZATION", skey(F, f, "header-name"))
    nx = [(b, t) for b, t in find_calls(f, "core::iter::traits::iterator::Iterator::next") if ga and ga[0][1]["dest"]["l"] in du.closure(op_base(t["args"][0]))]
    rep.exact("order", "header iterator next() calls", len(nx), 1)
    qp = find_calls(f, "iroh_relay::server::ClientRequest::query_pairs")
    rep.exact("order", "query_pairs calls", len(qp), 1)
    ts = find_calls(f, regex=r"HeaderValue::to_str$")
    rep.exact("order", "HeaderValue::to_str calls", len(ts), 1)
    if not ts:
        # iterator-chain form: the conversion sits in a closure; its `?` leaves only the
        # closure, so what happens next is the combinator's business
        SKIP = r"Iterator::(filter_map|find_map|flat_map|filter|flatten|any|position)$"
        for g in F.tree(f):
            if g is f:
                continue
            for cb, ct in find_calls(g, regex=r"HeaderValue::to_str$"):
                rep.fn(g)
                users = [(b, t) for b, t in f.calls() if any(("closure@" in str(f.locals[op_base(a)]) and ":%d:" % g.line in str(f.locals[op_base(a)])) for a in t["args"] if op_base(a) is not None)]
                comb = [callee_names(t)[0] for b, t in users]
                skipping = [c for c in comb if re.search(SKIP, c)]
                rep.ob("order", not skipping and False, site(g, cb),
                       "HeaderValue::to_str is evaluated inside a closure handed to %s: a non-ASCII header value only ends that closure call%s instead of ending the extraction with None" % (comb or "an iterator adapter", " and the adapter skips the element and goes on to later headers / the query" if skipping else " (adapter semantics not in the rule's table)"),
                       skey(F, f, "non-ascii-aborts"))
    if not (nx and qp and ts):
        return
    nb, nt = nx[0]
    qb = qp[0][0]
    ntests, _ = call_result_tests(f, nb)
    # (iii) the query is reachable only from iterator exhaustion
    rep.ob("order", requires_failure(f, qb, ntests), site(f, qb), "query_pairs() is reached only through the None edge of the header iterator (all headers seen first)", skey(F, f, "query-after-exhaustion"))
    # (i) to_str error edge: returns None without reaching the query or the loop head
    ttests, _ = call_result_tests(f, ts[0][0])
    fail_targets = {tg for t in ttests for _, tg in t.failure}
    reach = set()
    for tg in fail_targets:
        reach |= f.reachable(tg)
    rep.ob("order", bool(fail_targets) and qb not in reach and nb not in reach, site(f, ts[0][0]),
           "a header value that is not visible ASCII ends the extraction (no fallback to the query, no further headers)", skey(F, f, "non-ascii-aborts"))
    rets = [(b, i, rv) for b, i, rv in returns_of(f) if b in reach]
    def is_none(i, rv):
        if i is None:
            return is_call_to(rv, "core::ops::try_trait::FromResidual::from_residual")
        return (rv["k"] == "agg" and rv.get("variant") == "None") or (rv["k"] == "use" and rv["o"]["k"] == "const" and "None" in str(rv["o"].get("v")))
    rep.ob("order", bool(rets) and all(is_none(i, rv) for b, i, rv in rets), site(f, ts[0][0]),
           "that path returns None (`?` residual or an explicit None)", skey(F, f, "non-ascii-none"))
    # (ii) first match wins: Some(token) returned inside the loop, guarded by scheme match
    somes = [(b, i, rv) for b, i, rv in returns_of(f) if i is not None and rv["k"] == "agg" and rv.get("variant") == "Some"]
    rep.exact("order", "`Some(token)` returns", len(somes), 1)
    eq = find_calls(f, regex=r"eq_ignore_ascii_case$")
    so = find_calls(f, regex=r"split_once$")
    rep.exact("order", "scheme comparisons", len(eq), 1)
    rep.exact("order", "split_once calls", len(so), 1)
    if somes and eq and so:
        b, i, rv = somes[0]
        et, _ = call_result_tests(f, eq[0][0], family="bool")
        st, _ = call_result_tests(f, so[0][0])
        rep.ob("order", requires(f, b, et) and requires(f, b, st) and requires(f, b, ntests), site(f, b), "Some(token) requires a header, a `scheme token` split and the scheme match", skey(F, f, "some-guard"))
        rep.ob("order", nb not in f.reachable(b) and qb not in f.reachable(b), site(f, b), "the first match returns immediately (no further header, no query)", skey(F, f, "first-match-returns"))
        lits = {str(x[4].get("v")) for x in du.origin_facts(op_base(eq[0][1]["args"][1]), kinds=("const",))} | {str(x[4].get("v")) for x in du.origin_facts(op_base(eq[0][1]["args"][0]), kinds=("const",))}
        rep.ob("order", any("Bearer" in l for l in lits), site(f, eq[0][0]), "scheme literal is `Bearer`", skey(F, f, "scheme"))
        # token = second half, scheme = first half of the split
        tok = copy_sources(f, op_base(rv["ops"][0]))
        tokd = du.closure(op_base(rv["ops"][0]))
        sch = copy_sources(f, op_base(eq[0][1]["args"][0]))
        okt = any(x[0] == "call" and x[1].endswith("split_once") and x[2][-1:] == ("1",) for x in copy_sources(f, op_base(find_calls(f, "alloc::string::ToString::to_string")[0][1]["args"][0]))) if find_calls(f, "alloc::string::ToString::to_string") else False
        oks = any(x[0] == "call" and x[1].endswith("split_once") and x[2][-1:] == ("0",) for x in sch)
        rep.ob("order", okt and oks, site(f, b), "scheme is the part before the first space, token the part after it", skey(F, f, "split-halves"))
        # non-matching header continues the loop
        ftargets = {tg for t in et for _, tg in t.failure} | {tg for t in st for _, tg in t.failure}
        rep.ob("order", all(nb in f.reachable(tg) for tg in ftargets) and bool(ftargets), site(f, eq[0][0]), "a non-Bearer header moves on to the next header", skey(F, f, "mismatch-continues"))
    # query: find by the auth-token parameter name
    fi = find_calls(f, "core::iter::traits::iterator::Iterator::find")
    rep.exact("order", "query find() calls", len(fi), 1)
    names = set()
    for g in F.tree(f):
        if g is f:
            continue
        for b, t in g.calls():
            for a in t["args"]:
                if a["k"] == "const" and a.get("def"):
                    names.add(a["def"])
        gdu = defuse(g)
        for l in range(len(g.locals)):
            for o in gdu.origins[l]:
                if o[0] == "const" and o[3].get("def"):
                    names.add(o[3]["def"])
    rep.ob("order", any(str(n).endswith("AUTH_TOKEN_URL_QUERY_PARAM") for n in names), site(f), "the query parameter looked up is AUTH_TOKEN_URL_QUERY_PARAM", skey(F, f, "query-name"))
