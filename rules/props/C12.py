"""C12 Relay auth token extraction follows its documented order."""
from ..lib import *
from .. import booltab
from ..booltab import Unsupported
from ..inline import inlined

FN = "iroh_relay::server::ClientRequest::auth_token"


def check(F, rep):
    rep.clause("the Authorization headers are scanned first and in order: per header, the outcome is a function of three tests only - to_str() fails => return None (no later header, no query); else `scheme token` split succeeds and scheme equals `Bearer` ignoring case => return Some(that token); otherwise => next header (decided as the outcome function of one loop iteration, independent of the idiom); the query parameter AUTH_TOKEN_URL_QUERY_PARAM is consulted only after the header iterator is exhausted")
    rep.undecided("case-insensitive comparison and form-decoding themselves (string semantics); which of several `token` query parameters wins")
    f0 = get_fn(F, rep, FN)
    f = inlined(F, f0)
    du = defuse(f)
    ga = find_calls(f, regex=r"^http::header::map::HeaderMap::get_all$")
    rep.exact("order", "HeaderMap::get_all calls", len(ga), 1)
    if not ga:
        return
    cs = {x[4].get("def") for x in du.origin_facts(ga[0][1]["dest"]["l"], kinds=("const",)) if x[4].get("def")} | {a.get("def") for a in ga[0][1]["args"] if a["k"] == "const"}
    rep.ob("order", any(str(c).endswith("::AUTHORIZATION") for c in cs), site(f, ga[0][0]), "the scanned header is AUTHORIZATION", skey(F, f0, "header-name"))
    nx = [(b, t) for b, t in find_calls(f, "core::iter::traits::iterator::Iterator::next") if ga[0][1]["dest"]["l"] in du.closure(op_base(t["args"][0]))]
    qp = find_calls(f, "iroh_relay::server::ClientRequest::query_pairs")
    rep.exact("order", "query_pairs calls", len(qp), 1)
    if len(nx) != 1:
        # iterator-chain form: the per-header logic sits in closures handed to adapters
        for g in F.tree(f0):
            if g is f0:
                continue
            for cb, ct in find_calls(g, regex=r"HeaderValue::to_str$"):
                rep.fn(g)
                users = [callee_names(t)[0] for b, t in f.calls() if any(op_base(a) is not None and "closure@" in str(f.locals[op_base(a)]) and ":%d:" % g.line in str(f.locals[op_base(a)]) for a in t["args"])]
                skipping = [c for c in users if re.search(r"Iterator::(filter_map|find_map|flat_map|filter|flatten|any|position)$", c)]
                rep.ob("order", False, site(g, cb),
                       "HeaderValue::to_str is evaluated inside a closure handed to %s: a non-ASCII header value only ends that closure call%s instead of ending the extraction with None" % (users or "an iterator adapter", " and the adapter skips the element and goes on to later headers / the query" if skipping else " (adapter semantics not in the rule's table)"),
                       skey(F, f0, "non-ascii-aborts"))
        rep.exact("order", "explicit loop over the Authorization headers (header iterator next() calls)", len(nx), 1)
        return
    nb, nt = nx[0]
    ntests, _ = call_result_tests(f, nb)
    some_t = [tg for t in ntests for _, tg in t.success]
    none_t = [tg for t in ntests for _, tg in t.failure if f.blocks[tg]["t"]["k"] != "unreachable"]
    if qp:
        rep.ob("order", requires_failure(f, qp[0][0], ntests), site(f, qp[0][0]), "query_pairs() is reached only through the None edge of the header iterator (all headers seen first)", skey(F, f0, "query-after-exhaustion"))
    # ---- one iteration as an outcome function
    ts_calls = find_calls(f, regex=r"HeaderValue::to_str$")
    so_calls = find_calls(f, regex=r"split_once$")
    eq_calls = find_calls(f, regex=r"eq_ignore_ascii_case$")
    rep.exact("order", "HeaderValue::to_str calls", len(ts_calls), 1)
    rep.exact("order", "split_once calls", len(so_calls), 1)
    rep.exact("order", "scheme comparisons (eq_ignore_ascii_case)", len(eq_calls), 1)
    if not (ts_calls and so_calls and eq_calls and some_t):
        return
    tsb, tst = ts_calls[0]
    sob, sot = so_calls[0]
    eqb, eqt = eq_calls[0]
    hv = copy_sources(f, op_base(tst["args"][0]))
    rep.ob("order", bool(hv) and all(x[0] == "call" and x[1].endswith("Iterator::next") for x in hv), site(f, tsb), "to_str() is applied to the current header value", skey(F, f0, "to_str-operand"))
    sv = copy_sources(f, op_base(sot["args"][0]))
    rep.ob("order", bool(sv) and all(x[0] == "call" and x[1].endswith("HeaderValue::to_str") for x in sv), site(f, sob), "the text that is split is that header's to_str() result: %s" % sorted(map(str, sv)), skey(F, f0, "split-operand"))
    sep = [a for a in sot["args"][1:] if a["k"] == "const"]
    rep.ob("order", any("' '" in str(a.get("v")) for a in sep), site(f, sob), "scheme and token are separated at the first space", skey(F, f0, "separator"))
    lits = {str(x[4].get("v")) for a in eqt["args"] if op_base(a) is not None for x in du.origin_facts(op_base(a), kinds=("const",))} | {str(a.get("v")) for a in eqt["args"] if a["k"] == "const"}
    oks = any(x[0] == "call" and x[1].endswith("split_once") and x[2][-1:] == ("0",) for a in eqt["args"] if op_base(a) is not None for x in copy_sources(f, op_base(a)))
    rep.ob("order", oks and any("Bearer" in l for l in lits), site(f, eqb), "the part before the space is compared with the literal `Bearer`", skey(F, f0, "scheme"))
    some_rets, none_rets = set(), set()
    for b, i, rv in returns_of(f):
        if i is None:
            if is_call_to(rv, "core::ops::try_trait::FromResidual::from_residual"):
                none_rets.add(b)
            continue
        if rv["k"] == "agg" and rv.get("variant") == "Some":
            some_rets.add(b)
        elif (rv["k"] == "agg" and rv.get("variant") == "None") or (rv["k"] == "use" and rv["o"]["k"] == "const" and "None" in str(rv["o"].get("v"))):
            none_rets.add(b)
    targets = {b: "some" for b in some_rets}
    targets.update({b: "none" for b in none_rets})

    def tag_of(pl_local):
        """which tested value a discriminant belongs to"""
        x = copy_sources(f, pl_local)
        names = {y[1] for y in x if y[0] == "call"}
        if names and all(n.endswith("HeaderValue::to_str") for n in names):
            return "to_str"
        if names and all(n.endswith("split_once") for n in names):
            return "split"
        return None
    try:
        paths = booltab.extract_outcomes(f, some_t[0], stop={nb}, targets=targets)
        bad = []
        for to_str_ok in (False, True):
            for split_some in (False, True):
                for scheme in (False, True):
                    def value_of(a):
                        if a.kind == "switch":
                            l = op_local(a.args[0])
                            for st in f.blocks[a.bb]["s"]:
                                if st["k"] == "a" and st["lhs"]["l"] == l and st["rv"]["k"] == "discr":
                                    pl = st["rv"]["p"]["l"]
                                    vals = [int(z) for z, _ in f.blocks[a.bb]["t"]["targets"]]
                                    pick = lambda w: w if w in vals else "otherwise"
                                    tg = tag_of(pl)
                                    ty = str(f.locals[pl]).lstrip("&")
                                    ok = to_str_ok if tg == "to_str" else (split_some if tg == "split" else None)
                                    if ok is None:
                                        break
                                    if "ControlFlow" in ty:
                                        return pick(0 if ok else 1)
                                    if ty.startswith("core::option::Option"):
                                        return pick(1 if ok else 0)
                                    return pick(0 if ok else 1)      # Result: Ok = 0
                            raise Unsupported("branch at bb%d" % a.bb)
                        if a.kind == "call":
                            if call_matches(a.term, r"eq_ignore_ascii_case$"):
                                return scheme
                            if call_matches(a.term, r"Result::(is_ok|is_err)$") and tag_of(op_base(a.args[0])) == "to_str":
                                return to_str_ok == a.name.endswith("is_ok")
                            if call_matches(a.term, r"Option::(is_some|is_none)$") and tag_of(op_base(a.args[0])) in ("to_str", "split"):
                                v = to_str_ok if tag_of(op_base(a.args[0])) == "to_str" else split_some
                                return v == a.name.endswith("is_some")
                            raise Unsupported("test %s at bb%d" % (a.name, a.bb))
                        raise Unsupported("%s at bb%d" % (a.kind, a.bb))
                    got = booltab.outcome(paths, value_of)
                    want = "none" if not to_str_ok else ("some" if (split_some and scheme) else "stop")
                    if got != want:
                        say = {"none": "return None", "some": "return Some(token)", "stop": "next header", "return": "return"}
                        bad.append("to_str %s, split %s, scheme %s -> %s (must be %s)" % ("ok" if to_str_ok else "fails", "ok" if split_some else "none", "Bearer" if scheme else "other", say[got], say[want]))
        rep.ob("order", not bad, site(f, some_t[0]), "per header: non-text value => return None at once; `Bearer <token>` => return Some(token) at once; anything else => next header. Mismatches: %s" % sorted(set(bad))[:4], skey(F, f0, "iteration-outcomes"))
    except Unsupported as e:
        rep.ob("order", False, site(f, some_t[0]), "the per-header logic could not be extracted (unrecognised idiom, fails closed): %s" % e, skey(F, f0, "iteration-outcomes"))
    # the token returned from inside the loop is the part after the space
    inloop = [b for b in sorted(some_rets) if b in f.reachable(some_t[0], removed_blocks={nb} | set(none_t))]
    rep.floor("order", "`Some(token)` returns inside the header loop", len(inloop), 1)
    for b in inloop:
        rv = [rv for bb, i, rv in returns_of(f) if bb == b and i is not None][0]
        tok = set()
        l0 = op_base(rv["ops"][0])
        dc = def_call(f, l0) if l0 is not None else None
        if dc is not None and call_matches(dc[1], r"ToString::to_string$|ToOwned::to_owned$|String::from$|Into::into$|From::from$|str::.*to_owned$|to_string$"):
            tok = copy_sources(f, op_base(dc[1]["args"][0]))
        else:
            tok = copy_sources(f, l0) if l0 is not None else set()
        # sources that can only be a None (the `?` residual of a helper) carry no token
        tok = {x for x in tok if not (x[0] == "call" and x[1].endswith("from_residual"))}
        okt = bool(tok) and all(x[0] == "call" and x[1].endswith("split_once") and x[2][-1:] == ("1",) for x in tok)
        rep.ob("order", okt, site(f, b), "the token returned is the part after the first space: %s" % sorted(map(str, tok)), skey(F, f0, "token-half"))
    # ---- query fallback names the auth-token parameter
    names = set()
    for g in tree_with_helpers(F, f0):
        gdu = defuse(g)
        for b, t in g.calls():
            for a in t["args"]:
                if a["k"] == "const" and a.get("def"):
                    names.add(a["def"])
        for b, i, s in g.stmts():
            if s["k"] == "a":
                for o in ([s["rv"].get("o")] if s["rv"].get("o") else []) + [s["rv"].get("a"), s["rv"].get("b")] + list(s["rv"].get("ops", [])):
                    if isinstance(o, dict) and o.get("k") == "const" and o.get("def"):
                        names.add(o["def"])
    rep.ob("order", any(str(n).endswith("AUTH_TOKEN_URL_QUERY_PARAM") for n in names), site(f0), "the query parameter looked up is AUTH_TOKEN_URL_QUERY_PARAM", skey(F, f0, "query-name"))
