"""C05 No client can get another client disconnected from the relay."""
from ..lib import *
from ..analysis import reachable_fs

S = "iroh_relay::server::"
ACT = S + "client::Actor::"
SENDERR = S + "streams::SendError"
R2C = "iroh_relay::protos::relay::RelayToClientMsg"


def check(F, rep):
    rep.clause("the per-connection actor has no exit that is selected by the *content* of a packet forwarded from another client: every error variant built under a test of the forwarded message is absorbed (dropped) before it can end the run loop")
    rep.clause("non-packet messages queued for a client are built by the server only (EndpointGone/Status/Health)")
    rep.clause("a full queue only drops the packet; a closed queue only shuts down the already dead destination connection; a forwarding error never terminates the sender's frame handler")
    rep.undecided("I/O and timer failures of the destination's own socket legitimately end its actor")

    ri = body_of(F, rep, ACT + "run_inner")
    sels = selects(ri)
    rep.floor("select", "select! dispatches in Actor::run_inner", len(sels), 1)
    if not sels:
        return
    sel = sels[0]
    # the arm that forwards other clients' packets: the one whose body calls Actor::send_packet
    parms = [a for a in sel.arms if any(is_call_to(t, ACT + "send_packet") for b, t in calls_in(ri, sel.region(a)))]
    rep.exact("select", "arms forwarding packets of other clients (calling Actor::send_packet)", len(parms), 1)
    if not parms:
        return
    region = sel.region(parms[0])
    # the handler of the packet arm and whether its failure is fatal for the loop
    calls = [(b, t) for b, t in ri.calls() if b in region and any(n.startswith(S) for n in callee_names(t))]
    handlers = [(b, t) for b, t in calls if is_call_to(t, ACT + "send_packet")]
    rep.exact("select", "Actor::send_packet calls in the packet arm", len(handlers), 1)
    fatal_exits = [b for b, i, rv in returns_of(ri) if b in region and not (i is not None and rv["k"] == "agg" and rv.get("variant") == "Ok")]
    rep.note("packet arm: %d blocks, %d fatal exits (error returns) inside the arm" % (len(region), len(fatal_exits)))

    # ---- chain of hops from the arm handler to the sink
    chain = [ACT + "send_packet", ACT + "send_raw", ACT + "write_frame"]
    from ..inline import inlined
    # predicate / matching helpers may have been extracted: analyse the inlined views
    hops = [inlined(F, body_of(F, rep, n), keep=set(chain)) for n in chain]
    # each hop calls the next
    rep.ob("call_chain", bool(find_calls(hops[0], ACT + "send_raw")), site(hops[0]), "send_packet -> send_raw", skey(F, hops[0], "chain"))
    rep.ob("call_chain", bool(find_calls(hops[1], ACT + "write_frame")), site(hops[1]), "send_raw -> write_frame", skey(F, hops[1], "chain"))
    sends = find_calls(hops[2], "futures_util::sink::SinkExt::send")
    rep.exact("call_chain", "SinkExt::send calls in write_frame", len(sends), 1)
    sink_fns = []
    if sends:
        st = sends[0][1]
        self_ty = st.get("self_ty") or ""
        item = (st.get("substs") or ["", ""])[1]
        rep.ob("combinator_summary", "iroh_relay::server::streams::RelayedStream<" in self_ty and item == R2C, site(hops[2], sends[0][0]),
               "write_frame sends a RelayToClientMsg into RelayedStream (Self=%s, Item=%s): SinkExt::send => Sink::{poll_ready,start_send,poll_flush}" % (self_ty, item),
               skey(F, hops[2], "sink-type"))
        for m in ("poll_ready", "start_send", "poll_flush"):
            cands = [g for g in F.find(r"^<iroh_relay::server::streams::RelayedStream as futures_sink::Sink>::%s$" % m)
                     if "futures_sink::Sink<%s>" % R2C in g.path]
            rep.exact("combinator_summary", "impl Sink<RelayToClientMsg> for RelayedStream::%s" % m, len(cands), 1)
            sink_fns.extend(cands)
    for g in sink_fns:
        rep.fn(g)

    # ---- content-origin error construction sites in the sink (and the hops)
    content_sites = []
    for g in sink_fns + hops:
        du = defuse(g)
        # message-carrying parameters: RelayToClientMsg / Packet typed arguments
        msg_args = [l for l in range(1, g.argc + 1) if R2C in g.locals[l] or "server::client::Packet" in g.locals[l]]
        for b, i, s in g.stmts():
            rv = s.get("rv")
            if s["k"] != "a" or rv["k"] != "agg" or rv["ak"] != "adt":
                continue
            if not (rv["adt"].endswith("Error") and rv["adt"].startswith("iroh_relay::")):
                continue
            ctrl = controlling_switches(g, b)
            by_content = []
            for sb, tgt in ctrl:
                l = op_local(g.blocks[sb]["t"]["d"])
                if l is not None and any(a in du.closure(l) for a in msg_args):
                    by_content.append(sb)
            if by_content:
                content_sites.append((g, b, rv["adt"], rv["variant"]))
    rep.note("content-origin error constructions reachable from the packet arm: %s" % sorted({(a.rsplit('::', 1)[-1], v) for _, _, a, v in content_sites}))
    rep.extra["content_origin_sites"] = ["%s %s::%s" % (site(g, b), a, v) for g, b, a, v in content_sites]

    # ---- absorption: some hop (or the arm) matches on the content variant and continues
    fatal = bool(fatal_exits)
    for g, b, adt, variant in content_sites:
        absorbed_in = None
        for h in hops + [ri]:
            if absorbs(F, h, adt, variant, region if h is ri else None):
                absorbed_in = h
                break
        ok = (not fatal) or absorbed_in is not None
        rep.ob("foreign_data_fatality", ok, site(g, b),
               "%s::%s is built under a test of the forwarded message and %s" % (adt.rsplit("::", 1)[-1], variant,
               ("is absorbed in %s" % absorbed_in.npath) if absorbed_in else "propagates through send_packet's `?` to an error return of the packet arm: another client's data ends this connection"),
               "start_send|%s::%s" % (adt, variant))

    # ---- message queue carries server-built messages only
    ALLOWED = {"EndpointGone", "Status", "Health"}
    cl = S + "client::Client"
    for name in ("try_send_peer_gone", "try_send_health"):
        g = get_fn(F, rep, cl + "::" + name)
    acc = [x for x in field_accesses(F, cl, "message_queue", crates=["iroh_relay"]) if x[3] in ("ref", "refmut", "read", "move")]
    rep.floor("who_writes", "uses of Client.message_queue", len(acc), 2)
    for f, b, i, kind, obj in acc:
        rep.fn(f)
        src = source_fn(F, f)
        if src == cl + "::new" or f.derived:
            continue
        okf = src in (cl + "::try_send_peer_gone", cl + "::try_send_health")
        rep.ob("who_writes", okf, site(f, b), "message_queue used in %s" % src, skey(F, f, "message_queue-user"))
        if okf:
            built = {rv["variant"] for g2, bb, ii, rv in ctor_sites(F, R2C, crates=["iroh_relay"]) if g2 is f}
            rep.ob("ctor_sites", built <= ALLOWED and bool(built), site(f, b), "messages built for the message queue: %s" % sorted(built), skey(F, f, "message-variants"))

    # ---- Clients::send_packet: Closed shuts down only the failed destination; Full returns Err
    sp = get_fn(F, rep, S + "clients::Clients::send_packet")
    tsp = find_calls(sp, S + "client::Client::try_send_packet")
    sh = find_calls(sp, S + "client::Client::start_shutdown")
    rep.exact("closed-queue", "start_shutdown calls in Clients::send_packet", len(sh), 1)
    if tsp and sh:
        a = ref_source_place(sp, op_base(tsp[0][1]["args"][0]))
        b_ = ref_source_place(sp, op_base(sh[0][1]["args"][0]))
        same = a is not None and b_ is not None and place_field_names(a) == place_field_names(b_) == ["active"]
        ra = copy_sources(sp, a["l"]) if a else set()
        rb = copy_sources(sp, b_["l"]) if b_ else set()
        rep.ob("closed-queue", same and ra == rb and bool(ra), site(sp, sh[0][0]), "start_shutdown targets the same entry.active whose queue reported Closed", skey(F, sp, "shutdown-same-client"))
        tests, _ = call_result_tests(sp, tsp[0][0])
        rep.ob("closed-queue", requires_failure(sp, sh[0][0], tests), site(sp, sh[0][0]), "start_shutdown only on the error edge of try_send_packet", skey(F, sp, "shutdown-on-error"))
        # ... and only when the queue is Closed (the receiver's actor is gone): a Full queue
        # (slow receiver, another client's flood) must never end the receiver's connection
        full_edges = []
        for b in sorted(sp.reachable(0)):
            t = sp.blocks[b]["t"]
            if t["k"] != "switch":
                continue
            l = op_local(t["d"])
            for st in sp.blocks[b]["s"]:
                if st["k"] == "a" and st["lhs"]["l"] == l and st["rv"]["k"] == "discr":
                    ty = place_ty(F, sp, st["rv"]["p"]) or str(sp.locals[st["rv"]["p"]["l"]])
                    if "TrySendError" in str(ty):
                        # tokio::sync::mpsc::error::TrySendError: Full = 0, Closed = 1
                        explicit = {int(v): tb for v, tb in t["targets"]}
                        full_edges.append((b, explicit.get(0, t["otherwise"])))
        reach_full = set()
        for b, tg in full_edges:
            reach_full |= reachable_fs(sp, tg)
        rep.ob("closed-queue", bool(full_edges) and sh[0][0] not in reach_full, site(sp, sh[0][0]),
               "start_shutdown is not reachable from the TrySendError::Full arm (%d match(es) on the try_send error): a full queue drops the packet, it does not disconnect the slow receiver" % len(full_edges), skey(F, sp, "full-never-shuts-down"))
    # handle_frame: forwarding errors are logged, never returned
    hf = body_of(F, rep, ACT + "handle_frame")
    hc = find_calls(hf, ACT + "handle_frame_send_packet")
    rep.exact("sender-side", "handle_frame_send_packet calls in handle_frame", len(hc), 1)
    if hc:
        du = defuse(hf)
        d = hc[0][1]["dest"]["l"]
        leaks = [b for b, i, rv in returns_of(hf) if d in du.closure(0)]
        rep.ob("sender-side", d not in du.closure(0), site(hf, hc[0][0]), "the result of forwarding never flows into handle_frame's return value (logged and dropped)", skey(F, hf, "forward-error-not-returned"))


def absorbs(F, h, adt, variant, region=None):
    """`h` contains a switch on the discriminant of a place of type `adt` whose edge for
    `variant` leads only to success returns / loop continuation."""
    try:
        a = F.adt(adt)
    except KeyError:
        return False
    dv = [int(v["discr"]) for v in a["variants"] if v["name"] == variant]
    if not dv:
        return False
    dv = dv[0]
    for b in sorted(h.reachable(0)):
        t = h.blocks[b]["t"]
        if t["k"] != "switch":
            continue
        l = op_local(t["d"])
        if l is None:
            continue
        src = None
        for s in h.blocks[b]["s"]:
            if s["k"] == "a" and s["lhs"]["l"] == l and s["rv"]["k"] == "discr":
                src = s["rv"]["p"]
        if src is None:
            continue
        ty = place_ty(F, h, src)
        if ty is None or not (ty == adt or ty.startswith(adt + "<")):
            continue
        explicit = {int(v): tb for v, tb in t["targets"]}
        if dv not in explicit:
            continue
        tgt = explicit[dv]
        # everything reachable from the variant's edge returns success
        reach = reachable_fs(h, tgt)
        rets = [(bb, i, rv) for bb, i, rv in returns_of(h) if bb in reach]
        bad = [1 for bb, i, rv in rets if not (i is not None and rv["k"] == "agg" and rv.get("variant") == "Ok")]
        # but only returns that are *exclusively* on this edge matter: require the first
        # return reached on every path to be Ok -> approximate by: no Err aggregate block is
        # reachable from tgt without passing a block also reachable from the other edges
        others = set()
        for v, tb in explicit.items():
            if v != dv and tb != tgt:
                others |= reachable_fs(h, tb)
        if t["otherwise"] != tgt:
            others |= reachable_fs(h, t["otherwise"])
        own = reach - others
        own_rets = [(bb, i, rv) for bb, i, rv in returns_of(h) if bb in own]
        if own_rets and all(i is not None and rv["k"] == "agg" and rv.get("variant") == "Ok" for bb, i, rv in own_rets):
            return True
    return False
