"""C01 Dialing by public key authenticates the remote endpoint."""
import re as _re
from ..lib import *

V = "iroh::tls::verifier::"
SCV = "<iroh::tls::verifier::ServerCertificateVerifier as rustls::verify::ServerCertVerifier>::"
CCV = "<iroh::tls::verifier::ClientCertificateVerifier as rustls::verify::ClientCertVerifier>::"
NAME = "iroh::tls::name::"
ASSERTIONS = r"^rustls::verify::(ServerCertVerified|ClientCertVerified|HandshakeSignatureValid)::assertion$"
RAW = r"verify_tls13_signature_with_raw_key$"


def str_consts(f):
    out = set()
    for b, t in f.calls():
        for a in t["args"]:
            if a["k"] == "const" and isinstance(a.get("v"), str) and '"' in a["v"]:
                out.add(a["v"][a["v"].index('"') + 1:a["v"].rindex('"')])
    for b, i, s in f.stmts():
        if s["k"] == "a" and s["rv"]["k"] in ("use", "cast") and s["rv"]["o"]["k"] == "const":
            v = s["rv"]["o"].get("v")
            if isinstance(v, str) and '"' in v:
                out.add(v[v.index('"') + 1:v.rindex('"')])
    return out


def check(F, rep):
    rep.clause("the TLS verifier answers `verified` for a server only if the server name decodes to an endpoint id, no intermediates are present and the raw public key presented equals the key of the *dialed* id; client certs need no intermediates; handshake signatures are checked by rustls's raw-key TLS1.3 routine with ed25519 only, TLS1.2 is refused, raw public keys are required")
    rep.clause("within iroh only tls::verifier produces rustls `assertion()` tokens; the QUIC client/server configs are wired to exactly these verifiers; the dialed name is encode(dialed id) and the reported remote id comes from the single peer certificate")
    rep.clause("name::encode / name::decode agree (same base32 alphabet, same literal labels, exactly three labels, decode ends in the curve-point check of EndpointId::from_bytes)")
    rep.undecided("that rustls / noq honour the verifier contract; base32 round-trip equality itself")

    # ---- verify_server_cert
    f = get_fn(F, rep, SCV + "verify_server_cert")
    du = defuse(f)
    asr = find_calls(f, regex=ASSERTIONS)
    rep.exact("verifier", "assertion() calls in verify_server_cert", len(asr), 1)
    dec = find_calls(f, NAME + "decode")
    emp = [(b, t) for b, t in find_calls(f, regex=r"^core::slice::is_empty$|slice::<impl \[T\]>::is_empty$|^core::slice::.*is_empty$")]
    nes = find_calls(f, "core::cmp::PartialEq::ne", "core::cmp::PartialEq::eq")
    rep.exact("verifier", "name::decode calls", len(dec), 1)
    rep.exact("verifier", "SPKI comparisons", len(nes), 1)
    emp = emp or [None]
    if asr and dec and emp and nes:
        ab = asr[0][0]
        dt, _ = call_result_tests(f, dec[0][0])
        rep.ob("requires_success", requires(f, ab, dt), site(f, ab), "verified requires the server name to decode to an endpoint id (Some)", skey(F, f, "requires-decode"))
        rep.ob("requires_success", no_intermediates(F, f, ab, 3), site(f, ab), "verified requires intermediates.is_empty() (the assertion is unreachable for 1, 2, 5 intermediates - whatever idiom tests it)", skey(F, f, "requires-no-intermediates"))
        nb, nt = nes[0]
        ct, _ = call_result_tests(f, nb, family="bool")
        is_ne = is_call_to(nt, "core::cmp::PartialEq::ne")
        rep.ob("requires_success", requires_failure(f, ab, ct) if is_ne else requires(f, ab, ct), site(f, ab), "verified requires the presented key to equal the expected key", skey(F, f, "requires-key-equal"))
        a0, a1 = op_base(nt["args"][0]), op_base(nt["args"][1])
        exp = [x for x in (a0, a1) if du.derives_from_call(x, "rustls::crypto::signer::public_key_to_spki") or du.derives_from_call(x, regex=r"public_key_to_spki$")]
        pre = [x for x in (a0, a1) if du.derives_from_arg(x, 2) and not du.derives_from_call(x, regex=r"public_key_to_spki$")]
        ok = len(exp) == 1 and len(pre) == 1 and exp[0] != pre[0]
        if ok:
            ok = du.derives_from_call(exp[0], NAME + "decode") and du.derives_from_call(exp[0], "iroh_base::key::PublicKey::as_bytes") and not du.derives_from_arg(exp[0], 2)
        rep.ob("derives_from", ok, site(f, nb), "one side is public_key_to_spki(ED25519, decode(server_name).as_bytes()), the other the end-entity certificate", skey(F, f, "operands"))
        sn = du.derives_from_arg(op_base(dec[0][1]["args"][0]), 4)
        rep.ob("derives_from", sn, site(f, dec[0][0]), "the decoded name is the server_name parameter", skey(F, f, "decode-server-name"))
    # ---- verify_client_cert
    g = get_fn(F, rep, CCV + "verify_client_cert")
    asr2 = find_calls(g, regex=ASSERTIONS)
    emp2 = [(b, t) for b, t in find_calls(g, regex=r"is_empty$")]
    rep.exact("verifier", "assertion() calls in verify_client_cert", len(asr2), 1)
    if asr2:
        rep.ob("requires_success", no_intermediates(F, g, asr2[0][0], 3), site(g, asr2[0][0]), "client cert accepted only without intermediates", skey(F, g, "requires-no-intermediates"))
    # ---- who produces assertions
    cs = call_sites(F, regex=ASSERTIONS, crates=["iroh"])
    rep.floor("who_calls", "assertion() call sites in crate iroh", len(cs), 2)
    for h, b, t, kind in cs:
        rep.fn(h)
        rep.ob("who_calls", source_fn(F, h).startswith("<iroh::tls::verifier::"), site(h, b), "%s produced in %s" % (callee_names(t)[0].rsplit("::", 2)[-2] if kind == "call" else "assertion", source_fn(F, h)), skey(F, h, "assertion-site"))
    # ---- signatures
    for prefix, nm in ((SCV, "server"), (CCV, "client")):
        t13 = get_fn(F, rep, prefix + "verify_tls13_signature")
        calls = [(b, t) for b, t in nontracing_calls(t13)]
        raw = find_calls(t13, regex=RAW)
        ok = len(raw) == 1 and raw[0][1]["dest"]["l"] == 0
        if ok:
            rt = raw[0][1]
            tdu = defuse(t13)
            ok = copy_sources(t13, op_base(rt["args"][0])) == {("arg", 2, ())} and tdu.derives_from_arg(op_base(rt["args"][1]), 3) and copy_sources(t13, op_base(rt["args"][2])) == {("arg", 4, ())}
            algs = {x[4].get("def") or x[4].get("static") for x in tdu.origin_facts(op_base(rt["args"][3]), kinds=("const",))}
            ok = ok and any((a or "").endswith("verifier::SUPPORTED_SIG_ALGS") for a in algs)
        rep.ob("signature", ok, site(t13), "%s verify_tls13_signature = verify_tls13_signature_with_raw_key(message, SPKI(cert), dss, &SUPPORTED_SIG_ALGS), returned unchanged" % nm, prefix + "tls13")
        t12 = get_fn(F, rep, prefix + "verify_tls12_signature")
        rets = returns_of(t12)
        rep.ob("signature", bool(rets) and all(i is not None and rv["k"] == "agg" and rv.get("variant") == "Err" for b, i, rv in rets), site(t12), "%s verify_tls12_signature returns Err only" % nm, prefix + "tls12")
        rr = get_fn(F, rep, prefix + "requires_raw_public_keys")
        rep.ob("signature", const_returns(rr) and all(v == "true" for b, v in const_returns(rr)) and len(returns_of(rr)) == 1, site(rr), "%s requires_raw_public_keys() == true" % nm, prefix + "raw-keys")
    # SUPPORTED_SIG_ALGS: only ED25519
    sa = F.fns_named(V + "SUPPORTED_SIG_ALGS")
    if len(sa) == 1:
        schemes = {rv["variant"] for b, i, rv in aggregates_in(sa[0], sa[0].reachable(0)) if rv["adt"].endswith("SignatureScheme")}
        rep.ob("signature", schemes == {"ED25519"}, V + "SUPPORTED_SIG_ALGS", "only SignatureScheme::ED25519 is mapped: %s" % sorted(schemes), V + "SUPPORTED_SIG_ALGS|ed25519-only")
    else:
        rep.missing("signature", "SUPPORTED_SIG_ALGS initialiser")
    pv = F.fns_named(V + "PROTOCOL_VERSIONS")
    if len(pv) == 1:
        pdu = defuse(pv[0])
        vs = set()
        for l in range(len(pv[0].locals)):
            for o in pdu.origins[l]:
                if o[0] == "const" and (o[3].get("static") or o[3].get("def")):
                    vs.add(o[3].get("static") or o[3].get("def"))
        rep.ob("signature", vs == {"rustls::versions::TLS13"} or (len(vs) == 1 and next(iter(vs)).endswith("TLS13")), V + "PROTOCOL_VERSIONS", "only TLS 1.3 is offered: %s" % sorted(vs), V + "PROTOCOL_VERSIONS|tls13-only")
    else:
        rep.missing("signature", "PROTOCOL_VERSIONS initialiser")
    ed = get_fn(F, rep, "<iroh::tls::verifier::Ed25519Dalek as rustls_pki_types::SignatureVerificationAlgorithm>::verify_signature")
    pv_ = find_calls(ed, "iroh_base::key::PublicKey::verify")
    ok = len(pv_) == 1
    if ok:
        edu = defuse(ed)
        t = pv_[0][1]
        ok = edu.derives_from_arg(op_base(t["args"][0]), 2) and edu.derives_from_arg(op_base(t["args"][1]), 3) and edu.derives_from_arg(op_base(t["args"][2]), 4)
        ts, tags = call_result_tests(ed, pv_[0][0])
        direct = 0 in tags
        # or: every Ok(..) return lies on the success edge of the strict verification
        okrets = [(b, i, rv) for b, i, rv in returns_of(ed) if i is not None and rv["k"] == "agg" and rv.get("variant") == "Ok"]
        other = [(b, i, rv) for b, i, rv in returns_of(ed) if not (i is not None and rv["k"] == "agg" and rv.get("variant") in ("Ok", "Err")) and not (i is None and is_call_to(rv, "core::ops::try_trait::FromResidual::from_residual"))]
        guarded = bool(okrets) and all(requires(ed, b, ts) for b, i, rv in okrets) and not other
        ok = ok and (direct or guarded)
    rep.ob("signature", ok, site(ed), "Ed25519Dalek::verify_signature = PublicKey::try_from(key)?.verify(message, signature) (strict verification: C02)", "Ed25519Dalek|verify")

    # ---- config wiring
    tls = F.find(r"^iroh::tls::TlsConfig::(make_client_config|make_server_config|new)$")
    mc = get_fn(F, rep, "iroh::tls::TlsConfig::make_client_config")
    ms = get_fn(F, rep, "iroh::tls::TlsConfig::make_server_config")
    cv = find_calls(mc, regex=r"with_custom_certificate_verifier$")
    ok = len(cv) == 1 and any(x[2][-1:] == ("server_verifier",) for x in copy_sources(mc, op_base(cv[0][1]["args"][1]), transparent=("core::clone::Clone::clone",)) if len(x) == 3)
    rep.ob("wiring", ok, site(mc), "client config uses self.server_verifier as custom certificate verifier", "TlsConfig::make_client_config|verifier")
    sv = find_calls(ms, regex=r"with_client_cert_verifier$")
    ok = len(sv) == 1 and any(x[2][-1:] == ("client_verifier",) for x in copy_sources(ms, op_base(sv[0][1]["args"][1]), transparent=("core::clone::Clone::clone",)) if len(x) == 3)
    rep.ob("wiring", ok, site(ms), "server config uses self.client_verifier as client cert verifier", "TlsConfig::make_server_config|verifier")
    bad = call_sites(F, regex=r"(with_no_client_auth|with_root_certificates|with_webpki_verifier|dangerous)$", crates=["iroh"])
    bad = [x for x in bad if source_fn(F, x[0]).startswith("iroh::tls") and not callee_names(x[2])[0].endswith("::dangerous")] if bad else []
    rep.ob("wiring", not bad, "iroh::tls", "no with_no_client_auth / with_root_certificates under iroh::tls (%d found)" % len(bad), "iroh::tls|no-webpki")
    tn = get_fn(F, rep, "iroh::tls::TlsConfig::new")
    for h, b, i, rv in [x for x in ctor_sites(F, "iroh::tls::TlsConfig", crates=["iroh"])]:
        rep.fn(h)
        ok = h is tn
        if ok:
            tys = (h.locals[op_base(rv["ops"][rv["fields"].index("server_verifier")])], h.locals[op_base(rv["ops"][rv["fields"].index("client_verifier")])])
            ok = "ServerCertificateVerifier" in tys[0] and "ClientCertificateVerifier" in tys[1]
        rep.ob("wiring", ok, site(h, b), "TlsConfig built only in TlsConfig::new with the two iroh verifiers", skey(F, h, "tlsconfig-ctor"))
    for fld in ("server_verifier", "client_verifier"):
        w = [x for x in field_accesses(F, "iroh::tls::TlsConfig", fld, crates=["iroh"]) if x[3] in ("write", "refmut")]
        rep.ob("wiring", not w, "iroh::tls::TlsConfig", "TlsConfig.%s never reassigned (%d writes)" % (fld, len(w)), "TlsConfig|frozen-" + fld)

    # ---- name encode/decode
    enc = get_fn(F, rep, NAME + "encode")
    dcd = get_fn(F, rep, NAME + "decode")
    ec = {x[4].get("def") for l in range(len(enc.locals)) for x in [(None, None, None, None, o[3]) for o in defuse(enc).origins[l] if o[0] == "const"] if x[4].get("def")}
    dc = {x[4].get("def") for l in range(len(dcd.locals)) for x in [(None, None, None, None, o[3]) for o in defuse(dcd).origins[l] if o[0] == "const"] if x[4].get("def")}
    rep.ob("table_agreement", "data_encoding::BASE32_DNSSEC" in ec and "data_encoding::BASE32_DNSSEC" in dc, site(dcd), "encode and decode use the same alphabet const BASE32_DNSSEC", NAME + "alphabet")
    elit = set()
    for s_ in str_consts(enc):
        elit.add(_re.sub(r"\\x[0-9a-fA-F]{2}", "", s_))
    dlit = str_consts(dcd)
    labels = {l for l in dlit if l not in (".",)}
    sep = "." in dlit
    ok = sep and labels == {"iroh", "invalid"} and any(e.endswith(".iroh.invalid") or e == ".iroh.invalid" for e in elit)
    rep.ob("table_agreement", ok, site(dcd), "decode splits at `.` and expects labels %s; encode appends %s" % (sorted(labels), sorted(elit)), NAME + "labels")
    # exactly three labels
    somes = [b for b, i, rv in returns_of(dcd) if not (i is not None and rv["k"] == "agg" and rv.get("variant") == "None") and not (i is None and is_call_to(rv, "core::ops::try_trait::FromResidual::from_residual"))]
    lens = []
    for b, s, ts in cmp_tests(dcd, ops=("Eq",)):
        cvals = [str(o.get("v")) for o in (s["rv"]["a"], s["rv"]["b"]) if o["k"] == "const"]
        ddu = defuse(dcd)
        for o in (s["rv"]["a"], s["rv"]["b"]):
            if o["k"] != "const":
                for x in ddu.origin_facts(op_base(o), kinds=("const",)):
                    cvals.append(str(x[4].get("v")))
        is_len = any(x[4]["op"] in ("PtrMetadata", "Len") for o in (s["rv"]["a"], s["rv"]["b"]) if o["k"] != "const" for x in ddu.origin_facts(op_base(o), kinds=("un",))) or any(is_call_to(t, "alloc::vec::Vec::len") or call_matches(t, r"slice::len$") for o in (s["rv"]["a"], s["rv"]["b"]) if o["k"] != "const" for _, t in ddu.origin_calls(op_base(o)))
        if is_len and any(c.startswith("3_") for c in cvals):
            lens.append(ts)
    ok = bool(lens) and bool(somes) and all(any(requires(dcd, b, ts) for ts in lens) for b in somes)
    rep.ob("table_agreement", ok, site(dcd), "a name decodes only if it has exactly three labels (length test == 3 guards every non-None return): trailing or extra labels are rejected", NAME + "three-labels")
    eqs = find_calls(dcd, "core::cmp::PartialEq::eq")
    lit_ok = 0
    for b, t in eqs:
        ts, _ = call_result_tests(dcd, b, family="bool")
        if all(requires(dcd, sb, ts) for sb in somes) and somes:
            lit_ok += 1
    rep.ob("table_agreement", lit_ok >= 2, site(dcd), "both literal label comparisons guard every non-None return (%d)" % lit_ok, NAME + "literal-guards")
    fb = find_calls(dcd, "iroh_base::key::PublicKey::from_bytes")
    rep.ob("table_agreement", len(fb) == 1 and defuse(dcd).derives_from_call(0, "iroh_base::key::PublicKey::from_bytes"), site(dcd), "decode ends in EndpointId::from_bytes (curve point check)", NAME + "from_bytes")

    # ---- remote id
    rid = get_fn(F, rep, "iroh::endpoint::connection::remote_id_from_noq_conn")
    rdu = defuse(rid)
    oks = [(b, i, rv) for b, i, rv in returns_of(rid) if i is not None and rv["k"] == "agg" and rv.get("variant") == "Ok"]
    rep.exact("remote-id", "Ok returns of remote_id_from_noq_conn", len(oks), 1)
    lt = []
    for b, s, ts in cmp_tests(rid, ops=("Ne", "Eq")):
        cv = [str(o.get("v")) for o in (s["rv"]["a"], s["rv"]["b"]) if o["k"] == "const"]
        if any(c.startswith("1_") for c in cv):
            lt.append((s["rv"]["op"], ts))
    for b, i, rv in oks:
        ok = any((requires_failure(rid, b, ts) if op == "Ne" else requires(rid, b, ts)) for op, ts in lt)
        rep.ob("remote-id", ok, site(rid, b), "a remote id is reported only when exactly one peer certificate is present", skey(F, rid, "single-cert"))
        rep.ob("remote-id", rdu.derives_from_call(op_base(rv["ops"][0]), "iroh_base::key::PublicKey::from_verifying_key") and rdu.derives_from_call(op_base(rv["ops"][0]), regex=r"peer_identity$"), site(rid, b), "it is derived from the connection's peer identity", skey(F, rid, "from-peer-identity"))
    # ---- dialed name
    cw = body_of(F, rep, "iroh::endpoint::Endpoint::connect_with_opts")
    cc = find_calls(cw, regex=r"^noq::endpoint::Endpoint::connect_with$")
    rep.exact("dial", "noq connect_with calls in connect_with_opts", len(cc), 1)
    if cc:
        cdu = defuse(cw)
        b, t = cc[0]
        sn = [a for a in t["args"] if op_base(a) is not None and cdu.derives_from_call(op_base(a), NAME + "encode")]
        rep.ob("dial", len(sn) >= 1, site(cw, b), "the TLS server name passed to noq derives from tls::name::encode(..)", skey(F, cw, "server-name-encoded"))
        en = find_calls(cw, NAME + "encode")
        if en:
            s_ = copy_sources(cw, op_base(en[0][1]["args"][0]))
            rep.ob("dial", bool(s_) and all(x[2][-1:] == ("id",) or "endpoint_id" in x[2] or x[0] == "arg" for x in s_), site(cw, en[0][0]), "the encoded id is the dialed endpoint id; sources %s" % sorted(map(str, s_)), skey(F, cw, "encode-dialed-id"))


def no_intermediates(F, f, site_bb, arg_index):
    """`site_bb` is unreachable whenever the `intermediates` slice (argument `arg_index`) is
    non-empty: is_empty() / len() comparisons / match on len(), in the function or in a
    private helper (inlined view)."""
    from ..inline import inlined
    fi = inlined(F, f)

    def of_arg(o):
        l = op_base(o)
        if l is None:
            return False
        x = copy_sources(fi, l)
        return bool(x) and all(y[0] == "arg" and y[1] == arg_index and tuple(y[2]) == () for y in x)

    def is_len(o):
        l = op_base(o)
        dc = def_call(fi, l) if l is not None else None
        return dc is not None and re.search(r"(^|::)len$", callee_names(dc[1])[0]) is not None and of_arg(dc[1]["args"][0])

    def is_empty_call(t):
        return re.search(r"is_empty$", callee_names(t)[0]) is not None and bool(t["args"]) and of_arg(t["args"][0])
    ok, n = unreachable_when(F, fi, site_bb, is_len, (1, 2, 5), is_empty_call=is_empty_call)
    return ok and n >= 1
