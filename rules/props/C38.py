"""C38 DNS answers never go back behind an acknowledged publish (cache fill vs invalidate)."""
from ..lib import *
from ..lockset import guards

ZS = "iroh_dns_server::store::ZoneStore"
ZC = "iroh_dns_server::store::ZoneCache"
SPS = "iroh_dns_server::store::signed_packets::SignedPacketStore"


def invalidation_unconditional(F, rep, group):
    """every path of ZoneStore::insert that continues after an *acknowledged update* (the
    upsert's bool is true) reaches the cache invalidation: a condition in front of it leaves
    a zone of the losing packet in the cache and DNS answers keep coming from it"""
    ins = body_of(F, rep, ZS + "::insert")
    up = find_calls(ins, SPS + "::upsert")
    inv = find_calls(ins, ZC + "::remove")
    inst = find_calls(ins, ZC + "::insert")
    if not up:
        rep.missing(group, "store.upsert call in ZoneStore::insert")
        return
    bts = []
    for b_ in sorted(ins.reachable(0)):
        t_ = ins.blocks[b_]["t"]
        if t_["k"] == "switch" and op_local(t_["d"]) is not None and str(ins.locals[op_local(t_["d"])]) == "bool":
            cs_ = copy_sources(ins, op_local(t_["d"]))
            if cs_ and all(x[0] == "call" and x[1] == SPS + "::upsert" for x in cs_):
                su_, fa_ = switch_edges(ins, b_, 1)
                bts.append((b_, su_))
    rep.floor(group, "tests of the upsert result (updated?) in ZoneStore::insert", len(bts), 1)
    invb = {b for b, t in inv} | {b for b, t in inst}
    rets = {b for b in ins.reachable(0) if ins.blocks[b]["t"]["k"] == "return"}
    for b_, su_ in bts:
        leak = [tg for _, tg in su_ if rets & ins.reachable(tg, removed_blocks=invb)]
        rep.ob(group, not leak, site(ins, b_), "after an acknowledged update every path passes through the cache invalidation for the key (no condition can skip it)", skey(F, ins, "invalidate-unconditional"))


def check(F, rep):
    rep.clause("atomic set {store row for a key, cache entry for that key}: the resolve path's fill (read store, then write the cache with what was read) and the publish path's invalidation (write store, then touch the cache) must exclude each other - one cache guard spanning the store read and the cache write - or the publish path must install the new packet so that the cache's newer-check rejects a late stale fill")
    rep.clause("a publish invalidates every layer a query can be answered from: each cache field that ZoneCache::resolve reads is cleared for the key by ZoneCache::remove on every path")
    rep.clause("after an acknowledged update (upsert returned true) every path of ZoneStore::insert passes through the invalidation - no condition can skip it")
    rep.undecided("LRU eviction and DHT TTL behaviour as values")
    r = body_of(F, rep, ZS + "::resolve")
    ins = body_of(F, rep, ZS + "::insert")
    gs = [g for g in guards(r) if any(d[-1][-1:] == ("cache",) for d in g.lock if len(d) == 3)]
    rep.floor("lockset", "cache lock acquisitions in resolve", len(gs), 2)
    sg = find_calls(r, SPS + "::get")
    fill = find_calls(r, ZC + "::insert_and_resolve")
    rep.exact("lockset", "store.get calls in resolve", len(sg), 1)
    rep.exact("lockset", "cache fills (insert_and_resolve) in resolve", len(fill), 1)
    up = find_calls(ins, SPS + "::upsert")
    inv = find_calls(ins, ZC + "::remove")
    inst = find_calls(ins, ZC + "::insert")
    rep.exact("lockset", "store.upsert calls in insert", len(up), 1)
    # ---- every cache layer a query can be answered from is invalidated by a publish
    zr = get_fn(F, rep, ZC + "::resolve")
    zrm = get_fn(F, rep, ZC + "::remove")
    layers = {recv_field(zr, t["args"][0]) for b, t in zr.calls() if call_matches(t, r"::(get|peek|get_mut)$") and t["args"] and recv_field(zr, t["args"][0])}
    rep.floor("invalidate", "cache layers ZoneCache::resolve answers from", len(layers), 2)
    for fld in sorted(layers):
        rm = [(b, t) for b, t in zrm.calls() if call_matches(t, r"::(pop|remove|pop_entry|invalidate|remove_entry)$") and t["args"] and recv_field(zrm, t["args"][0]) == fld]
        key_ok = all(copy_sources(zrm, op_base(t["args"][1])) == {("arg", 2, ())} for b, t in rm)
        uncond = any(zrm.postdominates(b, 0) for b, t in rm)
        rep.ob("invalidate", bool(rm) and key_ok and uncond, site(zrm, rm[0][0] if rm else None),
               "ZoneCache::remove drops the key from `%s` on every path (%d removal call(s), unconditional: %s) - resolve() answers from this layer, so an entry left behind is served after the publish was acknowledged" % (fld, len(rm), uncond),
               skey(F, zrm, "invalidates-" + fld))
    if inv and up:
        uts, _ = call_result_tests(ins, up[0][0], family=None)
        rep.ob("invalidate", len(inv) == 1 and ins.dominates(up[0][0], inv[0][0]), site(ins, inv[0][0]), "an acknowledged update invalidates the cache after the store was written", skey(F, ins, "invalidate-after-upsert"))
    invalidation_unconditional(F, rep, "invalidate")
    if not (sg and fill and up):
        return
    du = defuse(r)
    # the fill writes what the store read returned
    rep.ob("derives_from", du.derives_from_call(op_base(fill[0][1]["args"][1]), SPS + "::get"), site(r, fill[0][0]), "the cache is filled with the packet read from the store", skey(F, r, "fill-from-store"))
    held_at_read = [g for g in gs if sg[0][0] in g.held_blocks()]
    held_at_fill = [g for g in gs if fill[0][0] in g.held_blocks()]
    spanning = [g for g in held_at_read if g in held_at_fill]
    # yields between the store read and the fill
    yields = sorted(b for b in r.reachable(sg[0][0]) if r.blocks[b]["t"]["k"] == "yield" and fill[0][0] in r.reachable(b))
    # the publish path
    idu = defuse(ins)
    installs_new = False
    for b, t in inst:
        src = idu.closure(op_base(t["args"][1]))
        if ins.dominates(up[0][0], b) and any(l in src for l in range(1, ins.argc + 1)):
            installs_new = True
    rep.note("resolve: %d cache guard(s) held at store.get, %d at the fill, %d spanning both; %d suspension points in between; insert: invalidates=%s installs-new=%s"
             % (len(held_at_read), len(held_at_fill), len(spanning), len(yields), bool(inv), installs_new))
    if inv or inst:
        after = all(ins.dominates(up[0][0], b) for b, t in inv + inst)
        rep.ob("must_precede", after, site(ins, up[0][0]), "the cache is touched only after the store acknowledged the upsert", skey(F, ins, "cache-after-upsert"))
        uts = tests_of_calls(ins, up, awaited=True)
        for b, t in inv + inst:
            rep.ob("requires_success", requires(ins, b, uts, levels=[0]), site(ins, b), "cache update requires a successful upsert", skey(F, ins, "cache-requires-upsert"))
    ok = bool(spanning) or installs_new
    rep.ob("atomic-set", ok, site(r, fill[0][0]),
           "resolve releases the cache guard before `store.get().await` and re-acquires it for the fill (%d suspension points in between), while insert only *removes* the cache entry after the upsert: a resolve that read the previous packet can fill the cache after the publish was acknowledged and invalidated; the empty slot passes ZoneCache::insert's newer-check, so the stale zone is served until evicted"
           % len(yields) if not ok else "fill and invalidation are serialised (spanning guard=%s, publish installs new packet=%s)" % (bool(spanning), installs_new),
           "ZoneStore::resolve|store.get..insert_and_resolve")
    # ZoneCache::insert keeps the newer entry
    ci = get_fn(F, rep, ZC + "::insert")
    nw = find_calls(ci, "iroh_dns_server::store::CachedZone::is_newer_than")
    nw_all = nw + [(b, t) for g in F.tree(ci) for b, t in find_calls(g, "iroh_dns_server::store::CachedZone::is_newer_than") if g is not ci]
    puts = find_calls(ci, regex=r"LruCache::(put|push)$")
    rep.ob("newer-check", len(nw_all) >= 1 and len(puts) == 1, site(ci), "ZoneCache::insert consults CachedZone::is_newer_than before replacing an entry", skey(F, ci, "newer-check"))
