"""C16 Splitting a relay datagram batch partitions it exactly (relational clauses)."""
from ..lib import *
from .. import booltab
from ..booltab import Unsupported

DG = "iroh_relay::protos::relay::Datagrams"
FN = DG + "::take_segments"


def check(F, rep):
    rep.clause("conservation: take_segments touches self.contents only through mem::take (no segment size) or Bytes::split_to(k); the returned batch's contents is exactly that taken / split-off value, so bytes are neither lost, duplicated nor reordered (Bytes::split_to contract)")
    rep.clause("bound: k = min(num_segments * segment_size, self.contents.len()) - at most n segments are taken and split_to can never be asked for more than there is")
    rep.clause("ECN: every returned batch carries a copy of self.ecn")
    rep.clause("segment size of the result: None on the no-segment-size path; otherwise Some(self's segment size) exactly when the taken bytes are more than one segment (evaluated over n in {1, >1} x taken.len() <,=,> segment_size, with taken.len() <= n * segment_size)")
    rep.clause("remainder: self.segment_size is cleared exactly when what remains after the split is at most one segment")
    rep.undecided("the byte values themselves; Bytes::split_to / mem::take semantics; overflow of num_segments * segment_size (a checked multiplication: panics rather than mis-splitting)")
    f = get_fn(F, rep, FN)
    du = defuse(f)

    def self_field(o):
        """field of *self an operand refers to (through reborrows)"""
        l = op_base(o)
        if l is None:
            return None
        pl = o["p"] if o["p"].get("p") else ref_source_place(f, l)
        if pl is None:
            return None
        pl = resolve_place(f, pl)
        names = [e[2] for e in pl.get("p", []) if e[0] == "f"]
        return names[-1] if names and pl["l"] == 1 else None

    # ---- conservation
    takes = [(b, t) for b, t in find_calls(f, regex=r"^core::mem::take$") if self_field(t["args"][0]) == "contents"]
    splits = [(b, t) for b, t in find_calls(f, regex=r"^bytes::bytes::Bytes::split_to$") if self_field(t["args"][0]) == "contents"]
    rep.exact("conservation", "mem::take(&mut self.contents)", len(takes), 1)
    rep.exact("conservation", "self.contents.split_to(..)", len(splits), 1)
    muts = []
    for b, i, s in f.stmts():
        if s["k"] == "a" and s["rv"]["k"] == "ref" and s["rv"].get("mut"):
            pl = resolve_place(f, s["rv"]["p"])
            if pl["l"] == 1 and [e[2] for e in pl.get("p", []) if e[0] == "f"][-1:] == ["contents"] and not any(op_local(s2["rv"]["p"]) is None for s2 in ()):
                muts.append((b, s["lhs"]["l"]))
    cons = set()
    for b, l in muts:
        for cb, ct, ai in ref_consumers(f, l):
            cons.add(callee_names(ct)[0])
    writes = field_writes(f, "contents")
    rep.ob("conservation", cons <= {"core::mem::take", "bytes::bytes::Bytes::split_to"} and not writes, site(f), "self.contents is mutated only by mem::take / split_to (mutable uses: %s, direct writes: %d)" % (sorted(cons), len(writes)), skey(F, f, "contents-mutators"))
    rets = [(b, i, rv) for b, i, rv in aggregates_in(f, f.reachable(0), DG)]
    rep.exact("conservation", "Datagrams values built", len(rets), 2)
    seg_src = {}
    for b, i, rv in rets:
        fld = dict(zip(rv["fields"], rv["ops"]))
        c = copy_sources(f, op_base(fld["contents"]))
        okc = bool(c) and all(x[0] == "call" and x[1] in ("core::mem::take", "bytes::bytes::Bytes::split_to") and x[2] == () for x in c)
        rep.ob("conservation", okc, site(f, b), "the returned contents is the taken / split-off value itself: %s" % sorted(map(str, c)), skey(F, f, "returned-contents"))
        e = copy_sources(f, op_base(fld["ecn"])) if op_base(fld["ecn"]) is not None else set()
        rep.ob("ecn", e == {("arg", 1, ("ecn",))}, site(f, b), "the returned batch keeps self.ecn: %s" % sorted(map(str, e)), skey(F, f, "ecn"))
        seg_src[b] = (fld["segment_size"], c)
    def is_seg(o):
        l = op_base(o)
        for _ in range(6):
            if l is None:
                return False
            x = copy_sources(f, l)
            if x and all(y[0] == "arg" and y[1] == 1 and tuple(y[2])[:1] == ("segment_size",) for y in x):
                return True
            dc_ = def_call(f, l)
            if dc_ is None or not re.search(r"convert::(From::from|Into::into)$|NonZero.*::get$", callee_names(dc_[1])[0]):
                return False
            l = op_base(dc_[1]["args"][0])
        return False

    # ---- bound
    if splits:
        sb, st = splits[0]
        k = op_base(st["args"][1])
        dc = def_call(f, k) if k is not None else None
        okb = dc is not None and call_matches(dc[1], r"^core::cmp::(min|Ord::min)$")
        why = "split length is not a min(..)"
        if True:
            a0, a1 = dc[1]["args"] if okb else (None, None)

            def is_len_contents(o):
                d2 = def_call(f, op_base(o)) if op_base(o) is not None else None
                return d2 is not None and call_matches(d2[1], r"Bytes::len$") and self_field(d2[1]["args"][0]) == "contents" and f.dominates(d2[0], sb)

            def is_n_times_seg(o):
                l = op_base(o)
                m = None
                for _ in range(6):
                    if l is None:
                        return False
                    ds = [s_["rv"] for b_, i_, s_ in f.stmts() if s_["k"] == "a" and s_["lhs"] == {"l": l}]
                    if len(ds) != 1:
                        return False
                    rv = ds[0]
                    if rv["k"] == "bin" and rv["op"] in ("Mul", "MulWithOverflow"):
                        m = rv
                        break
                    if rv["k"] == "use" and rv["o"]["k"] in ("copy", "move"):
                        l = rv["o"]["p"]["l"]
                        continue
                    return False
                if m is None:
                    return False
                x0 = copy_sources(f, op_base(m["a"])) if op_base(m["a"]) is not None else set()
                x1 = copy_sources(f, op_base(m["b"])) if op_base(m["b"]) is not None else set()
                n_ = lambda x: x == {("arg", 2, ())}

                return (n_(x0) and is_seg(m["b"])) or (n_(x1) and is_seg(m["a"]))
            if okb:
                okb = (is_len_contents(a0) and is_n_times_seg(a1)) or (is_len_contents(a1) and is_n_times_seg(a0))
                why = "min operands: len(self.contents) %s, num_segments*segment_size %s" % (is_len_contents(a0) or is_len_contents(a1), is_n_times_seg(a0) or is_n_times_seg(a1))
            else:
                # explicit minimum: `if p < l { p } else { l }` (any orientation)
                kk = k
                for _ in range(5):
                    ds_ = [s_ for b_, i_, s_ in f.stmts() if s_["k"] == "a" and s_["lhs"] == {"l": kk}]
                    if len(ds_) == 1 and ds_[0]["rv"]["k"] == "use" and ds_[0]["rv"]["o"]["k"] in ("copy", "move") and not ds_[0]["rv"]["o"]["p"].get("p") and not (is_n_times_seg(ds_[0]["rv"]["o"]) or is_len_contents(ds_[0]["rv"]["o"])):
                        kk = ds_[0]["rv"]["o"]["p"]["l"]
                    else:
                        break
                defs = [(b_, s_) for b_, i_, s_ in f.stmts() if s_["k"] == "a" and s_["lhs"] == {"l": kk} and s_["rv"]["k"] == "use" and s_["rv"]["o"]["k"] in ("copy", "move")]
                kinds = {}
                for b_, s_ in defs:
                    o_ = s_["rv"]["o"]
                    kinds[b_] = "P" if is_n_times_seg(o_) else ("L" if is_len_contents(o_) else "?")
                cm = []
                for cb_, st_, ts_ in cmp_tests(f, ops=("Lt", "Le", "Gt", "Ge")):
                    x_, y_ = st_["rv"]["a"], st_["rv"]["b"]
                    op_ = st_["rv"]["op"]
                    if is_n_times_seg(x_) and is_len_contents(y_):
                        cm.append((op_ in ("Lt", "Le"), ts_))       # truth => P is the smaller
                    elif is_len_contents(x_) and is_n_times_seg(y_):
                        cm.append((op_ in ("Gt", "Ge"), ts_))
                if sorted(kinds.values()) == ["L", "P"] and len(cm) == 1:
                    p_small_on_true, ts_ = cm[0]
                    okb = True
                    for b_, kd in kinds.items():
                        want_true = (kd == "P") == p_small_on_true
                        okb = okb and (requires(f, b_, ts_) if want_true else requires_failure(f, b_, ts_))
                    why = "explicit minimum of (num_segments * segment_size, self.contents.len()) by comparison: %s" % okb
        rep.ob("bound", okb, site(f, sb), "split_to(min(num_segments * segment_size, self.contents.len())): %s" % why, skey(F, f, "split-len"))
        # the usize segment size is self.segment_size widened
        segl = None
        for n_, pl in f.vars:
            if n_ == "usize_segment_size" and not pl.get("p"):
                segl = pl["l"]

        def len_of(o):
            d2 = def_call(f, op_base(o)) if op_base(o) is not None else None
            if d2 is None or not call_matches(d2[1], r"Bytes::len$"):
                return None
            if self_field(d2[1]["args"][0]) == "contents":
                return "rest" if (d2[0] in f.reachable(st["t"]) and f.dominates(sb, d2[0])) else "before"
            tgt = arg_ref_target(f, d2[1]["args"][0])
            if tgt is not None and copy_sources(f, tgt) == {("call", "bytes::bytes::Bytes::split_to", ())}:
                return "taken"
            return None

        def mk_value_of(n_gt1, rel_whole, rel_rest, dontcare=False):
            """rel_* in lt/eq/gt: len ? segment_size.  whole = self.contents before the split;
            taken = min(n * seg, whole): for n = 1 it is min(seg, whole), for n > 1 it
            exceeds seg exactly when whole does."""
            if n_gt1:
                rel_taken = rel_whole
            else:
                rel_taken = "lt" if rel_whole == "lt" else "eq"
            def value_of(a):
                if a.kind == "cmp":
                    x, y = a.args
                    op = a.name
                    if copy_sources(f, op_base(x)) == {("arg", 2, ())} and const_int(F, y) is not None:
                        c = const_int(F, y)
                        if c in (0, 1):
                            nval = 2 if n_gt1 else 1
                            return {"Gt": nval > c, "Ge": nval >= c, "Lt": nval < c, "Le": nval <= c, "Eq": nval == c, "Ne": nval != c}[op]
                    if op_base(y) is not None and copy_sources(f, op_base(y)) == {("arg", 2, ())} and const_int(F, x) is not None:
                        c = const_int(F, x)
                        if c in (0, 1):
                            nval = 2 if n_gt1 else 1
                            return {"Gt": c > nval, "Ge": c >= nval, "Lt": c < nval, "Le": c <= nval, "Eq": c == nval, "Ne": c != nval}[op]
                    for p_, q_, flip in ((x, y, False), (y, x, True)):
                        which = len_of(p_)
                        if which in ("taken", "rest", "before") and is_seg(q_):
                            rel = rel_taken if which == "taken" else (rel_rest if which == "rest" else rel_whole)
                            # value of `len <op> seg` (flip: `seg <op> len`)
                            o2 = {"Lt": "Gt", "Gt": "Lt", "Le": "Ge", "Ge": "Le"}.get(op, op) if flip else op
                            return {"Lt": rel == "lt", "Le": rel in ("lt", "eq"), "Gt": rel == "gt", "Ge": rel in ("gt", "eq"), "Eq": rel == "eq", "Ne": rel != "eq"}[o2]
                    if (is_n_times_seg(x) and len_of(y) == "before") or (is_n_times_seg(y) and len_of(x) == "before"):
                        return value_of.dontcare      # only selects how the split length is computed
                    raise Unsupported("comparison %s at bb%d is not between a length and the segment size / n and 1" % (op, a.bb))
                if a.kind == "switch":
                    l = op_local(a.args[0])
                    for st_ in f.blocks[a.bb]["s"]:
                        if st_["k"] == "a" and st_["lhs"]["l"] == l and st_["rv"]["k"] == "discr":
                            names = [e[2] for e in resolve_place(f, st_["rv"]["p"]).get("p", []) if e[0] == "f"]
                            if names[-1:] == ["segment_size"]:
                                vals = [int(z) for z, _ in f.blocks[a.bb]["t"]["targets"]]
                                return 1 if 1 in vals else "otherwise"
                    raise Unsupported("branch at bb%d" % a.bb)
                raise Unsupported("%s %s at bb%d" % (a.kind, a.name, a.bb))
            value_of.rel_taken = rel_taken
            value_of.dontcare = dontcare
            return value_of
        def is_seg_payload(o):
            x = copy_sources(f, op_base(o)) if op_base(o) is not None else set()
            return bool(x) and all(y[0] == "arg" and y[1] == 1 and tuple(y[2])[:1] == ("segment_size",) for y in x)
        # ---- segment size of the result (batch path)
        batch = [(b, fld, c) for b, (fld, c) in seg_src.items() if any(x[1].endswith("split_to") for x in c)]
        single = [(b, fld, c) for b, (fld, c) in seg_src.items() if any(x[1].endswith("mem::take") for x in c)]
        for b, fld, c in single:
            x = copy_sources(f, op_base(fld)) if op_base(fld) is not None else set()
            rep.ob("result-seg", x == {("agg", "core::option::Option::None")}, site(f, b), "without a segment size the whole (single-datagram) batch is returned with segment_size None", skey(F, f, "single-none"))
        for b, fld, c in batch:
            fl_local = op_base(fld)
            dc = def_call(f, fl_local) if fl_local is not None else None
            mode = None
            if dc is not None and call_matches(dc[1], r"then_some$"):
                tb, tt = dc
                payload_ok = is_seg_payload(tt["args"][1])
                flag = op_base(tt["args"][0])
                for _ in range(3):
                    ds = [s_["rv"] for b_, i_, s_ in f.stmts() if s_["k"] == "a" and s_["lhs"] == {"l": flag}]
                    if len(ds) == 1 and ds[0]["k"] == "use" and ds[0]["o"]["k"] in ("copy", "move") and not ds[0]["o"]["p"].get("p"):
                        flag = ds[0]["o"]["p"]["l"]
                    else:
                        break
                mode = ("value_at", tb, flag)
            else:
                # `if flag { Some(segment_size) } else { None }`: the blocks that build the Some
                chain = set()
                work = [fl_local]
                while work:
                    cur = work.pop()
                    if cur is None or cur in chain:
                        continue
                    chain.add(cur)
                    for b_, i_, s_ in f.stmts():
                        if s_["k"] == "a" and s_["lhs"] == {"l": cur} and s_["rv"]["k"] == "use" and s_["rv"]["o"]["k"] in ("copy", "move") and not s_["rv"]["o"]["p"].get("p"):
                            work.append(s_["rv"]["o"]["p"]["l"])
                somes = [(b_, s_) for b_, i_, s_ in f.stmts() if s_["k"] == "a" and s_["lhs"].get("l") in chain and not s_["lhs"].get("p") and s_["rv"]["k"] == "agg" and s_["rv"].get("variant") == "Some"]
                nones = [(b_, s_) for b_, i_, s_ in f.stmts() if s_["k"] == "a" and s_["lhs"].get("l") in chain and not s_["lhs"].get("p") and s_["rv"]["k"] == "agg" and s_["rv"].get("variant") == "None"]
                if somes and nones:
                    payload_ok = all(is_seg_payload(s_["rv"]["ops"][0]) for b_, s_ in somes)
                    tb = somes[0][0]
                    mode = ("target", {b_ for b_, s_ in somes}, None)
            if mode is None:
                rep.ob("result-seg", False, site(f, b), "the result's segment_size is neither `flag.then_some(segment_size)` nor `if flag { Some(segment_size) } else { None }` (unrecognised idiom, fails closed)", skey(F, f, "batch-flag"))
                continue
            rep.ob("result-seg", payload_ok, site(f, tb), "a batch result carries self's segment size", skey(F, f, "batch-payload"))
            try:
                if mode[0] == "value_at":
                    paths = booltab.extract(f, value_at=(mode[1], mode[2]))
                else:
                    paths = booltab.extract(f, target=mode[1])
                bad = []
                for n_gt1 in (False, True):
                    for rw in ("lt", "eq", "gt"):
                        for rr in ("lt", "eq", "gt"):
                          for dc_ in (False, True):
                            vo = mk_value_of(n_gt1, rw, rr, dc_)
                            got = booltab.evaluate(paths, vo)
                            if got != (vo.rel_taken == "gt"):
                                bad.append("n%s, batch %s one segment (taken %s) -> %s" % (">1" if n_gt1 else "=1", {"lt": "<", "eq": "=", "gt": ">"}[rw], {"lt": "<", "eq": "=", "gt": ">"}[vo.rel_taken], "Some" if got else "None"))
                rep.ob("result-seg", not bad, site(f, tb), "the result carries a segment size exactly when it holds more than one datagram (taken.len() > segment_size, with taken = min(n * segment_size, batch)); mismatches: %s" % sorted(set(bad)), skey(F, f, "batch-flag"))
            except Unsupported as e:
                rep.ob("result-seg", False, site(f, tb), "flag logic not extractable (fails closed): %s" % e, skey(F, f, "batch-flag"))
        # ---- remainder invariant
        clears = []
        for b, i, s in field_writes(f, "segment_size"):
            x = copy_sources(f, op_base(s["rv"]["o"])) if s["rv"]["k"] == "use" and op_base(s["rv"]["o"]) is not None else ({("agg", "core::option::Option::None")} if s["rv"]["k"] == "agg" and s["rv"].get("variant") == "None" else set())
            rep.ob("remainder", x == {("agg", "core::option::Option::None")}, site(f, b), "self.segment_size is only ever cleared (set to None) here", skey(F, f, "seg-write-none"))
            clears.append(b)
        rep.exact("remainder", "writes to self.segment_size", len(clears), 1)
        if clears:
            try:
                paths = booltab.extract(f, target=set(clears), start=st["t"])
                bad = []
                for n_gt1 in (False, True):
                    for rel in ("lt", "eq", "gt"):
                        for rr in ("lt", "eq", "gt"):
                          for dc_ in (False, True):
                            got = booltab.evaluate(paths, mk_value_of(n_gt1, rel, rr, dc_))
                            if got != (rr in ("lt", "eq")):
                                bad.append("rest %s segment -> %s" % ({"lt": "<", "eq": "=", "gt": ">"}[rr], "cleared" if got else "kept"))
                rep.ob("remainder", not bad, site(f, clears[0]), "after the split, self.segment_size is cleared exactly when at most one segment remains (rest.len() <= segment_size), so a single remaining datagram never keeps a segment size; mismatches: %s" % sorted(set(bad)), skey(F, f, "clear-iff-single"))
            except Unsupported as e:
                rep.ob("remainder", False, site(f, clears[0]), "not extractable (fails closed): %s" % e, skey(F, f, "clear-iff-single"))
        # the no-segment-size path is taken exactly when self.segment_size is None
        sw = field_tests(f, "segment_size")
        rep.exact("conservation", "tests of self.segment_size", len(sw), 1)
        if sw and takes:
            rep.ob("conservation", requires_failure(f, takes[0][0], sw) and requires(f, sb, sw), site(f, sw[0].bb), "mem::take on the no-segment-size path, split_to on the segmented path", skey(F, f, "path-split"))
