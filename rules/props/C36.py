"""C36 DNS server serves a zone only from packets signed by its key (provenance)."""
from ..lib import *
from ..analysis import reachable_fs

S = "iroh_dns_server::"
ZS = S + "store::ZoneStore"
SP = "iroh_dns::pkarr::SignedPacket"
CONV = S + "util::signed_packet_to_hickory_records_without_origin"


def check(F, rep):
    rep.clause("the only writer into the zone store is the HTTP publish handler, and what it stores is exactly the Ok value of SignedPacket::from_relay_payload(key-from-path, body) (authenticity: C32); store and cache keys derive from the packet's own key")
    rep.clause("cached zones are built only by CachedZone::from_signed_packet through one converter, in which a record enters the zone only if it is not SOA/NS and its last label equals the label derived from the packet's public key")
    rep.undecided("hickory's answer assembly from the cached record sets")
    # ---- who inserts
    cs = call_sites(F, ZS + "::insert", crates=["iroh_dns_server"])
    rep.floor("who_calls", "ZoneStore::insert call sites", len(cs), 1)
    for f, b, t, kind in cs:
        rep.fn(f)
        src = source_fn(F, f)
        rep.ob("who_calls", src == S + "http::pkarr::put" and kind == "call", site(f, b), "ZoneStore::insert called from %s" % src, skey(F, f, "insert-caller"))
        if kind != "call":
            continue
        s_ = copy_sources(f, op_base(t["args"][1]))
        rep.ob("provenance", bool(s_) and all(x[0] == "call" and x[1] == SP + "::from_relay_payload" for x in s_), site(f, b), "the stored packet is exactly the verified from_relay_payload(..) result; sources %s" % sorted(map(str, s_)), skey(F, f, "stores-verified"))
        frp = find_calls(f, SP + "::from_relay_payload")
        rep.exact("provenance", "from_relay_payload calls in put", len(frp), 1)
        if frp:
            ts, _ = call_result_tests(f, frp[0][0])
            rep.ob("requires_success", requires(f, b, ts), site(f, b), "insert requires Ok of from_relay_payload", skey(F, f, "insert-requires-verified"))
            du = defuse(f)
            k = op_base(frp[0][1]["args"][0])
            rep.ob("provenance", du.derives_from_call(k, "iroh_base::key::PublicKey::from_z32"), site(f, frp[0][0]), "the key the payload is verified against is parsed from the request path", skey(F, f, "key-from-path"))
    # ---- keys derive from the packet
    ins = body_of(F, rep, ZS + "::insert")
    fk = find_calls(ins, S + "util::PublicKeyBytes::from_signed_packet")
    ok = len(fk) == 1
    if ok:
        s_ = copy_sources(ins, op_base(fk[0][1]["args"][0]))
        ok = bool(s_) and all(x[0] == "arg" and x[2][-1:] == ("signed_packet",) for x in s_)
    rep.ob("provenance", ok, site(ins), "the cache key invalidated on publish is derived from the published packet itself", skey(F, ins, "cache-key-from-packet"))
    hm = get_fn(F, rep, S + "store::signed_packets::Actor::handle_message")
    ks = find_calls(hm, S + "util::PublicKeyBytes::from_signed_packet")
    rep.floor("provenance", "store key derivations from the packet in handle_message", len(ks), 1)
    pk = get_fn(F, rep, S + "util::PublicKeyBytes::from_signed_packet")
    pdu = defuse(pk)
    rep.ob("provenance", pdu.derives_from_call(0, SP + "::public_key") or pdu.derives_from_call(0, SP + "::as_bytes"), site(pk), "PublicKeyBytes::from_signed_packet reads the packet's embedded key", skey(F, pk, "key-bytes"))
    # ---- cached zones
    CZ = S + "store::CachedZone"
    for f, b, i, rv in ctor_sites(F, CZ, crates=["iroh_dns_server"]):
        rep.fn(f)
        ok = source_fn(F, f) == CZ + "::from_signed_packet"
        if ok:
            du = defuse(f)
            ok = du.derives_from_call(op_base(rv["ops"][rv["fields"].index("records")]), CONV)
        rep.ob("ctor_sites", ok, site(f, b), "CachedZone built only in from_signed_packet from the converter's output", skey(F, f, "zone-ctor"))
    conv_callers = call_sites(F, CONV, crates=["iroh_dns_server"])
    rep.floor("who_calls", "callers of the record converter", len(conv_callers), 1)
    # ---- the converter's filter
    from ..inline import inlined
    c = inlined(F, get_fn(F, rep, CONV))       # the zone-membership test may live in a helper
    du = defuse(c)
    entry = find_calls(c, regex=r"BTreeMap::entry$")
    rep.exact("filter", "output.entry(..) calls in the converter", len(entry), 1)
    rt = find_calls(c, regex=r"Record::record_type$")
    ne = [(b, t) for b, t in find_calls(c, "core::cmp::PartialEq::ne", "core::cmp::PartialEq::eq")]
    zone_cmp = []
    for b, t in ne:
        a0, a1 = op_base(t["args"][0]), op_base(t["args"][1])
        d0, d1 = du.closure(a0) | {a0}, du.closure(a1) | {a1}
        pkc = [x for x in (a0, a1) if du.derives_from_call(x, SP + "::public_key") and du.derives_from_call(x, "iroh_base::key::PublicKey::to_z32")]
        lbl = [x for x in (a0, a1) if du.derives_from_call(x, regex=r"DoubleEndedIterator::next_back$")]
        if pkc and lbl:
            zone_cmp.append((b, t))
    rep.exact("filter", "comparison of the record's last label with the key-derived zone label", len(zone_cmp), 1)
    if entry and zone_cmp:
        eb = entry[0][0]
        zb, zt = zone_cmp[0]
        ts, _ = call_result_tests(c, zb, family="bool")
        is_ne = is_call_to(zt, "core::cmp::PartialEq::ne")
        ok = requires_failure(c, eb, ts) if is_ne else requires(c, eb, ts)
        rep.ob("filter", ok, site(c, eb), "a record is inserted only if its last label == z32(packet.public_key())", skey(F, c, "zone-label-guard"))
    # SOA / NS
    if entry and rt:
        eb = entry[0][0]
        tl = None
        sw = None
        for b in sorted(c.reachable(0)):
            t = c.blocks[b]["t"]
            if t["k"] == "switch":
                for s in c.blocks[b]["s"]:
                    if s["k"] == "a" and s["rv"]["k"] == "discr" and s["rv"]["p"]["l"] == rt[0][1]["dest"]["l"] and op_local(t["d"]) == s["lhs"]["l"]:
                        sw = (b, t)
        ok = False
        nvals = 0
        if sw:
            b, t = sw
            explicit_edges = {(b, tb) for v, tb in t["targets"]}
            nvals = len(t["targets"])
            # entry must be unreachable when only the explicit (SOA, NS) edges are kept
            other_edge = {(b, t["otherwise"])}
            ok = eb not in reachable_fs(c, 0, removed_edges=other_edge) and nvals == 2
        rep.ob("filter", ok, site(c, eb), "records of the two excluded types (SOA, NS: %d explicit values tested) never reach the insertion" % nvals, skey(F, c, "soa-ns-excluded"))
    # who writes the tables -> C39
    query_key_label(F, rep)


def query_key_label(F, rep):
    """Query side: the zone key of a query name is the label directly below the origin."""
    PN = "iroh_dns_server::dns::node_zone_handler::parse_name_as_pkarr_with_origin"
    rep.clause("query side: the key under which a query is answered is decoded from exactly the label directly below the matched origin (`rev().skip(origin.num_labels()).next()` or `take(name.num_labels() - origin.num_labels()).next_back()`), never from a label found by searching")
    fs = F.fns_named(PN)
    if len(fs) != 1:
        rep.missing("query-key", PN)
        return
    f = rep.fn(fs[0])
    z = find_calls(f, regex=r"PublicKeyBytes::from_z32$")
    rep.exact("query-key", "from_z32 calls in parse_name_as_pkarr_with_origin", len(z), 1)
    if not z:
        return
    zb, zt = z[0]
    TR = ("core::str::converts::from_utf8", "n0_error::StdResultExt::anyerr", "core::option::Option::expect", "core::result::Result::expect", "core::option::Option::unwrap", "core::result::Result::unwrap")
    src = copy_sources(f, op_base(zt["args"][0]), transparent=TR)
    shape, why = False, "label source %s" % sorted(map(str, src))
    # which call produced the label
    prod = None
    l = op_base(zt["args"][0])
    for _ in range(12):
        dc = def_call(f, l) if l is not None else None
        if dc is None:
            # through `?` plumbing / payload copies
            nxt = None
            for b, i, st in f.stmts():
                if st["k"] == "a" and st["lhs"] == {"l": l} and st["rv"]["k"] in ("use", "cast") and st["rv"]["o"]["k"] in ("copy", "move"):
                    nxt = st["rv"]["o"]["p"]["l"]
                elif st["k"] == "a" and st["lhs"] == {"l": l} and st["rv"]["k"] == "ref":
                    nxt = st["rv"]["p"]["l"]
            if nxt is None:
                break
            l = nxt
            continue
        if call_matches(dc[1], r"Iterator::next$|DoubleEndedIterator::next_back$"):
            prod = dc
            break
        if not dc[1]["args"]:
            break
        l = op_base(dc[1]["args"][0])

    def num_labels_of(o, which):
        """operand is `<which>.num_labels()` (possibly cast)"""
        ll = op_base(o)
        for _ in range(4):
            d2 = def_call(f, ll) if ll is not None else None
            if d2 is not None:
                if not call_matches(d2[1], r"Name::num_labels$"):
                    return False
                x = copy_sources(f, op_base(d2[1]["args"][0]), transparent=("core::convert::Into::into", "core::convert::From::from"))
                if which == "origin":
                    return bool(x) and all(y[0] == "call" and y[1].endswith("Iterator::next") for y in x)
                return bool(x) and all(y[0] == "arg" and y[1] == 1 for y in x) or bool(x) and all(y[0] == "call" and re.search(r"Into::into$|From::from$", y[1]) for y in x)
            nxt = None
            for b, i, st in f.stmts():
                if st["k"] == "a" and st["lhs"] == {"l": ll} and st["rv"]["k"] in ("use", "cast") and st["rv"]["o"]["k"] in ("copy", "move"):
                    nxt = st["rv"]["o"]["p"]["l"]
            if nxt is None:
                return False
            ll = nxt
        return False
    if prod is not None:
        pb, pt = prod
        recv = op_base(pt["args"][0])
        # the adapter the label is taken from
        chain = []
        cur = recv
        for _ in range(8):
            d2 = def_call(f, cur) if cur is not None else None
            if d2 is None:
                nxt = None
                for b, i, st in f.stmts():
                    if st["k"] == "a" and st["lhs"] == {"l": cur}:
                        rv = st["rv"]
                        if rv["k"] == "use" and rv["o"]["k"] in ("copy", "move") and not rv["o"]["p"].get("p"):
                            nxt = rv["o"]["p"]["l"]
                        elif rv["k"] == "ref" and all(e[0] == "deref" for e in rv["p"].get("p", [])):
                            nxt = rv["p"]["l"]
                if nxt is None:
                    break
                cur = nxt
                continue
            chain.append(d2[1])
            cur = op_base(d2[1]["args"][0]) if d2[1]["args"] else None
        names = [callee_names(t)[0].rsplit("::", 1)[-1] for t in chain]
        is_next = callee_names(pt)[0].endswith("::next")
        if is_next and names[:3] == ["skip", "rev", "iter"]:
            shape = num_labels_of(chain[0]["args"][1], "origin")
            why = "rev().skip(origin.num_labels()).next(): skip count is the origin's label count: %s" % shape
        elif not is_next and names[:2] == ["take", "iter"]:
            cnt = op_base(chain[0]["args"][1])
            subs = []
            ll = cnt
            for _ in range(4):
                defs = [st["rv"] for b, i, st in f.stmts() if st["k"] == "a" and st["lhs"] == {"l": ll}]
                if len(defs) == 1 and defs[0]["k"] == "bin" and defs[0]["op"] in ("Sub", "SubWithOverflow"):
                    subs = [defs[0]]
                    break
                if len(defs) == 1 and defs[0]["k"] in ("use", "cast") and defs[0]["o"]["k"] in ("copy", "move"):
                    ll = defs[0]["o"]["p"]["l"]
                    continue
                break
            shape = bool(subs) and num_labels_of(subs[0]["a"], "name") and num_labels_of(subs[0]["b"], "origin")
            why = "take(name.num_labels() - origin.num_labels()).next_back(): %s" % shape
        else:
            why = "label taken by %s from adapter chain %s" % (callee_names(pt)[0].rsplit("::", 1)[-1], names[:4])
        # not inside a search loop over the labels: the producing call is executed at most once per origin
        inner_loop = pb in f.reachable(pt["t"], removed_blocks=set()) and any(call_matches(t2, r"Iterator::next$") and b2 != pb and pb in f.reachable(b2) and b2 in f.reachable(pb) and not any(True for _ in ()) for b2, t2 in f.calls() if False)
    rep.ob("query-key", shape, site(f, zb), "the public-key label is the one directly below the origin: %s" % why, skey(F, f, "key-label-position"))
