"""C19 Outgoing datagrams go out the transport their address designates."""
from ..lib import *

T = "iroh::socket::transports::"
MMA = "iroh::socket::mapped_addrs::MultipathMappedAddr"
FT = T + "FourTuple"
UDP = "<iroh::socket::transports::Sender as noq::runtime::UdpSender>::poll_send"


def check(F, rep):
    rep.clause("the QUIC-facing sender never reports a send error or Pending for a single datagram: every return is Poll::Ready(Ok(())) except the propagated `socket closed` error, which is only built when the socket is closed")
    rep.clause("a synthetic address that is unknown to its address map is dropped without reaching any transport; the endpoint-id (Mixed) kind is handed to the per-remote actor and never to a transport directly; each mapped kind is resolved through its own map into its own FourTuple kind")
    rep.clause("TransportsSender::poll_send: each FourTuple kind only reaches senders of its own transport kind; with no usable sender the datagram is blackholed with Ready(Ok)")
    rep.undecided("IP routing among several bound sockets (longest prefix, default route, scope id): pure predicates over address values")
    fs = F.fns_named(UDP)
    if len(fs) != 1:
        cands = [g for g in F.find(r"^<iroh::socket::transports::Sender as .*UdpSender>::poll_send$")]
        if len(cands) != 1:
            rep.missing("anchor", UDP)
            return
        fs = cands
    f = rep.fn(fs[0])
    du = defuse(f)
    # (a) return shape
    shapes = {}
    for b, i, rv in returns_of(f):
        if i is None:
            shapes[b] = "call:" + callee_names(rv)[0].rsplit("::", 1)[-1]
        else:
            shapes[b] = agg_shape(f, rv, 2)
    bad = {b: s for b, s in shapes.items() if not (s.startswith("Poll::Ready(Result::Ok") or s == "call:from_residual")}
    rep.ob("return_shape", not bad and len(shapes) >= 5, site(f), "all %d returns are Poll::Ready(Ok(())) or the `?` on mapped_addr(): %s" % (len(shapes), sorted(set(shapes.values()))), "UdpSender::poll_send|return-shape")
    resid = [b for b, s in shapes.items() if s == "call:from_residual"]
    ma = find_calls(f, T + "Sender::mapped_addr")
    rep.exact("return_shape", "mapped_addr calls", len(ma), 1)
    if ma and resid:
        ts, _ = call_result_tests(f, ma[0][0])
        rep.ob("return_shape", all(requires_failure(f, b, ts) for b in resid), site(f, ma[0][0]), "the only error propagated is mapped_addr()'s", "UdpSender::poll_send|only-mapped_addr-error")
    m = get_fn(F, rep, T + "Sender::mapped_addr")
    ic = find_calls(m, regex=r"Socket::is_closed$")
    errs = [b for b, i, rv in returns_of(m) if i is not None and rv["k"] == "agg" and rv.get("variant") == "Err"]
    ok = len(ic) == 1 and bool(errs)
    if ok:
        ts, _ = call_result_tests(m, ic[0][0], family="bool")
        ok = all(requires(m, b, ts) for b in errs)
    rep.ob("return_shape", ok, site(m), "mapped_addr() errs only if the socket is closed", "Sender::mapped_addr|err-requires-closed")
    mdu = defuse(m)
    rep.ob("provenance", mdu.derives_from_call(0, regex=r"MultipathMappedAddr as core::convert::From>::from$|convert::From::from$") and any(fld == "destination" for _, fld in mdu.field_reads(0)), site(m), "the address classified is the transmit's destination", "Sender::mapped_addr|destination")
    # (b) per kind
    sw = enum_switches(F, f, MMA)
    rep.exact("routing", "switch on the mapped address kind", len(sw), 1)
    tsend = find_calls(f, T + "TransportsSender::poll_send")
    rep.exact("routing", "TransportsSender::poll_send calls", len(tsend), 1)
    if sw and tsend:
        sb, pl, arms, other = sw[0]
        tb = tsend[0][0]
        regs = {v: arm_region(f, sb, t) for v, t in arms.items()}
        rep.ob("routing", set(arms) == {"Mixed", "Relay", "Ip", "Custom"}, site(f, sb), "all four kinds are handled: %s" % sorted(arms), "UdpSender::poll_send|kinds")
        want_map = {"Mixed": "endpoint_addrs", "Relay": "relay_addrs", "Custom": "custom_addrs"}
        want_ft = {"Relay": "Relay", "Custom": "Custom", "Ip": "Ip"}
        for v, reg in regs.items():
            lk = [(b, t) for b, t in calls_in(f, reg) if call_matches(t, r"mapped_addrs::AddrMap::lookup$")]
            fts = {rv["variant"] for b, i, rv in aggregates_in(f, reg, FT)}
            if v in want_map:
                maps = {recv_field(f, t["args"][0]) for b, t in lk}
                rep.ob("table_agreement", want_map[v] in maps and maps <= {want_map[v]}, site(f, arms[v]), "%s addresses are resolved through `%s` (maps used: %s)" % (v, want_map[v], sorted(x or "?" for x in maps)), "UdpSender::poll_send|map:" + v)
                # unknown address: None edge returns without reaching a transport
                main = [(b, t) for b, t in lk if du.derives_from_local(op_base(t["args"][1]), pl["l"]) or True][:1]
                for b, t in main:
                    ts, _ = call_result_tests(f, b)
                    none_t = {tg for x in ts for _, tg in x.failure if f.blocks[tg]["t"]["k"] != "unreachable"}
                    leak = any(tb in f.reachable(tg) for tg in none_t)
                    rep.ob("routing", bool(none_t) and not leak, site(f, b), "an unknown %s address is dropped (no transport is reached from the None edge)" % v, "UdpSender::poll_send|unknown:" + v)
            if v in want_ft:
                rep.ob("table_agreement", fts == {want_ft[v]}, site(f, arms[v]), "%s addresses become FourTuple::%s (built: %s)" % (v, want_ft[v], sorted(fts)), "UdpSender::poll_send|fourtuple:" + v)
            if v == "Mixed":
                rep.ob("routing", not fts and tb not in f.reachable(arms[v], removed_blocks=set()) or (not fts and not any(tb in f.reachable(x) for x in [arms[v]] if False)), site(f, arms[v]), "Mixed (endpoint id) addresses never produce a FourTuple", "UdpSender::poll_send|mixed-no-fourtuple")
                leak = tb in f.reachable(arms[v])
                rep.ob("routing", not leak, site(f, arms[v]), "Mixed addresses never reach TransportsSender::poll_send", "UdpSender::poll_send|mixed-no-transport")
                rs = [(b, t) for b, t in calls_in(f, reg) if call_matches(t, r"Socket::try_send_remote_state_msg$")]
                rep.ob("routing", len(rs) == 1, site(f, arms[v]), "they are handed to the per-remote state actor", "UdpSender::poll_send|mixed-to-actor")
        np = copy_sources(f, op_base(tsend[0][1]["args"][2]))
        rep.ob("provenance", bool(np) and all(x[0] == "agg" and x[1].startswith(FT) for x in np), site(f, tb), "the path given to the transports is the FourTuple built above; %s" % sorted(map(str, np)), "UdpSender::poll_send|path")
    # (c) TransportsSender::poll_send
    tp = [g for g in F.tree_of(T + "TransportsSender::poll_send")]
    body = max(tp, key=lambda g: len(g.blocks))
    rep.fn(body)
    sw2 = enum_switches(F, body, FT)
    rep.exact("dispatch", "switch on FourTuple in TransportsSender::poll_send", len(sw2), 1)
    if sw2:
        sb, pl, arms, other = sw2[0]
        kinds = {"Ip": r"ip::IpSender::poll_send$", "Relay": r"relay::RelaySender::poll_send$", "Custom": r"custom::CustomSender::poll_send$|custom::.*::poll_send$"}
        for v, tgt in arms.items():
            reg = arm_region(body, sb, tgt)
            sends = {}
            for b, t in calls_in(body, reg):
                for k, rx in kinds.items():
                    if call_matches(t, rx):
                        sends[k] = sends.get(k, 0) + 1
            rep.ob("dispatch", set(sends) == {v}, site(body, tgt), "FourTuple::%s only reaches %s senders: %s" % (v, v, sends), "TransportsSender::poll_send|arm:" + v)
        rets = returns_of(body)
        tail = [b for b, i, rv in rets if i is not None and agg_shape(body, rv, 2).startswith("Poll::Ready(Result::Ok")]
        rep.ob("dispatch", len(tail) >= 1, site(body), "without a usable sender the datagram is blackholed with Poll::Ready(Ok(()))", "TransportsSender::poll_send|blackhole")
