"""C19 Outgoing datagrams go out the transport their address designates."""
from ..lib import *
from ..booltab import Unsupported

T = "iroh::socket::transports::"
MMA = "iroh::socket::mapped_addrs::MultipathMappedAddr"
FT = T + "FourTuple"
UDP = "<iroh::socket::transports::Sender as noq::runtime::UdpSender>::poll_send"


def check(F, rep):
    rep.clause("the QUIC-facing sender never reports a send error or Pending for a single datagram: every return is Poll::Ready(Ok(())) except the propagated `socket closed` error, which is only built when the socket is closed")
    rep.clause("a synthetic address that is unknown to its address map is dropped without reaching any transport; the endpoint-id (Mixed) kind is handed to the per-remote actor and never to a transport directly; each mapped kind is resolved through its own map into its own FourTuple kind")
    rep.clause("TransportsSender::poll_send: each FourTuple kind only reaches senders of its own transport kind; with no usable sender the datagram is blackholed with Ready(Ok)")
    rep.clause("IP socket selection, as a table of relations (not values): with a source address a socket matches only through `wildcard(ip_net.addr()) || ip_net.addr() == src`; without one only through `ip_net.contains(dst.ip())` or (link-local v6) `scope_id == dst.scope_id()`; the default-route predicate depends on nothing but `is_default` and the family; the specific sockets of the destination's family are searched first (sorted by descending prefix length at bind time), the family's default-route socket is consulted only when none matched")
    rep.undecided("that ipnet's contains()/addr() and std's is_unspecified()/is_unicast_link_local() compute what their names say; exhaustive evaluation over address values")
    fs = F.fns_named(UDP)
    if len(fs) != 1:
        cands = [g for g in F.find(r"^<iroh::socket::transports::Sender as .*UdpSender>::poll_send$")]
        if len(cands) != 1:
            rep.missing("anchor", UDP)
            return
        fs = cands
    f = rep.fn(fs[0])
    du = defuse(f)
    # (a) return shape
    shapes = {}
    for b, i, rv in returns_of(f):
        if i is None:
            shapes[b] = "call:" + callee_names(rv)[0].rsplit("::", 1)[-1]
        else:
            shapes[b] = agg_shape(f, rv, 2)
    bad = {b: s for b, s in shapes.items() if not (s.startswith("Poll::Ready(Result::Ok") or s == "call:from_residual")}
    rep.ob("return_shape", not bad and len(shapes) >= 5, site(f), "all %d returns are Poll::Ready(Ok(())) or the `?` on mapped_addr(): %s" % (len(shapes), sorted(set(shapes.values()))), "UdpSender::poll_send|return-shape")
    resid = [b for b, s in shapes.items() if s == "call:from_residual"]
    ma = find_calls(f, T + "Sender::mapped_addr")
    rep.exact("return_shape", "mapped_addr calls", len(ma), 1)
    if ma and resid:
        ts, _ = call_result_tests(f, ma[0][0])
        rep.ob("return_shape", all(requires_failure(f, b, ts) for b in resid), site(f, ma[0][0]), "the only error propagated is mapped_addr()'s", "UdpSender::poll_send|only-mapped_addr-error")
    m = get_fn(F, rep, T + "Sender::mapped_addr")
    ic = find_calls(m, regex=r"Socket::is_closed$")
    errs = [b for b, i, rv in returns_of(m) if i is not None and rv["k"] == "agg" and rv.get("variant") == "Err"]
    ok = len(ic) == 1 and bool(errs)
    if ok:
        ts, _ = call_result_tests(m, ic[0][0], family="bool")
        ok = all(requires(m, b, ts) for b in errs)
    rep.ob("return_shape", ok, site(m), "mapped_addr() errs only if the socket is closed", "Sender::mapped_addr|err-requires-closed")
    mdu = defuse(m)
    rep.ob("provenance", mdu.derives_from_call(0, regex=r"MultipathMappedAddr as core::convert::From>::from$|convert::From::from$") and any(fld == "destination" for _, fld in mdu.field_reads(0)), site(m), "the address classified is the transmit's destination", "Sender::mapped_addr|destination")
    # (b) per kind
    sw = enum_switches(F, f, MMA)
    rep.exact("routing", "switch on the mapped address kind", len(sw), 1)
    tsend = find_calls(f, T + "TransportsSender::poll_send")
    rep.exact("routing", "TransportsSender::poll_send calls", len(tsend), 1)
    if sw and tsend:
        sb, pl, arms, other = sw[0]
        tb = tsend[0][0]
        regs = {v: arm_region(f, sb, t) for v, t in arms.items()}
        rep.ob("routing", set(arms) == {"Mixed", "Relay", "Ip", "Custom"}, site(f, sb), "all four kinds are handled: %s" % sorted(arms), "UdpSender::poll_send|kinds")
        want_map = {"Mixed": "endpoint_addrs", "Relay": "relay_addrs", "Custom": "custom_addrs"}
        want_ft = {"Relay": "Relay", "Custom": "Custom", "Ip": "Ip"}
        for v, reg in regs.items():
            lk = [(b, t) for b, t in calls_in(f, reg) if call_matches(t, r"mapped_addrs::AddrMap::lookup$")]
            fts = {rv["variant"] for b, i, rv in aggregates_in(f, reg, FT)}
            if v in want_map:
                maps = {recv_field(f, t["args"][0]) for b, t in lk}
                rep.ob("table_agreement", want_map[v] in maps and maps <= {want_map[v]}, site(f, arms[v]), "%s addresses are resolved through `%s` (maps used: %s)" % (v, want_map[v], sorted(x or "?" for x in maps)), "UdpSender::poll_send|map:" + v)
                # unknown address: None edge returns without reaching a transport
                main = [(b, t) for b, t in lk if du.derives_from_local(op_base(t["args"][1]), pl["l"]) or True][:1]
                for b, t in main:
                    ts, _ = call_result_tests(f, b)
                    none_t = {tg for x in ts for _, tg in x.failure if f.blocks[tg]["t"]["k"] != "unreachable"}
                    leak = any(tb in f.reachable(tg) for tg in none_t)
                    rep.ob("routing", bool(none_t) and not leak, site(f, b), "an unknown %s address is dropped (no transport is reached from the None edge)" % v, "UdpSender::poll_send|unknown:" + v)
            if v in want_ft:
                rep.ob("table_agreement", fts == {want_ft[v]}, site(f, arms[v]), "%s addresses become FourTuple::%s (built: %s)" % (v, want_ft[v], sorted(fts)), "UdpSender::poll_send|fourtuple:" + v)
            if v == "Mixed":
                rep.ob("routing", not fts and tb not in f.reachable(arms[v], removed_blocks=set()) or (not fts and not any(tb in f.reachable(x) for x in [arms[v]] if False)), site(f, arms[v]), "Mixed (endpoint id) addresses never produce a FourTuple", "UdpSender::poll_send|mixed-no-fourtuple")
                leak = tb in f.reachable(arms[v])
                rep.ob("routing", not leak, site(f, arms[v]), "Mixed addresses never reach TransportsSender::poll_send", "UdpSender::poll_send|mixed-no-transport")
                rs = [(b, t) for b, t in calls_in(f, reg) if call_matches(t, r"Socket::try_send_remote_state_msg$")]
                rep.ob("routing", len(rs) == 1, site(f, arms[v]), "they are handed to the per-remote state actor", "UdpSender::poll_send|mixed-to-actor")
        np = copy_sources(f, op_base(tsend[0][1]["args"][2]))
        rep.ob("provenance", bool(np) and all(x[0] == "agg" and x[1].startswith(FT) for x in np), site(f, tb), "the path given to the transports is the FourTuple built above; %s" % sorted(map(str, np)), "UdpSender::poll_send|path")
    # (c) TransportsSender::poll_send
    tp = [g for g in F.tree_of(T + "TransportsSender::poll_send")]
    body = max(tp, key=lambda g: len(g.blocks))
    rep.fn(body)
    sw2 = enum_switches(F, body, FT)
    rep.exact("dispatch", "switch on FourTuple in TransportsSender::poll_send", len(sw2), 1)
    if sw2:
        sb, pl, arms, other = sw2[0]
        kinds = {"Ip": r"ip::IpSender::poll_send$", "Relay": r"relay::RelaySender::poll_send$", "Custom": r"custom::CustomSender::poll_send$|custom::.*::poll_send$"}
        for v, tgt in arms.items():
            reg = arm_region(body, sb, tgt)
            sends = {}
            for b, t in calls_in(body, reg):
                for k, rx in kinds.items():
                    if call_matches(t, rx):
                        sends[k] = sends.get(k, 0) + 1
            rep.ob("dispatch", set(sends) == {v}, site(body, tgt), "FourTuple::%s only reaches %s senders: %s" % (v, v, sends), "TransportsSender::poll_send|arm:" + v)
        rets = returns_of(body)
        tail = [b for b, i, rv in rets if i is not None and agg_shape(body, rv, 2).startswith("Poll::Ready(Result::Ok")]
        rep.ob("dispatch", len(tail) >= 1, site(body), "without a usable sender the datagram is blackholed with Poll::Ready(Ok(()))", "TransportsSender::poll_send|blackhole")

    ip_routing(F, rep, body)


IPC = "iroh::socket::transports::ip::"


def _opt_regions(f, arg):
    """(some_region, none_region) of the `match <arg>` on an Option argument."""
    for b in sorted(f.reachable(0)):
        t = f.blocks[b]["t"]
        if t["k"] != "switch":
            continue
        l = op_local(t["d"])
        for st in f.blocks[b]["s"]:
            if st["k"] == "a" and st["lhs"]["l"] == l and st["rv"]["k"] == "discr" and st["rv"]["p"]["l"] == arg and not st["rv"]["p"].get("p"):
                tg = dict((int(v), x) for v, x in t["targets"])
                some = tg.get(1, t["otherwise"])
                none = tg.get(0, t["otherwise"])
                return b, arm_region(f, b, some), arm_region(f, b, none)
    return None, set(), set()


def ip_routing(F, rep, body):
    # ---- Config::is_valid_send_addr: relation table
    f = get_fn(F, rep, IPC + "Config::is_valid_send_addr")
    sb, S, N = _opt_regions(f, 2)
    rep.ob("ip-table", sb is not None and bool(S) and bool(N), site(f), "is_valid_send_addr distinguishes `with source` from `without source`", skey(F, f, "src-split"))
    if sb is None:
        return
    ADDR, UNSPEC, EQ = r"Ipv[46]Net::addr$", r"Ipv[46]Addr::is_unspecified$", r"cmp::PartialEq::(eq|ne)$"
    IP, CONT, LL, SCOPE = r"SocketAddrV[46]::ip$", r"Ipv[46]Net::contains$", r"Ipv6Addr::is_unicast_link_local$", r"SocketAddrV6::scope_id$"

    def srcs(o):
        l = op_base(o)
        return copy_sources(f, l) if l is not None else set()

    def is_addr_of_net(o):
        x = srcs(o)
        if not x or not all(y[0] == "call" and re.search(ADDR, y[1]) for y in x):
            return False
        l = op_base(o)
        du = defuse(f)
        for cb, ct in du.origin_calls(l):
            if call_matches(ct, ADDR) and srcs(ct["args"][0]) != {("arg", 1, ("ip_net",))}:
                return False
        return True

    # with a source address
    other = [(b, t) for b, t in calls_in(f, S) if not (call_matches(t, ADDR) or call_matches(t, UNSPEC) or call_matches(t, EQ))]
    rep.ob("ip-table", not other, site(f, other[0][0] if other else sb),
           "with a source address the socket's net is related to it only through addr()/is_unspecified()/== (a socket bound to 192.168.1.5/24 must not claim source 192.168.1.77); other operations: %s" % sorted({callee_names(t)[0] for b, t in other}), skey(F, f, "src-exact-match"))
    eqs = [(b, t) for b, t in calls_in(f, S) if call_matches(t, EQ)]
    rep.floor("ip-table", "source equality tests (v4, v6)", len(eqs), 2)
    for b, t in eqs:
        a0, a1 = t["args"][0], t["args"][1]
        pair = (is_addr_of_net(a0) and all(x[0] == "arg" and x[1] == 2 for x in srcs(a1)) and bool(srcs(a1))) or \
               (is_addr_of_net(a1) and all(x[0] == "arg" and x[1] == 2 for x in srcs(a0)) and bool(srcs(a0)))
        rep.ob("ip-table", pair and callee_names(t)[0].endswith("::eq"), site(f, b), "the equality compares ip_net.addr() with the datagram's source address", skey(F, f, "eq-operands"))
    uns = [(b, t) for b, t in calls_in(f, S) if call_matches(t, UNSPEC)]
    rep.floor("ip-table", "wildcard tests (v4, v6)", len(uns), 2)
    utests = []
    for b, t in uns:
        rep.ob("ip-table", is_addr_of_net(t["args"][0]), site(f, b), "the wildcard test is on the bound address ip_net.addr()", skey(F, f, "wildcard-operand"))
        utests.append(call_result_tests(f, b, family="bool")[0])
    # without a source address
    other = [(b, t) for b, t in calls_in(f, N) if not any(call_matches(t, r) for r in (IP, CONT, LL, SCOPE))]
    rep.ob("ip-table", not other, site(f, other[0][0] if other else sb), "without a source the destination is related to the socket only through contains()/link-local scope; other operations: %s" % sorted({callee_names(t)[0] for b, t in other}), skey(F, f, "dst-relations"))
    cont = [(b, t) for b, t in calls_in(f, N) if call_matches(t, CONT)]
    rep.floor("ip-table", "destination containment tests (v4, v6)", len(cont), 2)
    ctests = []
    for b, t in cont:
        recv_ok = srcs(t["args"][0]) == {("arg", 1, ("ip_net",))}
        x = srcs(t["args"][1])
        dst_ok = bool(x) and all(y[0] == "call" and re.search(IP, y[1]) for y in x)
        if dst_ok:
            for cb, ct in defuse(f).origin_calls(op_base(t["args"][1])):
                if call_matches(ct, IP):
                    dst_ok = dst_ok and all(y[0] == "arg" and y[1] == 3 for y in srcs(ct["args"][0]))
        rep.ob("ip-table", recv_ok and dst_ok, site(f, b), "containment is tested between the socket's ip_net and the destination's ip", skey(F, f, "contains-operands"))
        if t["dest"]["l"] != 0:
            ctests.append(call_result_tests(f, b, family="bool")[0])
    lls = [call_result_tests(f, b, family="bool")[0] for b, t in calls_in(f, N) if call_matches(t, LL)]
    scope_eq = []
    for b, st, ts in cmp_tests(f, ops=("Eq",)):
        if b in N:
            a, c = srcs(st["rv"]["a"]), srcs(st["rv"]["b"])
            both = [a, c]
            fld = any(x == {("arg", 1, ("scope_id",))} for x in both)
            call = any(x and all(y[0] == "call" and re.search(SCOPE, y[1]) for y in x) for x in both)
            if fld and call:
                scope_eq.append(ts)
    # ---- the answer as a truth function over (source?, socket family, address family) x atoms
    from .. import booltab
    from ..booltab import Unsupported
    cfg = F.adt(IPC + "Config")
    cfg_d = {v["name"]: int(v["discr"]) for v in cfg["variants"]}

    def place_src(pl):
        """exact source of a (projected) place: (kind, index, fields)"""
        base = copy_sources(f, pl["l"])
        flds = tuple(e[2] if e[2] else str(e[1]) for e in pl.get("p", []) if e[0] == "f")
        if base == {("agg", "tuple")} and flds and flds[0].isdigit():
            for b_, i_, st in f.stmts():
                if st["k"] == "a" and st["lhs"] == {"l": pl["l"]} and st["rv"]["k"] == "agg":
                    o = st["rv"]["ops"][int(flds[0])]
                    if o["k"] in ("copy", "move"):
                        x = copy_sources(f, o["p"]["l"])
                        return {(y[0], y[1], tuple(y[2]) + tuple(e[2] if e[2] else str(e[1]) for e in o["p"].get("p", []) if e[0] == "f") + flds[1:]) for y in x}
        return {(y[0], y[1], tuple(y[2]) + flds) if len(y) == 3 else y for y in base}
    try:
        paths = booltab.extract(f)
        bad = []
        import itertools
        for has_src, sock_v6, addr_v6 in itertools.product((False, True), repeat=3):
            for unspec, eq, contains, ll, scope in itertools.product((False, True), repeat=5):
                def value_of(a):
                    if a.kind == "switch":
                        l = op_local(a.args[0])
                        for st in f.blocks[a.bb]["s"]:
                            if st["k"] == "a" and st["lhs"]["l"] == l and st["rv"]["k"] == "discr":
                                x = place_src(st["rv"]["p"])
                                vals = [int(z) for z, _ in f.blocks[a.bb]["t"]["targets"]]
                                pick = lambda w: w if w in vals else "otherwise"
                                if x == {("arg", 2, ())}:
                                    return pick(1 if has_src else 0)
                                if x == {("arg", 1, ())}:
                                    return pick(cfg_d["V6"] if sock_v6 else cfg_d["V4"])
                                if x == {("arg", 2, ("0",))} or x == {("arg", 3, ())}:
                                    return pick(1 if addr_v6 else 0)
                        raise Unsupported("branch at bb%d" % a.bb)
                    if a.kind == "call":
                        if call_matches(a.term, UNSPEC):
                            return unspec
                        if call_matches(a.term, EQ):
                            return eq == a.name.endswith("::eq")
                        if call_matches(a.term, CONT):
                            return contains
                        if call_matches(a.term, LL):
                            return ll
                        raise Unsupported("test %s at bb%d" % (a.name, a.bb))
                    if a.kind == "cmp" and a.name in ("Eq", "Ne"):
                        both = [srcs(a.args[0]), srcs(a.args[1])]
                        if any(x == {("arg", 1, ("scope_id",))} for x in both) and any(x and all(y[0] == "call" and re.search(SCOPE, y[1]) for y in x) for x in both):
                            return scope == (a.name == "Eq")
                    raise Unsupported("%s %s at bb%d" % (a.kind, a.name, a.bb))
                got = booltab.evaluate(paths, value_of)
                if sock_v6 != addr_v6:
                    want = False
                elif has_src:
                    want = unspec or eq
                elif not sock_v6:
                    want = contains
                else:
                    want = contains or (ll and scope)
                if got != want:
                    bad.append("%s, socket %s, address %s, wildcard=%s eq=%s contains=%s link-local=%s scope-eq=%s -> %s" % ("with source" if has_src else "no source", "v6" if sock_v6 else "v4", "v6" if addr_v6 else "v4", unspec, eq, contains, ll, scope, got))
        rep.ob("ip-table", not bad, site(f), "is_valid_send_addr as a truth function (256 valuations): with a source: same family and (wildcard or bound address == source); without: same family and (net contains destination, or for v6 link-local destination on the socket's scope); mismatches: %s" % bad[:3], skey(F, f, "send-addr-function"))
    except Unsupported as e:
        rep.ob("ip-table", False, site(f), "is_valid_send_addr could not be extracted as a truth function (unrecognised idiom, fails closed): %s" % e, skey(F, f, "send-addr-function"))
    # ---- Config::is_valid_default_addr as a function of (socket family, source?, families, flag)
    g = get_fn(F, rep, IPC + "Config::is_valid_default_addr")
    try:
        bad = default_addr_function(F, g)
        rep.ob("ip-table", not bad, site(g), "is_valid_default_addr, evaluated on all 32 valuations of (socket family, has source, source family, destination family, is_default flag), equals `is_default && socket family == family of the source if there is one else of the destination`; mismatches: %s" % bad[:4], skey(F, g, "default-function"))
    except Unsupported as e:
        rep.ob("ip-table", False, site(g), "is_valid_default_addr could not be evaluated (unrecognised idiom, fails closed): %s" % e, skey(F, g, "default-function"))
    # thin forwarders on IpSender
    for nm in ("is_valid_send_addr", "is_valid_default_addr"):
        h = get_fn(F, rep, IPC + "IpSender::" + nm)
        cs = [(b, t) for b, t in h.calls()]
        ok = len(cs) == 1 and is_call_to(cs[0][1], IPC + "Config::" + nm) and cs[0][1]["dest"]["l"] == 0
        if ok:
            t = cs[0][1]
            ok = copy_sources(h, op_base(t["args"][0])) == {("arg", 1, ("config",))} and copy_sources(h, op_base(t["args"][1])) == {("arg", 2, ())} and copy_sources(h, op_base(t["args"][2])) == {("arg", 3, ())}
        rep.ob("ip-table", ok, site(h), "IpSender::%s forwards (config, src, dst) unchanged to Config::%s" % (nm, nm), skey(F, h, "forwarder"))
    # ---- selection order in TransportsSender::poll_send
    du = defuse(body)
    for fam in ("v4", "v6"):
        it = find_calls(body, IPC + "IpTransportsSender::%s_iter_mut" % fam)
        df = find_calls(body, IPC + "IpTransportsSender::%s_default_mut" % fam)
        rep.exact("ip-order", "%s_iter_mut / %s_default_mut calls" % (fam, fam), (len(it), len(df)), (1, 1))
        if not (it and df):
            continue
        finds = [(b, t) for b, t in find_calls(body, "core::iter::traits::iterator::Iterator::find") if it[0][1]["dest"]["l"] in du.closure(op_base(t["args"][0]))]
        rep.exact("ip-order", "find() over the %s sockets" % fam, len(finds), 1)
        if not finds:
            continue
        fb, ft = finds[0]
        fts, _ = call_result_tests(body, fb)
        # the predicate closure
        cl = str(body.locals[op_base(ft["args"][1])])
        preds = [c for c in F.tree(body) if c is not body and c.kind == "Closure" and (":%d:" % c.line) in cl]
        okp = False
        for c in preds:
            cc = list(c.calls())
            okp = len(cc) == 1 and is_call_to(cc[0][1], IPC + "IpSender::is_valid_send_addr") and cc[0][1]["dest"]["l"] == 0
        rep.ob("ip-order", okp, site(body, fb), "the %s sockets are filtered by IpSender::is_valid_send_addr (and nothing else)" % fam, skey(F, body, "find-pred-" + fam))
        db = df[0][0]
        rep.ob("ip-order", requires_failure(body, db, fts), site(body, db), "the %s default-route socket is consulted only after no bound socket matched" % fam, skey(F, body, "default-after-" + fam))
        dts, _ = call_result_tests(body, db)
        vd = [(b, t) for b, t in find_calls(body, IPC + "IpSender::is_valid_default_addr") if requires(body, b, dts)]
        rep.exact("ip-order", "is_valid_default_addr on the %s default socket" % fam, len(vd), 1)
        sends = [(b, t) for b, t in find_calls(body, IPC + "IpSender::poll_send")]
        first = [(b, t) for b, t in sends if requires(body, b, fts)]
        second = [(b, t) for b, t in sends if requires_failure(body, b, fts) and requires(body, b, dts)]
        rep.ob("ip-order", len(first) == 1 and len(second) == 1, site(body, fb), "one send on the matched %s socket, one on the default socket (%d/%d)" % (fam, len(first), len(second)), skey(F, body, "sends-" + fam))
        if vd and second:
            vts, _ = call_result_tests(body, vd[0][0], family="bool")
            rep.ob("ip-order", requires(body, second[0][0], vts), site(body, second[0][0]), "the default-route socket is used only if is_valid_default_addr holds", skey(F, body, "default-guard-" + fam))
        if first:
            x = copy_sources(body, op_base(first[0][1]["args"][0]))
            rep.ob("ip-order", bool(x) and all(y[0] == "call" and y[1].endswith("Iterator::find") for y in x), site(body, first[0][0]), "the datagram is sent on the socket find() returned: %s" % sorted(map(str, x)), skey(F, body, "send-on-found-" + fam))
        if second:
            x = copy_sources(body, op_base(second[0][1]["args"][0]))
            rep.ob("ip-order", bool(x) and all(y[0] == "call" and y[1].endswith("%s_default_mut" % fam) for y in x), site(body, second[0][0]), "the fallback send is on the %s default-route socket: %s" % (fam, sorted(map(str, x))), skey(F, body, "send-on-default-" + fam))
    # the destination's family selects the family of sockets
    fam_sw = []
    for b in sorted(body.reachable(0)):
        t = body.blocks[b]["t"]
        if t["k"] != "switch":
            continue
        l = op_local(t["d"])
        for st in body.blocks[b]["s"]:
            if st["k"] == "a" and st["lhs"]["l"] == l and st["rv"]["k"] == "discr":
                ty = str(body.locals[st["rv"]["p"]["l"]]).replace("&", "").replace("mut ", "").strip()
                if ty.endswith("SocketAddr") and all(e[0] == "deref" for e in st["rv"]["p"].get("p", [])):
                    src = copy_sources(body, st["rv"]["p"]["l"])
                    if any("remote" in x[-1] for x in src if x[0] in ("arg", "place")):
                        fam_sw.append((b, dict((int(v), x) for v, x in t["targets"]), t["otherwise"]))
    rep.exact("ip-order", "match on the destination's address family", len(fam_sw), 1)
    if fam_sw:
        b, tg, oth = fam_sw[0]
        for fam, d in (("v4", 0), ("v6", 1)):
            reg = arm_region(body, b, tg.get(d, oth))
            mine = [cb for cb, ct in calls_in(body, reg) if call_matches(ct, r"IpTransportsSender::%s_(iter|default)_mut$" % fam)]
            foreign = [cb for cb, ct in calls_in(body, reg) if call_matches(ct, r"IpTransportsSender::v[46]_(iter|default)_mut$") and cb not in mine]
            rep.ob("ip-order", len(mine) == 2 and not foreign, site(body, tg.get(d, oth)), "a %s destination is only offered to %s sockets" % (fam, fam), skey(F, body, "family-" + fam))
    # family accessors read their own family's list
    for fam in ("v4", "v6"):
        a = get_fn(F, rep, IPC + "IpTransportsSender::%s_iter_mut" % fam)
        fr = {fld for _, fld in defuse(a).field_reads(0)} if hasattr(defuse(a), "field_reads") else set()
        rep.ob("ip-order", fam in fr and ({"v4", "v6"} - {fam}).isdisjoint(fr), site(a), "%s_iter_mut iterates the %s list: %s" % (fam, fam, sorted(fr)), skey(F, a, "family-list"))
        dmt = get_fn(F, rep, IPC + "IpTransportsSender::%s_default_mut" % fam)
        fr = {fld for _, fld in defuse(dmt).field_reads(0)}
        rep.ob("ip-order", {fam, "default_%s_index" % fam} <= fr and not ({"v4", "v6", "default_v4_index", "default_v6_index"} - {fam, "default_%s_index" % fam}) & fr, site(dmt), "%s_default_mut indexes the %s list with default_%s_index: %s" % (fam, fam, fam, sorted(fr)), skey(F, dmt, "family-default"))
    # ---- bind: sorted by descending prefix length; default index computed after sorting
    bd = [x for x in F.tree_of(IPC + "IpTransports::bind")]
    bf = max(bd, key=lambda x: len(x.blocks))
    rep.fn(bf)
    sorts = find_calls(bf, regex=r"sort_by_key$|sort_unstable_by_key$|sort_by$|sort_unstable_by$")
    rep.exact("ip-order", "sort calls in IpTransports::bind", len(sorts), 2)
    for b, t in sorts:
        cl = str(bf.locals[op_base(t["args"][1])])
        ks = [c for c in F.tree(bf) if c is not bf and c.kind == "Closure" and (":%d:" % c.line) in cl]
        ok = False
        for c in ks:
            names = [callee_names(ct)[0] for cb, ct in c.calls()]
            rev = any(rv["k"] == "agg" and "Reverse" in str(rv.get("adt")) for cb, i, rv in [(x, y, z["rv"]) for x, y, z in c.stmts() if z["k"] == "a"])
            ok = ok or (any(n.endswith("Config::prefix_len") for n in names) and rev)
            # comparator idiom: |a, b| b.prefix_len().cmp(&a.prefix_len())
            cmps = [(cb, ct) for cb, ct in c.calls() if call_matches(ct, r"^core::cmp::Ord::cmp$|^core::cmp::PartialOrd::partial_cmp$")]
            if len(cmps) == 1 and sum(1 for n in names if n.endswith("Config::prefix_len")) == 2:
                def which(o):
                    dc = def_call(c, ref_of_local(c, op_base(o)))
                    if dc is None or not call_matches(dc[1], r"Config::prefix_len$"):
                        return None
                    x = copy_sources(c, op_base(dc[1]["args"][0]))
                    return {y[1] for y in x if y[0] == "arg"}
                l_, r_ = which(cmps[0][1]["args"][0]), which(cmps[0][1]["args"][1])
                ok = ok or (l_ == {3} and r_ == {2})      # (b, a): descending
        rep.ob("ip-order", ok, site(bf, b), "bound sockets are sorted by Reverse(prefix_len): longest prefix is found first", skey(F, bf, "sort-desc"))
    poss = find_calls(bf, regex=r"Iterator::position$")
    rep.exact("ip-order", "default index computations", len(poss), 2)
    for b, t in poss:
        rep.ob("ip-order", all(bf.dominates(sb_, b) for sb_, _ in sorts), site(bf, b), "the default-route index is computed after sorting (it indexes the sorted list)", skey(F, bf, "index-after-sort"))


def ref_of_local(f, l):
    """local behind `&x` / `&*r` chains (or l itself)"""
    for _ in range(6):
        if l is None:
            return None
        nxt = None
        for b, i, st in f.stmts():
            if st["k"] == "a" and st["lhs"] == {"l": l} and st["rv"]["k"] == "ref" and all(e[0] == "deref" for e in st["rv"]["p"].get("p", [])):
                nxt = st["rv"]["p"]["l"]
        if nxt is None:
            return l
        l = nxt
    return l


def default_addr_function(F, g):
    """Concrete evaluation of the MIR of Config::is_valid_default_addr over the finite
    valuation space; returns the list of mismatching valuations."""
    import itertools
    adt = F.adt(IPC + "Config")
    vidx = {v["name"]: i for i, v in enumerate(adt["variants"])}
    if set(vidx) != {"V4", "V6"}:
        raise Unsupported("Config variants %s" % sorted(vidx))

    def tuple_def(l):
        ds = [st["rv"] for b, i, st in g.stmts() if st["k"] == "a" and st["lhs"] == {"l": l}]
        return ds[0] if len(ds) == 1 and ds[0]["k"] == "agg" and ds[0].get("ak") == "tuple" else None

    def kind(pl):
        base = pl["l"]
        flds = [(e[2] if e[2] else str(e[1])) for e in pl.get("p", []) if e[0] == "f"]
        for _ in range(6):
            td = tuple_def(base)
            if flds and td is not None and flds[0].isdigit() and int(flds[0]) < len(td["ops"]) and op_base(td["ops"][int(flds[0])]) is not None:
                base = op_base(td["ops"][int(flds[0])])
                flds = flds[1:]
            else:
                break
        srcs = {(x[0], x[1], tuple(x[2]) + tuple(flds)) for x in copy_sources(g, base) if len(x) == 3} if not (1 <= base <= g.argc and not [1 for b, i, st in g.stmts() if st["k"] == "a" and st["lhs"] == {"l": base}]) else {("arg", base, tuple(flds))}
        if len(srcs) != 1:
            return None
        k, n, fl = next(iter(srcs))
        if k != "arg":
            return None
        if n == 1 and not fl:
            return "sock"
        if n == 1 and fl[-1:] == ("is_default",):
            return "flag"
        if n == 2 and not fl:
            return "src_opt"
        if n == 2 and fl == ("0",):
            return "src"
        if n == 3 and not fl:
            return "dst"
        return None
    bad = []
    for sock_v4, has_src, src_v4, dst_v4, flag in itertools.product((True, False), repeat=5):
        env = {}

        def val_of_place(pl):
            k = kind(pl)
            if k == "flag":
                return flag
            if not pl.get("p") and pl["l"] in env:
                return env[pl["l"]]
            if all(e[0] == "deref" for e in pl.get("p", [])) and pl["l"] in env:
                return env[pl["l"]]
            return None

        def operand(o):
            if o["k"] == "const":
                v = str(o.get("v")).replace("const ", "")
                if v in ("true", "false"):
                    return v == "true"
                m = re.match(r"^(-?\d+)_", v)
                return int(m.group(1)) if m else None
            return val_of_place(o["p"])
        b, steps, result = 0, 0, None
        while True:
            steps += 1
            if steps > 400:
                raise Unsupported("loop")
            blk = g.blocks[b]
            for st in blk["s"]:
                if st["k"] != "a" or st["lhs"].get("p"):
                    continue
                l, rv = st["lhs"]["l"], st["rv"]
                v = None
                if rv["k"] == "discr":
                    k = kind(rv["p"])
                    if k == "sock":
                        v = vidx["V4"] if sock_v4 else vidx["V6"]
                    elif k == "src_opt":
                        v = 1 if has_src else 0
                    elif k == "src":
                        if not has_src:
                            raise Unsupported("source family read without a source at bb%d" % b)
                        v = 0 if src_v4 else 1
                    elif k == "dst":
                        v = 0 if dst_v4 else 1
                    else:
                        raise Unsupported("discriminant of an unrecognised place at bb%d" % b)
                elif rv["k"] in ("use", "cast"):
                    v = operand(rv["o"])
                elif rv["k"] == "ref":
                    v = val_of_place(rv["p"])
                elif rv["k"] == "un" and rv.get("op") == "Not":
                    x = operand(rv["a"])
                    v = (not x) if isinstance(x, bool) else None
                elif rv["k"] == "bin" and rv["op"] in ("Eq", "Ne", "BitAnd", "BitOr", "BitXor"):
                    x, y = operand(rv["a"]), operand(rv["b"])
                    if isinstance(x, bool) and isinstance(y, bool):
                        v = {"Eq": x == y, "Ne": x != y, "BitAnd": x and y, "BitOr": x or y, "BitXor": x != y}[rv["op"]]
                if v is None:
                    env.pop(l, None)
                else:
                    env[l] = v
            t = blk["t"]
            if t["k"] == "return":
                result = env.get(0)
                break
            if t["k"] in ("goto", "drop", "assert"):
                b = t["t"]
                continue
            if t["k"] == "call":
                n = callee_names(t)[0]
                m = re.search(r"(IpAddr|SocketAddr|Ipv4Addr|Ipv6Addr)::(is_ipv4|is_ipv6)$", n)
                a0 = t["args"][0] if t["args"] else None
                k = None
                if m and a0 is not None and a0["k"] in ("copy", "move"):
                    pl = a0["p"]
                    # receiver is `&place`: follow the reference
                    rs = ref_source_place(g, pl["l"]) if not pl.get("p") else pl
                    k = kind(rs) if rs else None
                if m is None or k not in ("src", "dst") or t["dest"].get("p"):
                    raise Unsupported("call %s at bb%d" % (n, b))
                if k == "src" and not has_src:
                    raise Unsupported("source family read without a source at bb%d" % b)
                is4 = src_v4 if k == "src" else dst_v4
                env[t["dest"]["l"]] = is4 if m.group(2) == "is_ipv4" else (not is4)
                b = t["t"]
                continue
            if t["k"] == "switch":
                x = operand(t["d"])
                if x is None:
                    raise Unsupported("branch on an unknown value at bb%d" % b)
                x = int(x)
                nxt = dict((int(p_), q_) for p_, q_ in t["targets"]).get(x, t["otherwise"])
                b = nxt
                continue
            raise Unsupported("terminator %s at bb%d" % (t["k"], b))
        want = flag and (sock_v4 == (src_v4 if has_src else dst_v4))
        if not has_src and not src_v4:
            pass
        if result is None:
            raise Unsupported("return value not determined")
        if result != want:
            bad.append("socket %s, %s, destination %s, is_default=%s -> %s" % ("v4" if sock_v4 else "v6", ("source %s" % ("v4" if src_v4 else "v6")) if has_src else "no source", "v4" if dst_v4 else "v6", flag, result))
    return sorted(set(bad))
