"""C11 Relay protocol version negotiation picks the best common version."""
import re as _re
from ..lib import *

PV = "iroh_relay::http::ProtocolVersion"
HS = "iroh_relay::server::http_server::"
ORD_METHODS = r"^core::iter::traits::iterator::Iterator::(max|max_by|max_by_key|min|min_by|min_by_key|last|next|find|reduce|fold)$"


def str_const(op):
    if op["k"] == "const":
        v = op.get("v")
        if isinstance(v, str) and v.startswith('"') or (isinstance(v, str) and v.startswith('const "')):
            return v[v.index('"') + 1:v.rindex('"')]
    return None


_PASS = ("core::clone::Clone::clone", "core::ops::try_trait::Try::branch", "core::option::Option::ok_or", "core::option::Option::ok_or_else",
         "core::result::Result::map_err", "core::result::Result::ok", "core::option::Option::copied", "core::option::Option::cloned",
         "core::option::Option::filter", "core::option::Option::take", "core::convert::Into::into", "core::convert::From::from")


def parsed_only(F, rep, g, local):
    """Sources of `local` (a ProtocolVersion or an Option/Result/ControlFlow around one) that are NOT
    `None` or a result of ProtocolVersion parsing.  Walks every definition through copies,
    payload projections, `?`, ok_or(_else), and_then(parser | closure returning parsed-only)."""
    bad = set()
    seen = set()

    def walk(g, l, d):
        if (g.path, l) in seen or d > 40:
            return
        seen.add((g.path, l))
        ds = [("stmt", st["rv"]) for b_, i_, st in g.stmts() if st["k"] == "a" and st["lhs"]["l"] == l and not st["lhs"].get("p")]
        ds += [("call", t) for b_, t in g.calls() if t["k"] == "call" and t["dest"]["l"] == l and not t["dest"].get("p")]
        if not ds:
            bad.add("%s (no definition: parameter or capture)" % ("_%d" % l))
            return
        for kind, x in ds:
            if kind == "stmt":
                rv = x
                if rv["k"] in ("use", "cast") and rv["o"]["k"] in ("copy", "move"):
                    walk(g, rv["o"]["p"]["l"], d + 1)
                elif rv["k"] == "ref":
                    walk(g, rv["p"]["l"], d + 1)
                elif rv["k"] in ("use", "cast") and rv["o"]["k"] == "const":
                    txt = str(rv["o"].get("def") or rv["o"].get("v") or "?")
                    if "None" not in txt:
                        bad.add("constant %s" % txt)
                elif rv["k"] == "agg" and rv.get("variant") in ("None",):
                    pass
                elif rv["k"] == "agg" and rv.get("variant") in ("Some", "Ok", "Continue"):
                    for o in rv["ops"]:
                        if o["k"] in ("copy", "move"):
                            walk(g, o["p"]["l"], d + 1)
                        else:
                            bad.add("constant %s" % (o.get("def") or o.get("v")))
                elif rv["k"] == "agg" and rv.get("variant") in ("Err", "Break"):
                    pass
                elif rv["k"] == "discr":
                    pass
                else:
                    bad.add("%s" % rv["k"] + (" " + str(rv.get("variant")) if rv.get("variant") else ""))
                continue
            t = x
            names = callee_names(t)
            if any(n == PV + "::match_from_str" or (n.endswith("TryFrom>::try_from") and PV in n) or n == "<%s as core::convert::TryFrom>::try_from" % PV for n in names):
                continue
            if any(n.endswith("FromResidual::from_residual") for n in names):
                continue
            if any(n in _PASS for n in names) and t["args"] and t["args"][0]["k"] in ("copy", "move"):
                walk(g, t["args"][0]["p"]["l"], d + 1)
                continue
            if any(n == "core::option::Option::and_then" for n in names) and len(t["args"]) == 2:
                fa = t["args"][1]
                if fa["k"] == "const" and norm(fa.get("fn", "") or "") == PV + "::match_from_str":
                    continue
                cl = op_base(fa)
                defs = [st for b_, i_, st in g.stmts() if cl is not None and st["k"] == "a" and st["lhs"] == {"l": cl} and st["rv"]["k"] == "agg" and st["rv"].get("ak") == "closure"]
                if len(defs) == 1 and F.has_fn(defs[0]["rv"]["def"]):
                    walk(rep.fn(F.fn(defs[0]["rv"]["def"])), 0, d + 1)
                    continue
            bad.add("result of %s" % (names[0] if names else "?"))
    walk(g, local, 0)
    return bad


def check(F, rep):
    rep.clause("the derived order of ProtocolVersion (declaration order) is strictly increasing in the numeric suffix of each variant's wire name; parser and printer tables agree; ALL lists every variant")
    rep.clause("the server selects with Iterator::max over the parsed offers; the selected value is the one echoed in Sec-WebSocket-Protocol and the one handed to the connection handler; the 101 response requires a successful selection")
    rep.clause("the client runs the version parsed from the response header and fails without one")
    rep.undecided("splitting / trimming of the header string (string semantics)")

    adt = F.adt(PV)
    variants = [v["name"] for v in adt["variants"]]
    # printer table: From<&ProtocolVersion> for &'static str
    printers = [F._get(k) for k in F.entries if k.startswith("iroh_relay::http::<impl core::convert::From<") and "ProtocolVersion> for &'static str>::from" in k]
    rep.floor("table", "From<ProtocolVersion> for &str impls", len(printers), 1)
    ptab = {}
    for g in printers:
        rep.fn(g)
        sw = enum_switches(F, g, PV)
        if len(sw) != 1:
            continue
        b, pl, arms, other = sw[0]
        for vs, region in arm_regions(g, b, arms).items():
            strs = set()
            for bb in region:
                for s in g.blocks[bb]["s"]:
                    if s["k"] == "a" and s["rv"]["k"] in ("use", "cast") and s["rv"]["o"]["k"] == "const":
                        c = str_const(s["rv"]["o"])
                        if c:
                            strs.add(c)
            for v in vs:
                ptab.setdefault(v, set()).update(strs)
    rep.ob("table", set(ptab) == set(variants) and all(len(s) == 1 for s in ptab.values()), PV, "printer maps every variant to exactly one wire name: %s" % {k: sorted(v) for k, v in ptab.items()}, PV + "|printer")
    # parser table: TryFrom<&str>
    parser = get_fn(F, rep, "<%s as core::convert::TryFrom>::try_from" % PV)
    qtab = {}
    for b, t in find_calls(parser, "core::cmp::PartialEq::eq"):
        lit = None
        for a in t["args"]:
            c = str_const(a)
            if c:
                lit = c
        if lit is None:
            continue
        tests, _ = call_result_tests(parser, b, family="bool")
        for bb, i, rv in aggregates_in(parser, parser.reachable(0), PV):
            # the arm target may be shared through a falseEdge goto: use edge-only reachability
            if requires(parser, bb, tests):
                qtab.setdefault(rv["variant"], set()).add(lit)
    rep.ob("table", qtab == ptab and bool(qtab), PV, "parser accepts exactly the printer's names: %s" % {k: sorted(v) for k, v in qtab.items()}, PV + "|parser-agrees")
    # monotone numeric suffix in declaration (= derived Ord) order
    nums = []
    for v in variants:
        names = sorted(ptab.get(v, ()))
        m = _re.search(r"(\d+)$", names[0]) if names else None
        nums.append(int(m.group(1)) if m else None)
    rep.ob("enum-order", None not in nums and all(a < b for a, b in zip(nums, nums[1:])), PV,
           "wire-name version numbers in declaration order: %s (must be strictly increasing: derived Ord = declaration order)" % dict(zip(variants, nums)), PV + "|order")
    ordimpl = [i for i in F.impls_of(adt=PV, trait_path="core::cmp::Ord")]
    rep.ob("enum-order", len(ordimpl) == 1 and ordimpl[0]["derived"], PV, "Ord for ProtocolVersion is the derived (declaration-order) impl", PV + "|derived-ord")
    # ALL lists every variant
    allc = F.fns_named(PV + "::ALL")
    if len(allc) == 1:
        listed = {rv["variant"] for _, _, rv in aggregates_in(allc[0], allc[0].reachable(0), PV)}
        rep.ob("table", listed == set(variants), PV + "::ALL", "ALL lists every variant: %s" % sorted(listed), PV + "|all")
    else:
        rep.missing("table", PV + "::ALL initialiser")

    # ---- server
    h = get_fn(F, rep, HS + "RelayServiceWithNotify::handle_relay_ws_upgrade") if F.has_fn(HS + "RelayServiceWithNotify::handle_relay_ws_upgrade") else None
    if h is None:
        cands = F.find(r"::handle_relay_ws_upgrade$")
        if len(cands) != 1:
            rep.missing("server", "handle_relay_ws_upgrade")
            return
        h = rep.fn(cands[0])
    # a maintainer may move the negotiation into a private helper: analyse the inlined view
    from ..inline import inlined
    h = inlined(F, h)
    du = defuse(h)
    sel = find_calls(h, regex=ORD_METHODS)
    sel = [(b, t) for b, t in sel if "ProtocolVersion" in h.locals[t["dest"]["l"]]]
    slot = None
    if not sel:
        # loop form: `let mut best: Option<ProtocolVersion> = None; for offered in .. { .. }`
        cands = [pl["l"] for n, pl in h.vars if not pl.get("p") and re.match(r"^core::option::Option<%s>$" % re.escape(PV), str(h.locals[pl["l"]]))
                 and sum(1 for b_, i_, st in h.stmts() if st["k"] == "a" and st["lhs"] == {"l": pl["l"]}) >= 2]
        if len(cands) == 1:
            slot = cands[0]
    rep.ob("server", len(sel) == 1 or slot is not None, site(h), "the offered versions are reduced to one selection (Iterator::max call or a running-maximum accumulator): %d selection calls, accumulator %s" % (len(sel), slot), skey(F, h, "selection-found"))
    is_selected = None      # predicate on copy_sources sets
    ts = []
    if len(sel) == 1:
        sb, stt = sel[0]
        rep.ob("server", is_call_to(stt, "core::iter::traits::iterator::Iterator::max"), site(h, sb), "selection is Iterator::max (greatest common version under the derived order); callee %s" % callee_names(stt)[0], skey(F, h, "uses-max"))
        mf = [x for x in du.origin_facts(op_base(stt["args"][0]), kinds=("const",)) if norm(x[4].get("fn", "") or "") == PV + "::match_from_str"]
        rep.ob("server", bool(mf), site(h, sb), "offers are parsed with ProtocolVersion::match_from_str", skey(F, h, "parses-offers"))
        hdr = [x for x in du.origin_facts(op_base(stt["args"][0]), kinds=("const",)) if (x[4].get("def") or "").endswith("SEC_WEBSOCKET_PROTOCOL")]
        rep.ob("server", bool(hdr), site(h, sb), "offers come from the Sec-WebSocket-Protocol request header", skey(F, h, "offers-header"))
        ts, tags = call_result_tests(h, sb)
        stop = ()
        is_selected = lambda cs: bool(cs) and all(x[0] == "call" and x[1] == "core::iter::traits::iterator::Iterator::max" for x in cs)
    elif slot is not None:
        from .. import booltab
        from ..booltab import Unsupported
        stop = (slot,)
        mfs = find_calls(h, PV + "::match_from_str")
        rep.exact("server", "match_from_str calls parsing the offers", len(mfs), 1)
        hdr = [x for x in du.origin_facts(slot, kinds=("const",)) if (x[4].get("def") or "").endswith("SEC_WEBSOCKET_PROTOCOL")]
        rep.ob("server", bool(hdr), site(h), "offers come from the Sec-WebSocket-Protocol request header", skey(F, h, "offers-header"))
        if mfs:
            mb, mt = mfs[0]
            rep.ob("server", True, site(h, mb), "offers are parsed with ProtocolVersion::match_from_str", skey(F, h, "parses-offers"))

            def src(o):
                l = op_base(o)
                return copy_sources(h, l, stop=stop) if l is not None else set()
            is_new = lambda o: bool(src(o)) and all(x[0] == "call" and x[1] == PV + "::match_from_str" and x[2] == ("0",) for x in src(o))
            is_old = lambda o: bool(src(o)) and all(x[0] == "place" and x[1] == slot and tuple(x[2]) == ("0",) for x in src(o))
            is_acc = lambda o: bool(src(o)) and all(x[0] == "place" and x[1] == slot and tuple(x[2]) == () for x in src(o))

            def closure_cmp(o, state):
                """truth value, for old-vs-new ordering `state`, of a closure `|old| <cmp of old and a captured new>`"""
                cl = op_base(o)
                defs = [st for b_, i_, st in h.stmts() if st["k"] == "a" and st["lhs"] == {"l": cl} and st["rv"]["k"] == "agg" and st["rv"].get("ak") == "closure"]
                if len(defs) != 1 or not F.has_fn(defs[0]["rv"]["def"]):
                    raise Unsupported("closure operand of the accumulator test")
                g = rep.fn(F.fn(defs[0]["rv"]["def"]))
                new_upvars = {name for name, cop in zip(g.upvars, defs[0]["rv"]["ops"]) if is_new(cop)}

                def role(x):
                    cs = copy_sources(g, op_base(x)) if op_base(x) is not None else set()
                    if cs and all(y[0] == "arg" and y[1] == 2 and not tuple(y[2]) for y in cs):
                        return "old"
                    if cs and all(y[0] == "arg" and y[1] == 1 and tuple(y[2])[-1:] and tuple(y[2])[-1] in new_upvars for y in cs):
                        return "new"
                    return None

                def cval(a2):
                    if a2.kind == "call" and call_matches(a2.term, r"^core::cmp::PartialOrd::(lt|le|gt|ge)$"):
                        op = a2.name.rsplit("::", 1)[-1]
                        rel = {"lt": ("lt",), "le": ("lt", "eq"), "gt": ("gt",), "ge": ("gt", "eq")}[op]
                        flip = {"lt": "gt", "gt": "lt", "eq": "eq"}
                        r0, r1 = role(a2.args[0]), role(a2.args[1])
                        if (r0, r1) == ("new", "old"):
                            return state in rel
                        if (r0, r1) == ("old", "new"):
                            return flip[state] in rel
                    raise Unsupported("test %s in closure %s" % (a2.name, g.path))
                return booltab.evaluate(booltab.extract(g), cval)
            # loop head: the iterator next() that dominates the parse
            heads = [b_ for b_, t_ in find_calls(h, "core::iter::traits::iterator::Iterator::next") if h.dominates(b_, mb) and b_ in h.reachable(mb)]
            tg = set()
            other_w = []
            for b_ in h.reachable(mt["t"]):
                for st in h.blocks[b_]["s"]:
                    if st["k"] == "a" and st["rv"]["k"] == "agg" and st["rv"].get("variant") == "Some" and str(h.locals[st["lhs"]["l"]]) == str(h.locals[slot]) and not st["lhs"].get("p"):
                        if is_new(st["rv"]["ops"][0]):
                            tg.add(b_)
                        elif not is_old(st["rv"]["ops"][0]):
                            other_w.append(b_)
            rep.ob("server", bool(tg) and not other_w and len(heads) == 1, site(h, mb), "the accumulator is only ever overwritten with Some(parsed offer) inside the loop over the offers", skey(F, h, "acc-writes"))
            if tg and len(heads) == 1:
                try:
                    paths = booltab.extract(h, target=tg, start=mt["t"], stop={heads[0]})
                    bad = []
                    for parsed in (False, True):
                        for state in ("empty", "lt", "eq", "gt"):
                            def value_of(a):
                                if a.kind == "switch":
                                    l = op_local(a.args[0])
                                    for st in h.blocks[a.bb]["s"]:
                                        if st["k"] == "a" and st["lhs"]["l"] == l and st["rv"]["k"] == "discr":
                                            pl = st["rv"]["p"]
                                            vals = [int(z) for z, _ in h.blocks[a.bb]["t"]["targets"]]
                                            if pl["l"] == slot or all(x[0] == "place" and x[1] == slot and tuple(x[2]) == () for x in copy_sources(h, pl["l"], stop=stop) or [("x",)]):
                                                w = 0 if state == "empty" else 1
                                                return w if w in vals else "otherwise"
                                            if pl["l"] == mt["dest"]["l"] or all(x[0] == "call" and x[1] == PV + "::match_from_str" and tuple(x[2]) == () for x in copy_sources(h, pl["l"], stop=stop) or [("x",)]):
                                                w = 1 if parsed else 0
                                                return w if w in vals else "otherwise"
                                    raise Unsupported("branch at bb%d" % a.bb)
                                if a.kind == "call" and call_matches(a.term, r"^core::cmp::PartialOrd::(lt|le|gt|ge)$"):
                                    op = a.name.rsplit("::", 1)[-1]
                                    rel = {"lt": ("lt",), "le": ("lt", "eq"), "gt": ("gt",), "ge": ("gt", "eq")}[op]
                                    flip = {"lt": "gt", "gt": "lt", "eq": "eq"}
                                    if is_new(a.args[0]) and is_old(a.args[1]):
                                        return state in rel
                                    if is_old(a.args[0]) and is_new(a.args[1]):
                                        return state != "empty" and flip[state] in rel
                                if a.kind == "call" and call_matches(a.term, r"^core::option::Option::(is_none_or|is_some_and)$") and is_acc(a.args[0]):
                                    # `best.is_none_or(|best| offered > best)`: the closure compares its
                                    # parameter (the selected version) with a captured parsed offer
                                    if state == "empty":
                                        return a.name.endswith("is_none_or")
                                    return closure_cmp(a.args[1], state)
                                raise Unsupported("test %s at bb%d" % (a.name, a.bb))
                            got = booltab.evaluate(paths, value_of)
                            if not parsed:
                                want = False
                            elif state == "eq":
                                continue      # equal versions are the same value: either answer is fine
                            else:
                                want = state in ("empty", "gt")
                            if got != want:
                                bad.append("offer parsed=%s, %s -> %s" % (parsed, {"empty": "nothing selected yet", "lt": "offer < selected", "gt": "offer > selected"}[state], "replaces" if got else "kept"))
                    rep.ob("server", not bad, site(h, min(tg)), "the accumulator is a running maximum over the parsed offers (greatest common version under the derived order); mismatches: %s" % bad, skey(F, h, "uses-max"))
                except Unsupported as e:
                    rep.ob("server", False, site(h, min(tg)), "accumulator update could not be extracted (unrecognised idiom, fails closed): %s" % e, skey(F, h, "uses-max"))
        # tests of the final selection: switches on the accumulator's discriminant after the loop
        for b_ in sorted(h.reachable(0)):
            t_ = h.blocks[b_]["t"]
            if t_["k"] == "switch":
                for st in h.blocks[b_]["s"]:
                    if st["k"] == "a" and st["rv"]["k"] == "discr" and st["rv"]["p"]["l"] == slot and not st["rv"]["p"].get("p") and op_local(t_["d"]) == st["lhs"]["l"] and not (mfs and b_ in h.reachable(mfs[0][0]) and h.dominates(mfs[0][0], b_)):
                        su, fa = switch_edges(h, b_, 1)
                        ts.append(Test(b_, su, fa, 0, "discr:option", False, None))
        is_selected = lambda cs: bool(cs) and all(x[0] == "place" and x[1] == slot and tuple(x[2]) == ("0",) for x in cs)
    if is_selected is not None:
        # response header
        thv = find_calls(h, PV + "::to_header_value")
        rep.exact("server", "to_header_value calls", len(thv), 1)
        okret = [b for b, i, rv in returns_of(h) if i is not None and rv["k"] == "agg" and rv.get("variant") == "Ok"]
        for b in okret:
            rep.ob("server", requires(h, b, ts), site(h, b), "the 101 response is returned only with a selected version (Some)", skey(F, h, "response-requires-selection"))
        sw = [x for x in du.origin_facts(0, kinds=("const",)) if (x[4].get("def") or "").endswith("StatusCode::SWITCHING_PROTOCOLS")]
        rep.ob("server", bool(sw), site(h), "the response status is SWITCHING_PROTOCOLS", skey(F, h, "status-101"))
        if thv:
            src_ = copy_sources(h, op_base(thv[0][1]["args"][0]), stop=stop)
            rep.ob("server", is_selected(src_), site(h, thv[0][0]),
                   "the echoed version is exactly the selected one; sources %s" % sorted(map(str, src_)), skey(F, h, "echo-selected"))
        # handler: the spawned async block captures the same value
        handler_calls = []
        for g in F.tree(h):
            for b, t in find_calls(g, HS + "Inner::relay_connection_handler"):
                handler_calls.append((g, b, t))
        rep.exact("server", "relay_connection_handler calls", len(handler_calls), 1)
        for g, b, t in handler_calls:
            rep.fn(g)
            src_ = copy_sources(g, op_base(t["args"][3]))
            ok = bool(src_) and all(x[0] == "arg" and x[2][-1:] == ("protocol_version",) for x in src_)
            # and the coroutine aggregate in h captures the selected local
            cap_ok = False
            for bb, i, s_ in h.stmts():
                if s_["k"] == "a" and s_["rv"]["k"] == "agg" and s_["rv"]["ak"] in ("coroutine", "closure") and s_["rv"]["def"] == g.path:
                    for o, name in zip(s_["rv"]["ops"], g.upvars):
                        if name == "protocol_version":
                            cap_ok = is_selected(copy_sources(h, op_base(o), stop=stop))
            rep.ob("server", ok and cap_ok, site(g, b), "the connection handler runs the selected version (captured by the spawned task)", skey(F, h, "handler-selected"))

    # ---- client
    c = body_of(F, rep, "iroh_relay::client::ClientBuilder::connect")
    cn = find_calls(c, "iroh_relay::client::conn::Conn::new")
    rep.floor("client", "Conn::new calls in ClientBuilder::connect", len(cn), 1)
    cdu = defuse(c)
    for b, t in cn:
        v = op_base(t["args"][3])
        mentions = [x for x in cdu.origin_facts(v, kinds=("const",)) if norm(x[4].get("fn", "") or "") == PV + "::match_from_str"]
        direct = cdu.derives_from_call(v, PV + "::match_from_str")
        hdr = [x for x in cdu.origin_facts(v, kinds=("const",)) if (x[4].get("def") or "").endswith("SEC_WEBSOCKET_PROTOCOL")]
        bad_src = parsed_only(F, rep, c, v)
        rep.ob("client", not bad_src and bool(hdr), site(c, b), "the connection's version can only be a value parsed (match_from_str) from the response's Sec-WebSocket-Protocol header - no default or substitute%s" % ("; other sources: %s" % sorted(bad_src)[:4] if bad_src else ""), skey(F, c, "client-version"))
        # requires success of the parse
        parse_calls = [(pb, pt) for pb, pt in cdu.origin_calls(v) if call_matches(pt, r"^core::option::Option::(ok_or_else|ok_or)$")]
        ok = False
        for pb, pt in parse_calls:
            ts, _ = call_result_tests(c, pb)
            if requires(c, b, ts):
                ok = True
        # (a version that is only ever the payload of a parsed Some also cannot exist without a successful parse)
        rep.ob("client", ok or not bad_src, site(c, b), "Conn::new requires a successfully parsed version (no default)", skey(F, c, "client-requires-version"))
