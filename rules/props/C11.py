"""C11 Relay protocol version negotiation picks the best common version."""
import re as _re
from ..lib import *

PV = "iroh_relay::http::ProtocolVersion"
HS = "iroh_relay::server::http_server::"
ORD_METHODS = r"^core::iter::traits::iterator::Iterator::(max|max_by|max_by_key|min|min_by|min_by_key|last|next|find|reduce|fold)$"


def str_const(op):
    if op["k"] == "const":
        v = op.get("v")
        if isinstance(v, str) and v.startswith('"') or (isinstance(v, str) and v.startswith('const "')):
            return v[v.index('"') + 1:v.rindex('"')]
    return None


def check(F, rep):
    rep.clause("the derived order of ProtocolVersion (declaration order) is strictly increasing in the numeric suffix of each variant's wire name; parser and printer tables agree; ALL lists every variant")
    rep.clause("the server selects with Iterator::max over the parsed offers; the selected value is the one echoed in Sec-WebSocket-Protocol and the one handed to the connection handler; the 101 response requires a successful selection")
    rep.clause("the client runs the version parsed from the response header and fails without one")
    rep.undecided("splitting / trimming of the header string (string semantics)")

    adt = F.adt(PV)
    variants = [v["name"] for v in adt["variants"]]
    # printer table: From<&ProtocolVersion> for &'static str
    printers = [F._get(k) for k in F.entries if k.startswith("iroh_relay::http::<impl core::convert::From<") and "ProtocolVersion> for &'static str>::from" in k]
    rep.floor("table", "From<ProtocolVersion> for &str impls", len(printers), 1)
    ptab = {}
    for g in printers:
        rep.fn(g)
        sw = enum_switches(F, g, PV)
        if len(sw) != 1:
            continue
        b, pl, arms, other = sw[0]
        for vs, region in arm_regions(g, b, arms).items():
            strs = set()
            for bb in region:
                for s in g.blocks[bb]["s"]:
                    if s["k"] == "a" and s["rv"]["k"] in ("use", "cast") and s["rv"]["o"]["k"] == "const":
                        c = str_const(s["rv"]["o"])
                        if c:
                            strs.add(c)
            for v in vs:
                ptab.setdefault(v, set()).update(strs)
    rep.ob("table", set(ptab) == set(variants) and all(len(s) == 1 for s in ptab.values()), PV, "printer maps every variant to exactly one wire name: %s" % {k: sorted(v) for k, v in ptab.items()}, PV + "|printer")
    # parser table: TryFrom<&str>
    parser = get_fn(F, rep, "<%s as core::convert::TryFrom>::try_from" % PV)
    qtab = {}
    for b, t in find_calls(parser, "core::cmp::PartialEq::eq"):
        lit = None
        for a in t["args"]:
            c = str_const(a)
            if c:
                lit = c
        if lit is None:
            continue
        tests, _ = call_result_tests(parser, b, family="bool")
        for bb, i, rv in aggregates_in(parser, parser.reachable(0), PV):
            # the arm target may be shared through a falseEdge goto: use edge-only reachability
            if requires(parser, bb, tests):
                qtab.setdefault(rv["variant"], set()).add(lit)
    rep.ob("table", qtab == ptab and bool(qtab), PV, "parser accepts exactly the printer's names: %s" % {k: sorted(v) for k, v in qtab.items()}, PV + "|parser-agrees")
    # monotone numeric suffix in declaration (= derived Ord) order
    nums = []
    for v in variants:
        names = sorted(ptab.get(v, ()))
        m = _re.search(r"(\d+)$", names[0]) if names else None
        nums.append(int(m.group(1)) if m else None)
    rep.ob("enum-order", None not in nums and all(a < b for a, b in zip(nums, nums[1:])), PV,
           "wire-name version numbers in declaration order: %s (must be strictly increasing: derived Ord = declaration order)" % dict(zip(variants, nums)), PV + "|order")
    ordimpl = [i for i in F.impls_of(adt=PV, trait_path="core::cmp::Ord")]
    rep.ob("enum-order", len(ordimpl) == 1 and ordimpl[0]["derived"], PV, "Ord for ProtocolVersion is the derived (declaration-order) impl", PV + "|derived-ord")
    # ALL lists every variant
    allc = F.fns_named(PV + "::ALL")
    if len(allc) == 1:
        listed = {rv["variant"] for _, _, rv in aggregates_in(allc[0], allc[0].reachable(0), PV)}
        rep.ob("table", listed == set(variants), PV + "::ALL", "ALL lists every variant: %s" % sorted(listed), PV + "|all")
    else:
        rep.missing("table", PV + "::ALL initialiser")

    # ---- server
    h = get_fn(F, rep, HS + "RelayServiceWithNotify::handle_relay_ws_upgrade") if F.has_fn(HS + "RelayServiceWithNotify::handle_relay_ws_upgrade") else None
    if h is None:
        cands = F.find(r"::handle_relay_ws_upgrade$")
        if len(cands) != 1:
            rep.missing("server", "handle_relay_ws_upgrade")
            return
        h = rep.fn(cands[0])
    # a maintainer may move the negotiation into a private helper: analyse the inlined view
    from ..inline import inlined
    h = inlined(F, h)
    du = defuse(h)
    sel = find_calls(h, regex=ORD_METHODS)
    sel = [(b, t) for b, t in sel if "ProtocolVersion" in h.locals[t["dest"]["l"]]]
    rep.exact("server", "selection call on the offered versions", len(sel), 1)
    if sel:
        sb, stt = sel[0]
        rep.ob("server", is_call_to(stt, "core::iter::traits::iterator::Iterator::max"), site(h, sb), "selection is Iterator::max (greatest common version under the derived order); callee %s" % callee_names(stt)[0], skey(F, h, "uses-max"))
        mf = [x for x in du.origin_facts(op_base(stt["args"][0]), kinds=("const",)) if norm(x[4].get("fn", "") or "") == PV + "::match_from_str"]
        rep.ob("server", bool(mf), site(h, sb), "offers are parsed with ProtocolVersion::match_from_str", skey(F, h, "parses-offers"))
        hdr = [x for x in du.origin_facts(op_base(stt["args"][0]), kinds=("const",)) if (x[4].get("def") or "").endswith("SEC_WEBSOCKET_PROTOCOL")]
        rep.ob("server", bool(hdr), site(h, sb), "offers come from the Sec-WebSocket-Protocol request header", skey(F, h, "offers-header"))
        tests, _ = call_result_tests(h, sb)
        # the chosen version local
        chosen = set()
        for l, (fam, neg, lvl) in _[0].items() if False else []:
            pass
        ts, tags = call_result_tests(h, sb)
        # response header
        thv = find_calls(h, PV + "::to_header_value")
        rep.exact("server", "to_header_value calls", len(thv), 1)
        okret = [b for b, i, rv in returns_of(h) if i is not None and rv["k"] == "agg" and rv.get("variant") == "Ok"]
        for b in okret:
            rep.ob("server", requires(h, b, ts), site(h, b), "the 101 response is returned only with a selected version (Some)", skey(F, h, "response-requires-selection"))
        sw = [x for x in du.origin_facts(0, kinds=("const",)) if (x[4].get("def") or "").endswith("StatusCode::SWITCHING_PROTOCOLS")]
        rep.ob("server", bool(sw), site(h), "the response status is SWITCHING_PROTOCOLS", skey(F, h, "status-101"))
        if thv:
            src = copy_sources(h, op_base(thv[0][1]["args"][0]))
            rep.ob("server", bool(src) and all(x[0] == "call" and x[1] == "core::iter::traits::iterator::Iterator::max" for x in src), site(h, thv[0][0]),
                   "the echoed version is exactly the selected one; sources %s" % sorted(map(str, src)), skey(F, h, "echo-selected"))
        # handler: the spawned async block captures the same value
        handler_calls = []
        for g in F.tree(h):
            for b, t in find_calls(g, HS + "Inner::relay_connection_handler"):
                handler_calls.append((g, b, t))
        rep.exact("server", "relay_connection_handler calls", len(handler_calls), 1)
        for g, b, t in handler_calls:
            rep.fn(g)
            src = copy_sources(g, op_base(t["args"][3]))
            ok = bool(src) and all(x[0] == "arg" and x[2][-1:] == ("protocol_version",) for x in src)
            # and the coroutine aggregate in h captures the selected local
            cap_ok = False
            for bb, i, s in h.stmts():
                if s["k"] == "a" and s["rv"]["k"] == "agg" and s["rv"]["ak"] in ("coroutine", "closure") and s["rv"]["def"] == g.path:
                    for o, name in zip(s["rv"]["ops"], g.upvars):
                        if name == "protocol_version":
                            cs = copy_sources(h, op_base(o))
                            cap_ok = bool(cs) and all(x[0] == "call" and x[1] == "core::iter::traits::iterator::Iterator::max" for x in cs)
            rep.ob("server", ok and cap_ok, site(g, b), "the connection handler runs the selected version (captured by the spawned task)", skey(F, h, "handler-selected"))

    # ---- client
    c = body_of(F, rep, "iroh_relay::client::ClientBuilder::connect")
    cn = find_calls(c, "iroh_relay::client::conn::Conn::new")
    rep.floor("client", "Conn::new calls in ClientBuilder::connect", len(cn), 1)
    cdu = defuse(c)
    for b, t in cn:
        v = op_base(t["args"][3])
        mentions = [x for x in cdu.origin_facts(v, kinds=("const",)) if norm(x[4].get("fn", "") or "") == PV + "::match_from_str"]
        direct = cdu.derives_from_call(v, PV + "::match_from_str")
        hdr = [x for x in cdu.origin_facts(v, kinds=("const",)) if (x[4].get("def") or "").endswith("SEC_WEBSOCKET_PROTOCOL")]
        rep.ob("client", (bool(mentions) or direct) and bool(hdr), site(c, b), "the connection's version is parsed (match_from_str) from the response's Sec-WebSocket-Protocol header", skey(F, c, "client-version"))
        # requires success of the parse
        parse_calls = [(pb, pt) for pb, pt in cdu.origin_calls(v) if call_matches(pt, r"^core::option::Option::(ok_or_else|ok_or)$")]
        ok = False
        for pb, pt in parse_calls:
            ts, _ = call_result_tests(c, pb)
            if requires(c, b, ts):
                ok = True
        rep.ob("client", ok, site(c, b), "Conn::new requires a successfully parsed version (no default)", skey(F, c, "client-requires-version"))
