"""C23 Path pruning bounds stale paths without discarding live ones (relational clauses)."""
from ..lib import *

PS = "iroh::socket::remote_map::remote_state::path_state::"
FN = PS + "prune_non_relay_paths"
STATUS = PS + "PathStatus"
MAXP = PS + "MAX_NON_RELAY_PATHS"
MAXI = PS + "MAX_INACTIVE_NON_RELAY_PATHS"


def _const_val(F, path):
    try:
        c = F.const(path)
    except KeyError:
        return None
    m = re.match(r"^(?:const )?(\d+)_usize$", str(c.get("v") if isinstance(c, dict) else c))
    return int(m.group(1)) if m else None


def _closure_of(F, f, o):
    l = op_base(o)
    if l is None:
        return None
    m = re.search(r"closure@[^:]+:(\d+):(\d+)", str(f.locals[l]))
    if not m:
        return None
    for c in F.tree(f):
        if c is not f and c.kind == "Closure" and c.line == int(m.group(1)) and c.path.count("{closure") == f.path.count("{closure") + 1:
            cols = re.search(r":%s:(\d+): " % m.group(1), str(f.locals[l]))
            return c
    return None


def check(F, rep):
    rep.clause("candidates: only paths whose status is Unusable (failed) or Inactive (closed), taken from the non-relay entries of the map, can enter the prune set; retain() removes exactly the prune set - so an open path, a path of unknown status and a relay path are never removed")
    rep.clause("threshold: nothing is removed unless the number of non-relay paths is at least MAX_NON_RELAY_PATHS (30)")
    rep.clause("recency: the closed paths are ordered most-recently-closed first and the ones kept are the first min(n, MAX_INACTIVE_NON_RELAY_PATHS) of that order, for every n (the index expression is evaluated for n = 0..40); at least one closed path survives whenever there is one - which, with the candidates clause and the all-failed clause, is what keeps a non-empty map non-empty")
    rep.clause("all failed: the failed list is cut down only when every path failed, and then to len - MAX_NON_RELAY_PATHS entries, i.e. exactly 30 paths stay")
    rep.undecided("the time values themselves (which Instant is larger); HashMap/Vec library semantics")
    f = get_fn(F, rep, FN)
    du = defuse(f)
    maxp, maxi = 30, 10
    for path, want in ((MAXP, 30), (MAXI, 10)):
        try:
            c = F.const(path)
            m = re.match(r"^(\d+)_usize$", str(c.get("val")))
            v = int(m.group(1)) if m else None
        except KeyError:
            v = None
        rep.ob("threshold", v == want, path, "%s = %s (property: %d)" % (path.rsplit("::", 1)[-1], v, want), path.rsplit("::", 1)[-1] + "|value")
    # ---- the iteration source: non-relay entries of the map
    def relay_filter_closure(o):
        c = _closure_of(F, f, o)
        if c is None:
            return False
        cc = list(c.calls())
        nots = [s_ for b_, i_, s_ in c.stmts() if s_["k"] == "a" and s_["lhs"]["l"] == 0 and s_["rv"]["k"] == "un" and s_["rv"].get("op") == "Not"]
        ok = len(cc) == 1 and call_matches(cc[0][1], r"transports::Addr::is_relay$") and len(nots) == 1 and op_local(nots[0]["rv"]["a"]) == cc[0][1]["dest"]["l"]
        if ok:
            rep.fn(c)
        return ok

    def chain_info(l, depth=0):
        """walk an iterator / collection value back to its root: (has !is_relay filter, root is the path map)"""
        filt, root = False, False
        for _ in range(12):
            if l is None:
                break
            dc = def_call(f, l)
            if dc is None:
                nxt = None
                for b_, i_, s_ in f.stmts():
                    if s_["k"] == "a" and s_["lhs"] == {"l": l}:
                        rv = s_["rv"]
                        if rv["k"] == "use" and rv["o"]["k"] in ("copy", "move") and not rv["o"]["p"].get("p"):
                            nxt = rv["o"]["p"]["l"]
                        elif rv["k"] == "ref" and all(e[0] == "deref" for e in rv["p"].get("p", [])):
                            nxt = rv["p"]["l"]
                if nxt is None:
                    root = copy_sources(f, l) == {("arg", 1, ())}
                    break
                l = nxt
                continue
            t = dc[1]
            if call_matches(t, r"Iterator::filter$"):
                filt = filt or relay_filter_closure(t["args"][1])
                l = op_base(t["args"][0])
            elif call_matches(t, r"IntoIterator::into_iter$|Iterator::collect$|Iterator::(map|enumerate|rev|by_ref|copied|cloned)$|slice::.*iter$|Vec::iter$|Deref::deref$"):
                l = op_base(t["args"][0])
            elif call_matches(t, r"HashMap::(iter|keys|values|iter_mut)$"):
                root = copy_sources(f, op_base(t["args"][0])) == {("arg", 1, ())}
                break
            else:
                break
        return filt, root
    filt = find_calls(f, "core::iter::traits::iterator::Iterator::filter")
    prim = None
    # ---- pushes: only in the Unusable / Inactive arms of the status match over those entries
    sw = [x for x in enum_switches(F, f, STATUS)]
    rep.floor("candidates", "tests of the path status", len(sw), 1)
    pushes = find_calls(f, regex=r"^alloc::vec::Vec::push$")
    rep.exact("candidates", "pushes onto the candidate lists", len(pushes), 2)
    lists = {}
    if sw:
        sb, pl, arms, other = sw[0]
        # the matched place is `(*entry.1).status` with entry = next() of an iterator over the
        # map's entries that passed the `!addr.is_relay()` filter (collected first or not)
        its = copy_sources(f, pl["l"])
        item_ok = bool(its) and all(x[0] == "call" and x[1].endswith("Iterator::next") for x in its)
        srcs_ok = []
        for b_, t_ in find_calls(f, "core::iter::traits::iterator::Iterator::next"):
            if sb in f.reachable(b_) and f.dominates(b_, sb):
                fl, rt = chain_info(op_base(t_["args"][0]))
                srcs_ok.append(fl and rt)
        rep.ob("candidates", item_ok and bool(srcs_ok) and all(srcs_ok), site(f, sb), "the entries whose status is matched are the map's entries filtered by `!addr.is_relay()`", skey(F, f, "non-relay-filter"))
        for b, t in pushes:
            # which status variants can reach this push: the push must become unreachable
            # when the variant's edge of some status test is removed (also through a
            # `matches!` flag or an if-let chain)
            from ..analysis import reachable_fs
            arm = sorted({v for sb_, pl_, arms_, other_ in sw for v, tb in arms_.items() if b not in reachable_fs(f, 0, removed_edges={(sb_, tb)})})
            recv = arg_ref_target(f, t["args"][0])
            val = op_base(t["args"][1])
            # the address pushed is (a clone of) the entry's key
            vs = copy_sources(f, val)
            if vs == {("agg", "tuple")}:
                for b2, i2, s2 in f.stmts():
                    if s2["k"] == "a" and s2["lhs"] == {"l": val} and s2["rv"]["k"] == "agg":
                        vs = copy_sources(f, op_base(s2["rv"]["ops"][0]))
            key_ok = bool(vs) and all(x[0] == "call" and x[1].endswith("Iterator::next") and tuple(x[2])[:2] == ("0", "0") for x in vs)
            ok = len(arm) == 1 and arm[0] in ("Inactive", "Unusable") and key_ok
            rep.ob("candidates", ok, site(f, b), "a path becomes a pruning candidate only in the %s arm and with its own address (arms: %s; sources %s)" % ("/".join(arm) or "?", arm, sorted(map(str, vs))), skey(F, f, "push-" + ("/".join(arm) or "other")))
            if len(arm) == 1:
                lists[arm[0]] = recv
    failed, inactive = lists.get("Unusable"), lists.get("Inactive")
    def root_kind(b, key_op):
        """which candidate list the key of a per-element call in a loop comes from"""
        k = copy_sources(f, op_base(key_op))
        okk = bool(k) and all(x[0] == "call" and x[1].endswith("Iterator::next") for x in k)
        kind = "other"
        for nb_, nt_ in find_calls(f, "core::iter::traits::iterator::Iterator::next"):
            if b in f.reachable(nb_) and f.dominates(nb_, b) and okk:
                l = op_base(nt_["args"][0])
                for _ in range(10):
                    dc = def_call(f, l) if l is not None else None
                    if dc is not None and call_matches(dc[1], r"IntoIterator::into_iter$|slice::.*iter$|Vec::iter$|Deref::deref$|Iterator::map$"):
                        l = op_base(dc[1]["args"][0])
                        continue
                    if dc is not None and call_matches(dc[1], r"Vec::split_off$"):
                        kind = "split"
                        break
                    nxt = None
                    for b_, i_, s_ in f.stmts():
                        if s_["k"] == "a" and s_["lhs"] == {"l": l}:
                            rv = s_["rv"]
                            if rv["k"] == "use" and rv["o"]["k"] in ("copy", "move") and not rv["o"]["p"].get("p"):
                                nxt = rv["o"]["p"]["l"]
                            elif rv["k"] == "ref" and all(e[0] == "deref" for e in rv["p"].get("p", [])):
                                nxt = rv["p"]["l"]
                    if nxt is None:
                        if l == failed:
                            kind = "failed"
                        break
                    if nxt == failed or l == failed:
                        kind = "failed"
                        break
                    l = nxt
        return kind
    # ---- retain removes exactly the prune set
    ret = find_calls(f, regex=r"HashMap::retain$")
    rems = [(b, t) for b, t in find_calls(f, regex=r"HashMap::remove$") if copy_sources(f, op_base(t["args"][0])) == {("arg", 1, ())}]
    so = find_calls(f, regex=r"^alloc::vec::Vec::split_off$")
    rep.exact("recency", "split_off calls", len(so), 1)
    removal_sites = [b for b, t in ret] + [b for b, t in rems]
    rep.ob("candidates", (len(ret) == 1 and not rems) or (not ret and len(rems) == 2), site(f), "entries are removed either by one retain(..) or by one remove loop per candidate list (%d retain, %d remove)" % (len(ret), len(rems)), skey(F, f, "removal-form"))
    if rems and not ret and failed is not None:
        kinds = [root_kind(b, t["args"][1]) for b, t in rems]
        rep.ob("candidates", sorted(kinds) == ["failed", "split"], site(f, rems[0][0]), "the removed keys are exactly the addresses of the failed list and of the split-off part of the closed list (%s)" % kinds, skey(F, f, "prune-set"))
    if ret:
        rb, rt = ret[0]
        rep.ob("candidates", copy_sources(f, op_base(rt["args"][0])) == {("arg", 1, ())}, site(f, rb), "retain is applied to the path map", skey(F, f, "retain-on-map"))
        c = _closure_of(F, f, rt["args"][1])
        okc = False
        if c is not None:
            rep.fn(c)
            from ..inline import inlined
            c = inlined(F, c, select=lambda f_, h_: h_.crate == f_.crate and h_.file == f_.file and h_.kind in ("Fn", "AssocFn") and not h_.coroutine and h_.vis != "pub" and len(h_.blocks) <= 40)
            cc = [(cb, ct) for cb, ct in c.calls()]
            nots = [s for b, i, s in c.stmts() if s["k"] == "a" and s["lhs"]["l"] == 0 and s["rv"]["k"] == "un" and s["rv"].get("op") == "Not"]
            from .. import booltab
            okc = len(cc) == 1 and call_matches(cc[0][1], r"HashSet::contains$") and copy_sources(c, op_base(cc[0][1]["args"][1])) == {("arg", 2, ())}
            if okc:
                try:
                    paths = booltab.extract(c)
                    okc = all(booltab.evaluate(paths, lambda a, v=v: v) == (not v) for v in (False, True))
                except booltab.Unsupported:
                    okc = False
        rep.ob("candidates", okc, site(f, rb), "retain keeps an entry iff its address is not in the prune set", skey(F, f, "retain-pred"))
        # the prune set = failed ++ addresses of the split-off part
        caps = [s["rv"] for b, i, s in f.stmts() if s["k"] == "a" and s["lhs"]["l"] == op_base(rt["args"][1]) and s["rv"]["k"] == "agg"]
        setl = None
        for rv in caps:
            for o in rv["ops"]:
                x = copy_sources(f, op_base(o))
                cl = [t for b, t in du.origin_calls(op_base(o)) if call_matches(t, r"Iterator::collect$")]
                if cl:
                    setl = cl[0]
        oks = False
        if setl is None and failed is not None:
            # the set is filled by explicit loops: `for addr in failed { set.insert(addr) }` ...
            setlocals = set()
            for rv in caps:
                for o in rv["ops"]:
                    setlocals |= chain_locals(f, op_base(o))
            ins = [(b, t) for b, t in find_calls(f, regex=r"HashSet::insert$") if arg_ref_target(f, t["args"][0]) in setlocals or chain_locals(f, op_base(t["args"][0])) & setlocals]
            kinds = [root_kind(b, t["args"][1]) for b, t in ins]
            oks = sorted(kinds) == ["failed", "split"]
        if setl is not None and so and failed is not None:
            # walk the iterator adapter chain feeding collect(): chain(a, b), map(x, _), into_iter(v)
            vecs, unknown = [], []
            work = [op_base(setl["args"][0])]
            while work:
                cur = work.pop()
                dc = def_call(f, cur)
                if dc is None:
                    unknown.append(cur)
                    continue
                t = dc[1]
                if call_matches(t, r"Iterator::chain$"):
                    work += [op_base(t["args"][0]), op_base(t["args"][1])]
                elif call_matches(t, r"Iterator::map$"):
                    mc = _closure_of(F, f, t["args"][1])
                    proj = mc is not None and not list(mc.calls()) and copy_sources(mc, 0) == {("arg", 2, ("0",))}
                    if not proj:
                        unknown.append(cur)
                    work.append(op_base(t["args"][0]))
                elif call_matches(t, r"IntoIterator::into_iter$"):
                    vecs.append(op_base(t["args"][0]))
                else:
                    unknown.append(cur)
            kinds = []
            for v in vecs:
                if failed in chain_locals(f, v):
                    kinds.append("failed")
                elif def_call(f, v) is not None and call_matches(def_call(f, v)[1], r"Vec::split_off$"):
                    kinds.append("split")
                else:
                    kinds.append("other")
            oks = sorted(kinds) == ["failed", "split"] and not unknown
        # threshold
        pass
    if removal_sites:
        rb = removal_sites[0]
        lts = []
        for cb, s_, ts in cmp_tests(f, ops=("Lt",)):
            if not (s_["rv"]["b"]["k"] == "const" and s_["rv"]["b"].get("def") == MAXP):
                continue
            al = op_base(s_["rv"]["a"])
            dc = def_call(f, al) if al is not None else None
            okc = False
            if dc is not None and call_matches(dc[1], r"Vec::len$"):
                fl, rt_ = chain_info(arg_ref_target(f, dc[1]["args"][0]))
                okc = fl and rt_
            elif dc is not None and call_matches(dc[1], r"Iterator::count$"):
                fl, rt_ = chain_info(op_base(dc[1]["args"][0]))
                okc = fl and rt_
            if okc:
                lts.append(ts)
        rep.ob("threshold", len(lts) == 1 and all(requires_failure(f, x, lts[0]) for x in removal_sites), site(f, rb), "entries are removed only when `<number of non-relay paths> < MAX_NON_RELAY_PATHS` is false", skey(F, f, "threshold"))
    # ---- recency
    if so and inactive is not None:
        sb_, st = so[0]
        rep.ob("recency", arg_ref_target(f, st["args"][0]) == inactive, site(f, sb_), "split_off is applied to the closed-paths list", skey(F, f, "split-on-inactive"))
        sorts = [(b, t) for b, t in find_calls(f, regex=r"sort_by_key$|sort_unstable_by_key$|sort_by$|sort_unstable_by$") if inactive in du.closure(op_base(t["args"][0])) | copy_source_locals(f, op_base(t["args"][0]))]
        desc = False
        if len(sorts) == 1 and f.dominates(sorts[0][0], sb_):
            c = _closure_of(F, f, sorts[0][1]["args"][1])
            if c is not None:
                rep.fn(c)
                rets = [(b, i, rv) for b, i, rv in returns_of(c) if i is not None]
                desc = len(rets) == 1 and rets[0][2]["k"] == "agg" and "Reverse" in str(rets[0][2].get("adt")) and copy_sources(c, op_base(rets[0][2]["ops"][0])) == {("arg", 2, ("1",))}
                # comparator idiom: |a, b| b.1.cmp(&a.1)
                cmps = [(cb, ct) for cb, ct in c.calls() if call_matches(ct, r"^core::cmp::Ord::cmp$|^core::cmp::PartialOrd::partial_cmp$")]
                if not desc and len(cmps) == 1 and cmps[0][1]["dest"]["l"] == 0:
                    x0 = copy_sources(c, op_base(cmps[0][1]["args"][0]))
                    x1 = copy_sources(c, op_base(cmps[0][1]["args"][1]))
                    desc = x0 == {("arg", 3, ("1",))} and x1 == {("arg", 2, ("1",))}
        rep.ob("recency", desc, site(f, sorts[0][0] if sorts else sb_), "before splitting, the closed paths are sorted by Reverse(close time): most recently closed first", skey(F, f, "sorted-desc"))
        # index expression as a function of n = inactive.len()
        at = st["args"][1]

        def eval_at(o, n):
            if o["k"] == "const":
                if o.get("def") == MAXI:
                    return maxi
                if o.get("def") == MAXP:
                    return maxp
                m = re.match(r"^(?:const )?(\d+)_usize$", str(o.get("v")))
                return int(m.group(1)) if m else None
            l = op_base(o)
            calls = [(b, t) for b, t in f.calls() if t["dest"]["l"] == l and not t["dest"].get("p")]
            defs = [s for b, i, s in f.stmts() if s["k"] == "a" and s["lhs"] == {"l": l}]
            if len(calls) == 1 and not defs:
                t = calls[0][1]
                if call_matches(t, r"Vec::len$") and arg_ref_target(f, t["args"][0]) == inactive:
                    return n
                if call_matches(t, r"saturating_sub$"):
                    a, b_ = eval_at(t["args"][0], n), eval_at(t["args"][1], n)
                    return None if a is None or b_ is None else max(a - b_, 0)
                if call_matches(t, r"^core::cmp::(Ord::min|min)$"):
                    a, b_ = eval_at(t["args"][0], n), eval_at(t["args"][1], n)
                    return None if a is None or b_ is None else min(a, b_)
                if call_matches(t, r"^core::cmp::(Ord::max|max)$"):
                    a, b_ = eval_at(t["args"][0], n), eval_at(t["args"][1], n)
                    return None if a is None or b_ is None else max(a, b_)
                return None
            if len(defs) == 1 and not calls and defs[0]["rv"]["k"] == "use":
                return eval_at(defs[0]["rv"]["o"], n)
            return None
        vals = {n: eval_at(at, n) for n in range(0, 41)}
        if any(v is None for v in vals.values()):
            rep.ob("recency", False, site(f, sb_), "the split index could not be evaluated as a function of the number of closed paths (unrecognised expression, fails closed)", skey(F, f, "split-keeps-most-recent"))
        else:
            bad = [n for n in range(0, 41) if vals[n] != min(n, maxi)]
            rep.ob("recency", desc and not bad, site(f, sb_),
                   "with the list sorted most-recent-first, `split_off(at)` keeps the first `at` entries: `at` must be min(n, %d) for n closed paths (keep the %d most recently closed, prune the rest). Evaluated: %s" % (
                       maxi, maxi, "holds for n = 0..40" if not bad else "at(n) = %s ... differs for n in %s: e.g. n=15 keeps %s (must keep 10), n=5 keeps %s (must keep all 5)" % ([vals[n] for n in (0, 5, 10, 15, 20, 25)], _ranges(bad), vals[15], vals[5])),
                   skey(F, f, "split-keeps-most-recent"))
            none_kept = [n for n in range(1, 41) if vals[n] == 0]
            rep.ob("nonempty", not none_kept, site(f, sb_), "whenever at least one closed path exists at least one is kept (otherwise a map of failed + few closed paths is emptied): %s" % ("holds" if not none_kept else "no closed path survives for n in %s" % _ranges(none_kept)), skey(F, f, "some-closed-path-kept"))
    # ---- all failed
    tr = find_calls(f, regex=r"^alloc::vec::Vec::truncate$")
    rep.exact("all-failed", "truncate calls", len(tr), 1)
    if tr and failed is not None:
        tb, tt = tr[0]
        rep.ob("all-failed", arg_ref_target(f, tt["args"][0]) == failed, site(f, tb), "truncate is applied to the failed list", skey(F, f, "truncate-on-failed"))
        eqs = []
        for cb, s_, ts in cmp_tests(f, ops=("Eq",)):
            a, b_ = s_["rv"]["a"], s_["rv"]["b"]
            fl = lambda o: len_of(f, o, r"Vec::len$") == failed
            ml = lambda o: len_of(f, o, r"HashMap::len$") is not None and copy_sources(f, def_call(f, op_base(o))[1]["args"][0]["p"]["l"]) == {("arg", 1, ())}
            if (fl(a) and ml(b_)) or (fl(b_) and ml(a)):
                eqs.append(ts)
        rep.ob("all-failed", len(eqs) == 1 and requires(f, tb, eqs[0]), site(f, tb), "the failed list is shortened only when every path in the map failed (failed.len() == paths.len())", skey(F, f, "truncate-guard"))
        k = tt["args"][1]
        dc = def_call(f, op_base(k)) if op_base(k) is not None else None
        okk = dc is not None and call_matches(dc[1], r"saturating_sub$") and dc[1]["args"][1]["k"] == "const" and dc[1]["args"][1].get("def") == MAXP \
            and len_of(f, dc[1]["args"][0], r"HashMap::len$") is not None
        rep.ob("all-failed", okk, site(f, tb), "it is shortened to paths.len() - MAX_NON_RELAY_PATHS entries, so exactly MAX_NON_RELAY_PATHS paths remain", skey(F, f, "truncate-count"))


def len_of(f, o, what, target=None):
    """operand is exactly `<what>::len(&X)`; returns X's local (or -1 for the map argument)"""
    l = op_base(o)
    if l is None:
        return None
    dc = def_call(f, l)
    if dc is None or not call_matches(dc[1], what):
        return None
    return arg_ref_target(f, dc[1]["args"][0])


def chain_locals(f, l):
    """locals reached from l through plain copies / moves / reborrows (no calls)"""
    out, work = set(), [l]
    while work:
        cur = work.pop()
        if cur in out:
            continue
        out.add(cur)
        for b, i, st in f.stmts():
            if st["k"] == "a" and st["lhs"] == {"l": cur}:
                rv = st["rv"]
                if rv["k"] == "use" and rv["o"]["k"] in ("copy", "move") and not rv["o"]["p"].get("p"):
                    work.append(rv["o"]["p"]["l"])
                elif rv["k"] == "ref" and all(e[0] == "deref" for e in rv["p"].get("p", [])):
                    work.append(rv["p"]["l"])
    return out


def copy_source_locals(f, l):
    """Locals on the copy chain of l (including l)."""
    out = {l}
    for x in copy_sources(f, l):
        if x[0] in ("place", "arg"):
            out.add(x[1])
    return out


def _ranges(ns):
    out, start, prev = [], None, None
    for n in ns:
        if start is None:
            start = prev = n
        elif n == prev + 1:
            prev = n
        else:
            out.append((start, prev))
            start = prev = n
    if start is not None:
        out.append((start, prev))
    return ", ".join("%d" % a if a == b else "%d-%d" % (a, b) for a, b in out)
