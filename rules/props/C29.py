"""C29 Address lookup results stream follows its documented protocol (terminal-item discipline)."""
from ..lib import *
from .C35 import bool_field_tests, const_field_writes

AL = "iroh::address_lookup::"
ALF = AL + "AddressLookupFailed"
PN = "<iroh::address_lookup::AddressLookupStream as futures_core::stream::Stream>::poll_next"


def check(F, rep):
    rep.clause("AddressLookupStream::poll_next: `closed` is checked first and a closed stream yields None; every terminal item (NoServiceConfigured, NoResults, the final None) is produced only after `closed = true`; NoResults requires that nothing was emitted and carries the buffered errors; every Ok item sets `did_emit`; every inner error is buffered and also yielded inline")
    rep.clause("AddressLookupServices::resolve returns the `no services` stream exactly when the service list is empty")
    rep.undecided("merging order of the services' streams (MergeBounded, external)")
    fs = F.fns_named(PN)
    if len(fs) != 1:
        rep.missing("anchor", PN)
        return
    f = rep.fn(fs[0])
    du = defuse(f)
    ct = bool_field_tests(f, "closed")
    rep.exact("protocol", "tests of this.closed", len(ct), 1)
    inner = [(b, t) for b, t in f.calls() if call_matches(t, r"futures_core::stream::Stream::poll_next$")]
    rep.exact("protocol", "polls of the merged inner stream", len(inner), 1)
    if not (ct and inner):
        return
    ib, it = inner[0]
    rep.ob("protocol", requires_failure(f, ib, ct) and f.dominates(ct[0].bb, ib), site(f, ct[0].bb), "`closed` is tested first; a closed stream is never polled again", PN + "|closed-first")
    rets = returns_of(f)
    nones = [(b, i, rv) for b, i, rv in rets if i is not None and agg_shape(f, rv, 1).startswith("Poll::Ready(Option::None")]
    rep.ob("protocol", any(requires(f, b, ct) for b, i, rv in nones), site(f, ct[0].bb), "a closed stream yields Ready(None)", PN + "|closed-none")
    cw = const_field_writes(f, "closed", "true")
    rep.exact("protocol", "writes `closed = true`", len(cw), 2)
    term = [(b, rv["variant"]) for b, i, rv in aggregates_in(f, f.reachable(0), ALF) if rv["variant"] in ("NoServiceConfigured", "NoResults")]
    rep.exact("protocol", "terminal error constructions", len(term), 2)
    for b, v in term:
        rep.ob("protocol", any(f.dominates(wb, b) for wb, _, _ in cw), site(f, b), "%s is produced only after `closed = true`" % v, PN + "|closed-before-" + v)
    # inner item tests
    pt, tags = value_tests(f, [it["dest"]["l"]], family="poll")
    lvl1 = [t for t in pt if t.level == 1]      # Option
    lvl2 = [t for t in pt if t.level == 2]      # Result
    rep.ob("protocol", bool(lvl1) and bool(lvl2), site(f, ib), "the inner item is matched as Ready(Some(Ok|Err) | None) (%d/%d tests)" % (len(lvl1), len(lvl2)), PN + "|item-match")
    # None arm: closed = true, NoResults iff !did_emit
    dt = bool_field_tests(f, "did_emit")
    rep.exact("protocol", "tests of this.did_emit", len(dt), 1)
    for b, v in term:
        if v == "NoResults" and dt and lvl1:
            rep.ob("protocol", requires_failure(f, b, dt) and requires_failure(f, b, lvl1), site(f, b), "NoResults only when the merged stream ended and nothing was emitted", PN + "|noresults-guard")
            agg = [rv for bb, i, rv in aggregates_in(f, {b}, ALF) if rv["variant"] == "NoResults"][0]
            e_ = du.closure(op_base(agg["ops"][agg["fields"].index("errors")]))
            tk = [(tb, t) for tb, t in f.calls() if call_matches(t, r"core::mem::take$") and recv_field(f, t["args"][0]) == "errors"]
            rep.ob("protocol", len(tk) == 1 and tk[0][1]["dest"]["l"] in e_, site(f, b), "NoResults carries the buffered errors (mem::take(&mut this.errors))", PN + "|noresults-errors")
        if v == "NoServiceConfigured":
            st = field_tests(f, "streams") or []
            asm = [(tb, t) for tb, t in f.calls() if call_matches(t, r"Option::as_mut$") and recv_field(f, t["args"][0]) == "streams"]
            ok = False
            if asm:
                ts, _ = call_result_tests(f, asm[0][0])
                ok = requires_failure(f, b, ts)
            rep.ob("protocol", ok, site(f, b), "NoServiceConfigured only when there are no service streams", PN + "|noservice-guard")
    # final None after the inner stream ended requires did_emit and closed
    for b, i, rv in nones:
        if ct and requires(f, b, ct):
            continue
        rep.ob("protocol", any(f.dominates(wb, b) for wb, _, _ in cw) and (not dt or requires(f, b, dt)), site(f, b), "the end-of-stream None comes after `closed = true` and only if something was emitted", PN + "|final-none")
    # the item value built when ended & emitted is None: `item = None` aggregate (not a return): check via Option::None aggregates
    # did_emit
    dw = const_field_writes(f, "did_emit", "true")
    rep.exact("protocol", "writes `did_emit = true`", len(dw), 1)
    if dw and lvl2:
        rep.ob("protocol", requires(f, dw[0][0], lvl2) and requires(f, dw[0][0], lvl1), site(f, dw[0][0]), "`did_emit` is set exactly on the Some(Ok(item)) arm", PN + "|did_emit-on-ok")
        ok_t = {tg for t in lvl2 for _, tg in t.success}
        rets_ready = [b for b, i, rv in rets if i is not None and agg_shape(f, rv, 0).startswith("Poll::Ready")]
        byp = any(r in f.reachable(tg, removed_blocks={dw[0][0]}) for tg in ok_t for r in rets_ready)
        rep.ob("protocol", not byp and bool(ok_t), site(f, dw[0][0]), "no Ok item is yielded without marking `did_emit`", PN + "|ok-always-marks")
    # errors buffered and yielded
    ps = [(b, t) for b, t in f.calls() if call_matches(t, r"Vec::push$") and recv_field(f, t["args"][0]) == "errors"]
    rep.exact("protocol", "pushes onto this.errors", len(ps), 1)
    if ps and lvl2:
        rep.ob("protocol", requires_failure(f, ps[0][0], lvl2) and requires(f, ps[0][0], lvl1), site(f, ps[0][0]), "every inner Err is buffered", PN + "|err-buffered")
        err_t = {tg for t in lvl2 for _, tg in t.failure if f.blocks[tg]["t"]["k"] != "unreachable"}
        rets_ready = [b for b, i, rv in rets if i is not None and agg_shape(f, rv, 0).startswith("Poll::Ready")]
        byp = any(r in f.reachable(tg, removed_blocks={ps[0][0]}) for tg in err_t for r in rets_ready)
        rep.ob("protocol", not byp and bool(err_t), site(f, ps[0][0]), "no inner Err is yielded without being buffered", PN + "|err-always-buffered")
    # ---- resolve
    rs = [g for g in F.tree_of(AL + "AddressLookupServices::resolve")]
    body = max(rs, key=lambda g: len(g.blocks))
    rep.fn(body)
    em = [(b, t) for b, t in body.calls() if call_matches(t, r"AddressLookupStream::empty$")]
    LOCKS = ("core::result::Result::expect", "core::result::Result::unwrap", "std::sync::poison::rwlock::RwLock::read", "std::sync::poison::rwlock::RwLock::write",
             "std::sync::poison::mutex::Mutex::lock", "core::result::Result::unwrap_or_else")

    def is_services(o):
        """the operand is (a view of) the configured service list `self.services`, not a derived collection"""
        l = arg_ref_target(body, o)
        cs = copy_sources(body, l, transparent=LOCKS) if l is not None else set()
        return bool(cs) and all(x[0] in ("arg", "place") and tuple(x[2])[-1:] == ("services",) for x in cs)
    ie = [(b, t) for b, t in body.calls() if call_matches(t, r"Vec::is_empty$|slice::is_empty$|::is_empty$") and is_services(t["args"][0])]
    tests = [call_result_tests(body, b, family="bool")[0] for b, t in ie]
    # `len() == 0` / `len() < 1` ... : truth of the comparison <=> empty
    for cb, s_, ts in cmp_tests(body):
        for p_, q_, flip in ((s_["rv"]["a"], s_["rv"]["b"], False), (s_["rv"]["b"], s_["rv"]["a"], True)):
            k = const_int(F, q_)
            dc = def_call(body, op_base(p_)) if op_base(p_) is not None else None
            if k is None or dc is None or not call_matches(dc[1], r"(Vec|slice|VecDeque)::.*len$|::len$") or not is_services(dc[1]["args"][0]):
                continue
            op = s_["rv"]["op"]
            op = {"Lt": "Gt", "Gt": "Lt", "Le": "Ge", "Ge": "Le"}.get(op, op) if flip else op
            if (op, k) in (("Eq", 0), ("Lt", 1), ("Le", 0)):
                tests.append(ts)
            elif (op, k) in (("Ne", 0), ("Gt", 0), ("Ge", 1)):
                tests.append([Test(x.bb, x.failure, x.success, x.level, x.family, not x.neg, x.local) for x in ts])
    ok = len(em) == 1 and len(tests) >= 1
    nw = [(b, t) for b, t in body.calls() if call_matches(t, r"AddressLookupStream::new$")]
    if ok:
        ok = any(requires(body, em[0][0], ts) and bool(nw) and all(requires_failure(body, b, ts) for b, t in nw) for ts in tests)
    rep.ob("resolve", ok, site(body), "resolve() returns AddressLookupStream::empty() exactly when the configured service list itself (self.services, not a derived collection such as the streams the services returned) is empty, and the merged stream otherwise (%d emptiness tests of the service list)" % len(tests), AL + "AddressLookupServices::resolve|empty-iff-no-services")
