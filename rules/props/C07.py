"""C07 Access control sees exactly one disconnect per admitted relay connection."""
from ..lib import *

S = "iroh_relay::server::"
HS = "iroh_relay::protos::handshake::"
GUARD = S + "OnDisconnectGuard"
CID = S + "ConnectionId"
LEAKS = r"^(core::mem::forget|core::mem::manually_drop::ManuallyDrop::new|alloc::boxed::Box::leak|alloc::boxed::Box::into_raw|alloc::sync::Arc::into_raw|alloc::rc::Rc::into_raw|core::mem::transmute|core::ptr::write|core::mem::zeroed|core::mem::maybe_uninit::MaybeUninit::uninit)$"


def check(F, rep):
    rep.clause("OnDisconnectGuard is a non-Clone RAII token whose Drop is the only caller of on_disconnect; it is constructed with access control only on the Access::Allow arm, for the same request/ConnectionId that on_connect saw, before the confirmation write")
    rep.clause("the guard moves Config -> Client::new -> Actor and is consumed by Clients::unregister on every normal exit of Actor::run; nothing in the relay server leaks values (mem::forget & co. have zero call sites)")
    rep.clause("ConnectionId values come only from one atomic fetch_add")
    rep.undecided("embedders that call the public OnDisconnectGuard::for_access_control themselves")

    # ---- type facts
    impls = F.impls_of(adt=GUARD)
    traits = sorted(i["trait_path"] for i in impls if i["trait_path"])
    rep.ob("type", "core::clone::Clone" not in traits and "core::marker::Copy" not in traits, GUARD, "OnDisconnectGuard implements neither Clone nor Copy (traits: %s)" % traits, "guard|not-clone")
    rep.ob("type", "core::ops::drop::Drop" in traits, GUARD, "OnDisconnectGuard implements Drop", "guard|has-drop")
    adt = F.adt(GUARD)
    vis = {f["name"]: f["vis"] for f in adt["variants"][0]["fields"]}
    rep.ob("type", all(v != "pub" for v in vis.values()), GUARD, "all fields private: %s" % vis, "guard|private-fields")

    # ---- Drop body
    d = get_fn(F, rep, "<%s as core::ops::drop::Drop>::drop" % GUARD)
    od = find_calls(d, regex=r"DynAccessControl::on_disconnect$")
    rep.exact("drop", "on_disconnect calls in Drop", len(od), 1)
    if od:
        b, t = od[0]
        e = copy_sources(d, op_base(t["args"][1]))
        c = copy_sources(d, op_base(t["args"][2]))
        rep.ob("drop", e == {("arg", 1, ("endpoint_id",))} and c == {("arg", 1, ("connection_id",))}, site(d, b),
               "on_disconnect(self.endpoint_id, self.connection_id); sources %s %s" % (sorted(map(str, e)), sorted(map(str, c))), skey(F, d, "drop-args"))
        # reached iff access is Some: controlled by exactly the test of self.access
        ctrl = controlling_switches(d, b)
        du = defuse(d)
        ok = False
        for sb, tgt in ctrl:
            l = op_local(d.blocks[sb]["t"]["d"])
            if l is not None and (GUARD, "access") in du.field_reads(l):
                ok = True
        rep.ob("drop", ok and len(ctrl) == 1, site(d, b), "the call is conditional only on self.access being Some", skey(F, d, "drop-cond"))
    # ---- who calls on_disconnect
    cs = call_sites(F, regex=r"(DynAccessControl|AccessControl)::on_disconnect$", crates=["iroh_relay"])
    rep.floor("who_calls", "on_disconnect call sites", len(cs), 1)
    for f, b, t, kind in cs:
        rep.fn(f)
        src = source_fn(F, f)
        ok = src == "<%s as core::ops::drop::Drop>::drop" % GUARD or (f.impl_trait == S + "DynAccessControl" and src.endswith("::on_disconnect"))
        rep.ob("who_calls", ok, site(f, b), "on_disconnect invoked from %s" % src, skey(F, f, "on_disconnect-caller"))

    # ---- constructors
    sites = [x for x in ctor_sites(F, GUARD)]
    rep.exact("ctor_sites", "OnDisconnectGuard construction sites", len(sites), 2)
    for f, b, i, rv in sites:
        rep.fn(f)
        src = source_fn(F, f)
        acc = agg_shape(f, {"k": "use", "o": rv["ops"][rv["fields"].index("access")]}, 1)
        if src == GUARD + "::for_access_control":
            ok = acc.startswith("Option::Some")
            c = copy_sources(f, op_base(rv["ops"][rv["fields"].index("connection_id")]), F=F)
            ok = ok and c == {("arg", 2, ("connection_id",))}
            rep.ob("ctor_sites", ok, site(f, b), "for_access_control: access=Some, connection_id=request.connection_id (%s, %s)" % (acc, sorted(map(str, c))), skey(F, f, "ctor"))
        elif src == GUARD + "::empty":
            rep.ob("ctor_sites", acc.startswith("Option::None"), site(f, b), "empty: access=None (%s)" % acc, skey(F, f, "ctor"))
        else:
            rep.ob("ctor_sites", False, site(f, b), "OnDisconnectGuard constructed in %s" % src, skey(F, f, "ctor"))

    # ---- authorize_with
    cs = [x for x in call_sites(F, GUARD + "::for_access_control", crates=["iroh_relay"])]
    rep.floor("who_calls", "for_access_control call sites in iroh-relay", len(cs), 1)
    for f, b, t, kind in cs:
        rep.ob("who_calls", source_fn(F, f) == HS + "SuccessfulAuthentication::authorize_with", site(f, b), "for_access_control called from %s" % source_fn(F, f), skey(F, f, "fac-caller"))
    g = body_of(F, rep, HS + "SuccessfulAuthentication::authorize_with")
    fac = find_calls(g, GUARD + "::for_access_control")
    oc = find_calls(g, regex=r"DynAccessControl::on_connect$")
    # the confirmation is written by `accept` - directly or through a delegate (authorize_if)
    ac = calls_reaching(F, g, [HS + "SuccessfulAuthentication::accept"])
    rep.exact("authorize_with", "for_access_control calls", len(fac), 1)
    rep.exact("authorize_with", "on_connect calls", len(oc), 1)
    rep.exact("authorize_with", "calls that write the confirmation (accept or a delegate)", len(ac), 1)
    if fac and oc and ac:
        adt_access = F.adt(S + "Access")
        allow = {int(v["discr"]) for v in adt_access["variants"] if v["name"] == "Allow"}
        outs = await_output(g, oc[0][1]["dest"]["l"])
        tests, _ = value_tests(g, outs, family="enum", enum_success=allow)
        rep.ob("requires_success", requires(g, fac[0][0], tests), site(g, fac[0][0]), "guard created only on the Access::Allow arm of on_connect's answer", skey(F, g, "guard-on-allow"))
        if is_call_to(ac[0][1], HS + "SuccessfulAuthentication::accept"):
            rep.ob("requires_success", requires(g, ac[0][0], tests), site(g, ac[0][0]), "accept only on Access::Allow", skey(F, g, "accept-on-allow"))
        r1 = copy_sources(g, op_base(oc[0][1]["args"][1]))
        r2 = copy_sources(g, op_base(fac[0][1]["args"][1]))
        rep.ob("provenance", r1 == r2 and bool(r1) and all(x[0] == "arg" for x in r1), site(g, fac[0][0]), "guard is built for the same request (ConnectionId) that on_connect saw: %s" % sorted(map(str, r2)), skey(F, g, "same-request"))
        rep.ob("must_precede", g.dominates(fac[0][0], ac[0][0]), site(g, ac[0][0]), "the guard exists before the confirmation is written (a failed write drops it => on_disconnect)", skey(F, g, "guard-before-accept"))
        # every Allow path creates the guard: the Allow edge leads to for_access_control before any return
        allow_edges = [e for t in tests for e in t.success]
        rets = [b for b, i, rv in returns_of(g)]
        reach_wo = g.reachable(0, removed_blocks={fac[0][0]})
        allow_targets = {tgt for _, tgt in allow_edges}
        bad = [b for b in rets if any(b in g.reachable(tg, removed_blocks={fac[0][0]}) for tg in allow_targets)]
        rep.ob("must_follow", not bad, site(g, fac[0][0]), "no return is reachable from the Allow edge without creating the guard", skey(F, g, "allow-always-guarded"))
        # returned guard is that guard
        oks = [(b, i, rv) for b, i, rv in returns_of(g) if i is not None and rv["k"] == "agg" and rv.get("variant") == "Ok"]
        for b, i, rv in oks:
            s = copy_sources(g, op_base(rv["ops"][0]))
            rep.ob("provenance", s == {("call", GUARD + "::for_access_control", ())}, site(g, b), "Ok(guard) returns the guard created above", skey(F, g, "returns-guard"))

    # ---- zero-count: nothing in the relay server leaks values
    leaks = [x for x in call_sites(F, regex=LEAKS, crates=["iroh_relay"]) if source_fn(F, x[0]).startswith(S) or source_fn(F, x[0]).startswith(HS)]
    for f, b, t, kind in leaks:
        rep.ob("leak", False, site(f, b), "leak/forge primitive %s used in %s" % (callee_names(t)[0] if kind == "call" else "fn item", source_fn(F, f)), skey(F, f, "leak"))
    rep.ob("leak", not leaks, "iroh_relay::server + handshake", "zero call sites of mem::forget / ManuallyDrop::new / Box::leak / into_raw / transmute / ptr::write (%d found)" % len(leaks), "server|no-leaks")

    # ---- ownership chain
    acc = body_of(F, rep, S + "http_server::Inner::accept")
    aw = find_calls(acc, HS + "SuccessfulAuthentication::authorize_with")
    cn = find_calls(acc, S + "client::Config::new")
    reg = find_calls(acc, S + "clients::Clients::register")
    rep.exact("ownership", "Config::new calls in Inner::accept", len(cn), 1)
    if aw and cn and reg:
        s = copy_sources(acc, op_base(cn[0][1]["args"][0]))
        rep.ob("ownership", bool(s) and all(x[0] == "call" and x[1] == HS + "SuccessfulAuthentication::authorize_with" for x in s), site(acc, cn[0][0]),
               "Config.guard is the guard returned by authorize_with; sources %s" % sorted(map(str, s)), skey(F, acc, "config-guard"))
        s2 = copy_sources(acc, op_base(reg[0][1]["args"][1]))
        rep.ob("ownership", s2 == {("call", S + "client::Config::new", ())}, site(acc, reg[0][0]), "that Config is what gets registered", skey(F, acc, "register-config"))
    cfgn = get_fn(F, rep, S + "client::Config::new")
    for f, b, i, rv in [x for x in ctor_sites(F, S + "client::Config") if x[0] is cfgn]:
        rep.ob("ownership", copy_sources(f, op_base(rv["ops"][rv["fields"].index("guard")])) == {("arg", 1, ())}, site(f, b), "Config::new stores its guard argument", skey(F, f, "config-new"))
    cnew = get_fn(F, rep, S + "client::Client::new")
    acts = [x for x in ctor_sites(F, S + "client::Actor") if x[0] is cnew]
    rep.exact("ownership", "Actor construction sites in Client::new", len(acts), 1)
    for f, b, i, rv in acts:
        s = copy_sources(f, op_base(rv["ops"][rv["fields"].index("guard")]))
        rep.ob("ownership", bool(s) and all(x[0] == "arg" and x[1] == 1 and x[2] == ("guard",) for x in s), site(f, b), "Actor.guard is config.guard (moved); sources %s" % sorted(map(str, s)), skey(F, f, "actor-guard"))
    other_actor = [x for x in ctor_sites(F, S + "client::Actor", crates=["iroh_relay"]) if x[0] is not cnew]
    rep.ob("ownership", not other_actor, S + "client::Actor", "Actor constructed only in Client::new", "actor|ctor")
    run = body_of(F, rep, S + "client::Actor::run")
    un = find_calls(run, S + "clients::Clients::unregister")
    rep.exact("ownership", "Clients::unregister calls in Actor::run", len(un), 1)
    if un:
        b, t = un[0]
        s = copy_sources(run, op_base(t["args"][1]))
        rep.ob("ownership", bool(s) and all(x[0] == "arg" and x[2][-2:] == ("self", "guard") or x[2][-1:] == ("guard",) for x in s), site(run, b), "unregister consumes self.guard; sources %s" % sorted(map(str, s)), skey(F, run, "unregister-guard"))
        rep.ob("must_follow", run.postdominates(b, 0), site(run, b), "every normal path through Actor::run ends in clients.unregister(self.guard, ..)", skey(F, run, "unregister-on-all-paths"))
        ri = find_calls(run, S + "client::Actor::run_inner")
        rep.ob("must_follow", bool(ri) and run.dominates(ri[0][0], b), site(run, b), "unregister after run_inner returned", skey(F, run, "after-run_inner"))
    # spawn: the actor future is spawned as its own task (abort drops the future => guard)
    sp = find_calls(cnew, regex=r"^tokio::task::spawn::spawn$|^tokio::task::spawn$")
    rep.floor("ownership", "tokio::task::spawn in Client::new", len(sp), 1)
    if sp:
        du = defuse(cnew)
        rep.ob("ownership", du.derives_from_call(op_base(sp[0][1]["args"][0]), S + "client::Actor::run"), site(cnew, sp[0][0]), "the spawned future is actor.run(..)", skey(F, cnew, "spawn-run"))
    # unregister takes the guard by value and never moves it elsewhere
    u = get_fn(F, rep, S + "clients::Clients::unregister")
    moved = []
    for b, t in u.calls():
        for ai, a in enumerate(t["args"]):
            if a["k"] == "move" and a["p"]["l"] == 2 and not a["p"].get("p"):
                moved.append(b)
    for b, i, s in u.stmts():
        if s["k"] == "a" and s["rv"]["k"] == "use" and s["rv"]["o"]["k"] == "move" and s["rv"]["o"]["p"]["l"] == 2 and not s["rv"]["o"]["p"].get("p"):
            moved.append(b)
    drops = [b for b in u.reachable(0) if u.blocks[b]["t"]["k"] == "drop" and u.blocks[b]["t"]["p"] == {"l": 2}]
    rep.ob("ownership", not moved and bool(drops) and all(any(u.postdominates(d_, 0) for d_ in drops) for _ in [0]), site(u),
           "unregister drops its by-value guard on every path (never moves it on)", skey(F, u, "guard-dropped"))

    # ---- ConnectionId
    private_fields(F, rep, CID, "connection ids cannot be forged by a literal")
    cs = [x for x in ctor_sites(F, CID) if not x[0].derived]
    rep.floor("ctor_sites", "ConnectionId construction sites", len(cs), 1)
    for f, b, i, rv in cs:
        rep.fn(f)
        ok = source_fn(F, f) == CID + "::next"
        if ok:
            du = defuse(f)
            s = copy_sources(f, op_base(rv["ops"][0]))
            fa = find_calls(f, regex=r"^core::sync::atomic::Atomic(U64)?::fetch_add$")
            ok = len(fa) == 1 and s == {("call", callee_names(fa[0][1])[0], ())}
            if ok:
                st = du.origin_facts(op_base(fa[0][1]["args"][0]), kinds=("const",))
                ok = any(o[4].get("static", "").startswith(CID + "::next::") for o in st)
                inc = operand_sources(f, fa[0][1]["args"][1])
                ok = ok and inc in ({("const", "1_u64")}, {("const", "const 1_u64")})
            # a single read-modify-write: no separate load/store on that static
            others = find_calls(f, regex=r"^core::sync::atomic::Atomic(U64)?::(load|store|swap)$")
            ok = ok and not others
        rep.ob("ctor_sites", ok, site(f, b), "ConnectionId built only in ::next from one fetch_add(1) on a function-local static", skey(F, f, "cid-ctor"))
    nx = call_sites(F, CID + "::next")
    rep.floor("who_calls", "ConnectionId::next call sites", len(nx), 2)
    for f, b, t, kind in nx:
        rep.ob("who_calls", source_fn(F, f) in (S + "ClientRequest::new", GUARD + "::empty"), site(f, b), "ConnectionId::next called from %s" % source_fn(F, f), skey(F, f, "next-caller"))
