"""C26 Published home relay is the relay most recently chosen (check-then-act)."""
from ..lib import *
from ..lockset import guards

A = "iroh::socket::transports::relay::actor::"
HW = A + "HomeRelayWatch"
WSET = "n0_watcher::Watchable::set"
WGET = "n0_watcher::Watchable::get"


def check(F, rep):
    rep.clause("check-then-act: HomeRelayWatch::set_status reads the watchable and conditionally writes it; since RelayActor::on_network_change writes it from another task, the read and the write must happen under one guard that the other writers (set, clear) also hold - otherwise a demoted relay's status can overwrite the newly chosen home relay")
    rep.clause("ordering: on a home change the new URL is published before the old actors are told SetHomeRelay(false); only RelayActor calls set/clear, ActiveRelayActor only set_status")
    rep.undecided("what watchers observe in between (n0-watcher's contract)")
    meths = {}
    for name in ("set", "clear", "set_status"):
        from ..inline import inlined
        # set / clear may delegate to a private helper that takes the lock: inlined view
        meths[name] = inlined(F, get_fn(F, rep, HW + "::" + name))
    lock_fields = {}
    for name, g in meths.items():
        gs = guards(g)
        sets = find_calls(g, WSET)
        rep.exact("lockset", "Watchable::set calls in HomeRelayWatch::" + name, len(sets), 1)
        if not sets:
            continue
        sb = sets[0][0]
        holding = [x for x in gs if sb in x.held_blocks()]
        flds = {d[2][-1] for x in holding for d in x.lock if len(d) == 3 and d[2]}
        lock_fields[name] = flds
        if name == "set_status":
            gets = find_calls(g, WGET)
            rep.exact("lockset", "Watchable::get calls in set_status", len(gets), 1)
            if gets:
                gb = gets[0][0]
                # the write is controlled by the read
                du = defuse(g)
                ctrl = controlling_switches(g, sb)
                dep = any(gets[0][1]["dest"]["l"] in du.closure(op_local(g.blocks[s]["t"]["d"])) for s, _ in ctrl if op_local(g.blocks[s]["t"]["d"]) is not None)
                rep.ob("check-then-act", dep, site(g, sb), "the write is conditional on the value read (url guard)", skey(F, g, "guarded-write"))
                span = [x for x in holding if gb in x.held_blocks() or x.bb == gb or g.dominates(x.bb, gb) and gb in x.held_blocks()]
                rep.ob("check-then-act", bool(span), site(g, gb),
                       "the read (Watchable::get) and the dependent write (Watchable::set) happen under one continuously held guard%s"
                       % ("" if span else ": none is held, so between the comparison and the write RelayActor::on_network_change can publish a new home relay which this (now demoted) actor's status then overwrites"),
                       "HomeRelayWatch::set_status|get-then-set")
        else:
            rep.ob("lockset", bool(holding) or not lock_fields.get("set_status", True), site(g, sb),
                   "the unconditional writer `%s` holds the writers' guard while writing%s" % (name, "" if holding else " (no guard: cannot exclude set_status's read-compare-write)"),
                   "HomeRelayWatch::%s|writer-guard" % name)
    vals = [v for v in lock_fields.values()]
    same = len(vals) == 3 and all(v for v in vals) and len(set(map(frozenset, vals))) == 1
    rep.ob("lockset", same, HW, "all three writers synchronise on the same lock field: %s" % {k: sorted(v) for k, v in lock_fields.items()}, HW + "|same-lock")
    # ---- who calls what
    RA = A + "RelayActor"
    ARA = A + "ActiveRelayActor"
    for name, allowed in (("set", RA), ("clear", RA), ("set_status", ARA)):
        cs = call_sites(F, HW + "::" + name, crates=["iroh"])
        rep.floor("who_calls", "callers of HomeRelayWatch::" + name, len(cs), 1)
        for f, b, t, kind in cs:
            rep.fn(f)
            rep.ob("who_calls", source_fn(F, f).startswith(allowed + "::"), site(f, b), "HomeRelayWatch::%s called from %s" % (name, source_fn(F, f)), skey(F, f, name + "-caller"))
    # ---- ordering in on_network_change
    onc = body_of(F, rep, RA + "::on_network_change")
    st = find_calls(onc, HW + "::set")
    sh = find_calls(onc, RA + "::set_home_relay")
    rep.exact("must_precede", "my_relay.set in on_network_change", len(st), 1)
    rep.exact("must_precede", "set_home_relay in on_network_change", len(sh), 1)
    if st and sh:
        rep.ob("must_precede", onc.dominates(st[0][0], sh[0][0]), site(onc, sh[0][0]), "the new home URL is published before SetHomeRelay messages go out (a demoted actor's set_status then sees a foreign URL)", skey(F, onc, "publish-before-demote"))
        a = copy_sources(onc, op_base(st[0][1]["args"][1]), transparent=("core::clone::Clone::clone",))
        b_ = copy_sources(onc, op_base(sh[0][1]["args"][1]))
        rep.ob("provenance", a == b_ and bool(a), site(onc, st[0][0]), "both use the report's preferred relay; %s" % sorted(map(str, a)), skey(F, onc, "same-url"))
    shr = body_of(F, rep, RA + "::set_home_relay")
    msgs = set()
    for g in F.tree_of(RA + "::set_home_relay"):
        for b, i, rv in aggregates_in(g, g.reachable(0), A + "ActiveRelayMessage"):
            msgs.add(rv["variant"])
    rep.ob("must_precede", "SetHomeRelay" in msgs, site(shr), "set_home_relay sends SetHomeRelay(is_preferred) to every active relay actor", skey(F, shr, "sends-sethome"))
