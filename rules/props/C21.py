"""C21 Per-remote state never loses requests across idle shutdown and restart (hand-off shape)."""
from ..lib import *

RM = "iroh::socket::remote_map::"
RSA = RM + "remote_state::RemoteStateActor"


def check(F, rep):
    rep.clause("RemoteStateActor::run: no return from inside the loop; after the loop the inbox is closed first, then drained, and the drained messages are what the task returns (together with its endpoint id); initial messages are handled before the inbox is polled")
    rep.clause("RemoteMap::remove_or_restart_actor: with empty leftovers the sender entry is removed, otherwise a new actor is started *for the same remote id* with exactly the leftovers as initial messages and its sender stored under that id; send_to_actor appends the message that failed to send after the leftovers and stops joining only once the requested remote's task was joined")
    rep.clause("only send_to_actor and remove_or_restart_actor write the senders map / start actors")
    rep.undecided("interleavings with try_send from other threads; at-most-one live instance per remote (state exploration)")
    run = body_of(F, rep, RSA + "::run")
    du = defuse(run)
    cl = find_calls(run, regex=r"mpsc::bounded::Receiver::close$")
    rm = find_calls(run, regex=r"mpsc::bounded::Receiver::recv_many$")
    rc = find_calls(run, regex=r"mpsc::bounded::Receiver::recv$")
    helper_site = None
    if not cl and not rm:
        # close + drain moved into a private async helper awaited by run():
        # the helper must close before draining and return the buffer it filled
        from ..inline import _callee
        for b, t in run.calls():
            h = _callee(F, run, t)
            if h is None or h.file != run.file or h.vis == "pub" or h.kind not in ("Fn", "AssocFn") or helper_site is not None:
                continue
            for hb in F.tree(h):
                hc = find_calls(hb, regex=r"mpsc::bounded::Receiver::close$")
                hr = find_calls(hb, regex=r"mpsc::bounded::Receiver::recv_many$")
                if len(hc) == 1 and len(hr) == 1:
                    rep.fn(hb)
                    buf = arg_ref_target(hb, hr[0][1]["args"][1])
                    rets = [(bb, i, rv) for bb, i, rv in returns_of(hb) if i is not None]
                    ret_ok = any(buf in copy_source_locals_(hb, op_base(rv["o"])) for bb, i, rv in rets if rv["k"] == "use" and rv["o"]["k"] in ("copy", "move")) or any(rv["k"] == "agg" and any(op_base(o) is not None and buf in copy_source_locals_(hb, op_base(o)) for o in rv["ops"]) for bb, i, rv in rets)
                    rep.ob("must_precede", hb.dominates(hc[0][0], hr[0][0]) and ret_ok, site(hb, hr[0][0]), "helper %s closes the inbox before draining it and returns the buffer the drain filled" % h.npath.rsplit("::", 1)[-1], skey(F, hb, "helper-close-before-drain"))
                    recv_arg = copy_sources(run, op_base(t["args"][0])) if t["args"] else set()
                    helper_site = (b, t, h)
        if helper_site is not None:
            cl = [(helper_site[0], helper_site[1])]
            rm = [(helper_site[0], helper_site[1])]
    rep.exact("hand-off", "inbox.close() calls", len(cl), 1)
    rep.exact("hand-off", "inbox.recv_many() calls", len(rm), 1)
    rep.exact("hand-off", "inbox.recv() calls", len(rc), 1)
    if cl and rm and rc:
        rep.ob("must_precede", run.dominates(cl[0][0], rm[0][0]), site(run, rm[0][0]), "the inbox is closed before it is drained (nothing can be enqueued after the drain)", skey(F, run, "close-before-drain"))
        exits = run.exits()
        byp = [x for x in exits if x in run.reachable(0, removed_blocks={cl[0][0]})]
        rep.ob("must_follow", not byp, site(run, cl[0][0]), "every normal exit of the task passes close()+drain (no return from inside the loop)", skey(F, run, "all-exits-drain"))
        rets = [(b, i, rv) for b, i, rv in returns_of(run) if i is not None and rv["k"] == "agg" and rv["ak"] == "tuple"]
        rep.exact("hand-off", "tuple returns (endpoint id, leftovers)", len(rets), 1)
        for b, i, rv in rets:
            buf = arg_ref_target(run, rm[0][1]["args"][1]) if helper_site is None else None
            s_ = copy_sources(run, op_base(rv["ops"][1]))
            hname = helper_site[2].npath if helper_site is not None else None
            rep.ob("provenance", bool(s_) and all((x[0] == "place" and x[1] == buf) or (x[0] == "call" and x[1].endswith("with_capacity")) or (hname is not None and x[0] == "call" and x[1] == hname) for x in s_), site(run, b), "the returned leftovers are the buffer the drain filled; %s" % sorted(map(str, s_)), skey(F, run, "returns-drained"))
            e_ = copy_sources(run, op_base(rv["ops"][0]))
            rep.ob("provenance", bool(e_) and all(x[2][-2:] == ("state", "endpoint_id") for x in e_ if len(x) == 3), site(run, b), "together with this actor's own endpoint id; %s" % sorted(map(str, e_)), skey(F, run, "returns-own-id"))
        hm = find_calls(run, RSA + "::handle_message")
        init = [(b, t) for b, t in hm if rc[0][0] in run.reachable(b) and b not in run.reachable(rc[0][0])]
        ok_init = False
        for b, t in init:
            s_ = copy_sources(run, op_base(t["args"][1]), transparent=("core::iter::traits::iterator::Iterator::next", "core::iter::traits::collect::IntoIterator::into_iter"))
            ok_init = ok_init or (bool(s_) and all(x[0] == "arg" and x[2][:1] == ("initial_msgs",) for x in s_))
        rep.ob("must_precede", ok_init, site(run, rc[0][0]), "initial (handed-over) messages are handled, in order, before the inbox is polled for the first time (%d pre-loop handle_message call(s))" % len(init), skey(F, run, "initial-first"))
    # ---- remove_or_restart_actor
    ro = get_fn(F, rep, RM + "RemoteMap::remove_or_restart_actor")
    rdu = defuse(ro)
    ets, ie = emptiness_tests(ro, None, recv=lambda a: arg_ref_target(ro, a) == 3)
    st = find_calls(ro, RM + "Tasks::start_remote_state_actor")
    rem = [(b, t) for b, t in ro.calls() if call_matches(t, r"ConcurrentReadMap::remove$|HashMap::remove$") and recv_field(ro, t["args"][0]) == "senders"]
    ins = [(b, t) for b, t in ro.calls() if call_matches(t, r"ConcurrentReadMap::insert$|HashMap::insert$") and recv_field(ro, t["args"][0]) == "senders"]
    rep.exact("restart", "emptiness tests of leftover_msgs (is_empty() / len() == 0 ...)", len(ie), 1)
    rep.exact("restart", "start_remote_state_actor calls", len(st), 1)
    rep.exact("restart", "senders.remove calls", len(rem), 1)
    rep.exact("restart", "senders.insert calls", len(ins), 1)
    if ie and st and rem and ins:
        ts = ets
        rep.ob("restart", requires(ro, rem[0][0], ts), site(ro, rem[0][0]), "the sender entry is dropped only when nothing was left over", skey(F, ro, "remove-requires-empty"))
        rep.ob("restart", requires_failure(ro, st[0][0], ts) and requires_failure(ro, ins[0][0], ts), site(ro, st[0][0]), "leftovers always lead to a restart", skey(F, ro, "restart-on-leftovers"))
        sb, stt = st[0]
        rep.ob("provenance", copy_sources(ro, op_base(stt["args"][1])) == {("arg", 2, ())}, site(ro, sb), "the new actor is started for the same remote id", skey(F, ro, "restart-same-id"))
        rep.ob("provenance", copy_sources(ro, op_base(stt["args"][2])) == {("arg", 3, ())}, site(ro, sb), "with exactly the leftovers as its initial messages", skey(F, ro, "restart-with-leftovers"))
        ib, it = ins[0]
        rep.ob("provenance", copy_sources(ro, op_base(it["args"][1])) == {("arg", 2, ())} and copy_sources(ro, op_base(it["args"][2])) == {("call", RM + "Tasks::start_remote_state_actor", ())}, site(ro, ib), "and its sender replaces the entry of that id", skey(F, ro, "insert-new-sender"))
        rep.ob("provenance", copy_sources(ro, op_base(rem[0][1]["args"][1])) == {("arg", 2, ())} or arg_ref_target(ro, rem[0][1]["args"][1]) == 2, site(ro, rem[0][0]), "removal is keyed by that id", skey(F, ro, "remove-same-id"))
        for b, v in const_returns(ro):
            if v == "true":
                rep.ob("restart", requires(ro, b, ts), site(ro, b), "`true` (cleaned up) only without leftovers", skey(F, ro, "true-means-clean"))
    # ---- send_to_actor
    sa = body_of(F, rep, RM + "RemoteMap::send_to_actor")
    sdu = defuse(sa)
    calls = find_calls(sa, RM + "RemoteMap::remove_or_restart_actor")
    rep.exact("send", "remove_or_restart_actor calls in send_to_actor", len(calls), 2)
    pj = [(b, t) for b, t in sa.calls() if call_matches(t, r"poll_fn::poll_fn$")]
    neq = [(b, t) for b, t in find_calls(sa, "core::cmp::PartialEq::ne", "core::cmp::PartialEq::eq")]
    rep.exact("send", "id comparisons", len(neq), 1)

    class _Unsup(Exception):
        pass

    def kind_of(l):
        cs = copy_sources(sa, l) if l is not None else set()
        if cs and all(x[0] == "call" and x[1].endswith("Sender::send") for x in cs):
            return "failed-message"
        if cs and all(x[0] == "call" and x[1].endswith("poll_fn") for x in cs):
            return "leftovers"
        return "other:%s" % sorted(map(str, cs))[:2]

    def seq_iter(l, d=0):
        dc = def_call(sa, l) if l is not None else None
        if l is not None and d <= 8 and str(sa.locals[l]).startswith("alloc::vec::Vec<") and (dc is None or not call_matches(dc[1], r"Iterator::|iter::")):
            return seq_vec(l, None, d + 1)       # a Vec used directly as IntoIterator (chain's argument)
        if dc is None or d > 8:
            raise _Unsup("iterator _%s" % l)
        t = dc[1]
        if call_matches(t, r"Iterator::chain$"):
            return seq_iter(op_base(t["args"][0]), d + 1) + seq_iter(op_base(t["args"][1]), d + 1)
        if call_matches(t, r"IntoIterator::into_iter$|Vec::into_iter$"):
            return seq_vec(op_base(t["args"][0]), None, d + 1)
        if call_matches(t, r"iter::sources::once::once$|core::iter::once$"):
            return [kind_of(op_base(t["args"][0]))]
        if call_matches(t, r"Vec::drain$"):
            return seq_vec(arg_ref_target(sa, t["args"][0]), None, d + 1)
        raise _Unsup("iterator built by %s" % callee_names(t)[0])

    def seq_vec(l, before_bb, d=0):
        """element order of the Vec in local `l` (as seen at block `before_bb`)"""
        if l is None or d > 8:
            raise _Unsup("vector _%s" % l)
        dc = def_call(sa, l)
        if dc is not None and call_matches(dc[1], r"Iterator::collect$|FromIterator::from_iter$"):
            base = seq_iter(op_base(dc[1]["args"][0]), d + 1)
            chain = {l}
        else:
            k = kind_of(l)
            if k != "leftovers":
                raise _Unsup("vector from %s" % k)
            base = ["leftovers"]
            # the move chain between the joined task's payload and `l`
            chain = {l}
            work = [l]
            while work:
                x = work.pop()
                for b_, i_, st in sa.stmts():
                    if st["k"] == "a" and st["lhs"] == {"l": x} and st["rv"]["k"] == "use" and st["rv"]["o"]["k"] in ("copy", "move") and not st["rv"]["o"]["p"].get("p"):
                        y = st["rv"]["o"]["p"]["l"]
                        if y not in chain and str(sa.locals[y]) == str(sa.locals[l]):
                            chain.add(y)
                            work.append(y)
        muts = []
        for b_, t_ in sa.calls():
            if t_["k"] == "call" and t_["args"] and call_matches(t_, r"^alloc::vec::Vec::") and arg_ref_target(sa, t_["args"][0]) in chain:
                n = callee_names(t_)[0].rsplit("::", 1)[-1]
                if n in ("len", "is_empty", "iter", "as_slice", "capacity", "first", "last", "get", "into_iter", "drain"):
                    continue
                if before_bb is not None and not sa.dominates(b_, before_bb):
                    if before_bb in sa.reachable(b_):
                        raise _Unsup("conditional %s on the message list" % n)
                    continue
                if n == "push":
                    muts.append((b_, kind_of(op_base(t_["args"][1]))))
                else:
                    raise _Unsup("Vec::%s on the message list" % n)
        muts.sort(key=lambda x: sum(1 for y in muts if sa.dominates(y[0], x[0])))
        return base + [k for _, k in muts]

    if len(calls) == 2 and neq:
        ts, _ = call_result_tests(sa, neq[0][0], family="bool")
        is_ne = is_call_to(neq[0][1], "core::cmp::PartialEq::ne")
        # the joined task's own id/leftovers: payload of the awaited join
        for b, t in calls:
            on_other = (requires(sa, b, ts) if is_ne else requires_failure(sa, b, ts))
            idsrc = copy_sources(sa, op_base(t["args"][1]))
            joined = all(x[0] == "call" and x[1].endswith("poll_fn") for x in idsrc) and bool(idsrc)
            rep.ob("provenance", joined, site(sa, b), "remove_or_restart_actor is given the id that the *joined task itself* reported (%s branch); sources %s" % ("other remote" if on_other else "requested remote", sorted(map(str, idsrc))),
                   skey(F, sa, "restart-joined-id:%s" % ("other" if on_other else "own")))
            try:
                seq = seq_vec(op_base(t["args"][2]), b)
                why = ""
            except _Unsup as e:
                seq, why = None, " (could not be extracted, fails closed: %s)" % e
            if on_other:
                rep.ob("provenance", seq == ["leftovers"], site(sa, b), "another remote's actor is restarted with exactly its own leftovers; handed over: %s%s" % (seq, why), skey(F, sa, "other-leftovers-only"))
            else:
                rep.ob("provenance", seq == ["leftovers", "failed-message"], site(sa, b), "for the requested remote the new actor's initial messages are the old actor's leftovers followed by the message whose send failed (request order kept); handed over: %s%s" % (seq, why), skey(F, sa, "append-failed-msg"))
    # ---- writers
    w = []
    for f in F.all_fns(crates=["iroh"], callee_regex=r"ConcurrentReadMap::(insert|remove|get_or_insert_with|clear|retain)$"):
        for b, t in f.calls():
            if call_matches(t, r"ConcurrentReadMap::(insert|remove|get_or_insert_with|clear|retain)$") and recv_field(f, t["args"][0]) == "senders":
                w.append((f, b, t))
    rep.floor("who_writes", "mutations of RemoteMap.senders", len(w), 3)
    for f, b, t in w:
        rep.fn(f)
        rep.ob("who_writes", source_fn(F, f) in (RM + "RemoteMap::send_to_actor", RM + "RemoteMap::remove_or_restart_actor"), site(f, b), "senders.%s in %s" % (callee_names(t)[0].rsplit("::", 1)[-1], source_fn(F, f)), skey(F, f, "senders-writer"))
    cs = call_sites(F, RM + "Tasks::start_remote_state_actor", crates=["iroh"])
    for f, b, t, kind in cs:
        rep.ob("who_calls", source_fn(F, f) in (RM + "RemoteMap::send_to_actor", RM + "RemoteMap::remove_or_restart_actor"), site(f, b), "start_remote_state_actor called from %s" % source_fn(F, f), skey(F, f, "start-caller"))


def copy_source_locals_(f, l):
    out = {l}
    for x in copy_sources(f, l):
        if x[0] in ("place", "arg"):
            out.add(x[1])
    return out
