"""C37 DNS server keeps the newest packet per key (upsert arm shape)."""
from ..lib import *

S = "iroh_dns_server::store::signed_packets::"
SP = "iroh_dns::pkarr::SignedPacket"
MSG = S + "Message"


def check(F, rep):
    rep.clause("Upsert: the no-op path (ack false) is taken exactly when the stored packet is more_recent_than the offered one (receiver = table read, argument = message), and touches no table; the update path inserts the offered packet and then acks true")
    rep.clause("more_recent_than compares timestamps self-vs-other in that orientation and breaks ties on the encoded packet")
    rep.clause("served = stored: after an acknowledged update every path of ZoneStore::insert passes through the invalidation of the cached zone for that key, so DNS answers cannot keep coming from the zone of a packet that lost")
    rep.undecided("permutation invariance over publish histories (values)")
    hm = get_fn(F, rep, S + "Actor::handle_message")
    sw = enum_switches(F, hm, MSG)
    if len(sw) != 1:
        rep.missing("upsert", "switch on Message in handle_message (%d)" % len(sw))
        return
    b, pl, arms, other = sw[0]
    region = arm_region(hm, b, arms["Upsert"])
    du = defuse(hm)
    mr = [(cb, t) for cb, t in calls_in(hm, region) if is_call_to(t, SP + "::more_recent_than")]
    rep.exact("upsert", "more_recent_than calls in the Upsert arm", len(mr), 1)
    sends = [(cb, t) for cb, t in calls_in(hm, region) if call_matches(t, r"oneshot::Sender::send$")]
    tbl_ins = [(cb, t) for cb, t in calls_in(hm, region) if call_matches(t, r"redb::.*(Table|MultimapTable)::insert$")]
    tbl_rem = [(cb, t) for cb, t in calls_in(hm, region) if call_matches(t, r"redb::.*(Table|MultimapTable)::remove$")]
    rep.exact("upsert", "acks in the Upsert arm", len(sends), 2)
    if not mr:
        return
    mb, mt = mr[0]
    recv = op_base(mt["args"][0])
    arg = op_base(mt["args"][1])
    rep.ob("orientation", du.derives_from_call(recv, S + "get_packet") and not du.derives_from_call(arg, S + "get_packet"), site(hm, mb),
           "receiver of more_recent_than is the stored packet (table read)", skey(F, hm, "recv-is-stored"))
    asrc = copy_sources(hm, arg)
    rep.ob("orientation", bool(asrc) and all(x[0] == "arg" and x[1] == 2 and x[2][-1:] == ("packet",) for x in asrc), site(hm, mb),
           "argument is the offered packet from the message; sources %s" % sorted(map(str, asrc)), skey(F, hm, "arg-is-offered"))
    ts, _ = call_result_tests(hm, mb, family="bool")
    acks = {}
    for cb, t in sends:
        v = operand_sources(hm, t["args"][1], follow=True)
        acks[cb] = v
    f_acks = [cb for cb, v in acks.items() if v == {("const", "false")}]
    t_acks = [cb for cb, v in acks.items() if v == {("const", "true")}]
    rep.ob("ack", len(f_acks) == 1 and len(t_acks) == 1, site(hm, mb), "one `false` ack and one `true` ack: %s" % {k: sorted(map(str, v)) for k, v in acks.items()}, skey(F, hm, "acks"))
    if f_acks and t_acks:
        fa, ta = f_acks[0], t_acks[0]
        rep.ob("ack", requires(hm, fa, ts), site(hm, fa), "ack(false) requires stored.more_recent_than(offered)", skey(F, hm, "noop-requires-newer"))
        # no table mutation on the way to / after the false ack within this message
        path_blocks = {x for x in region if fa in hm.reachable(x)} | {x for x in hm.reachable(fa) if x in region}
        mut_on_noop = [cb for cb, t in tbl_ins + tbl_rem if cb in path_blocks and requires(hm, cb, ts)]
        rep.ob("ack", not mut_on_noop, site(hm, fa), "the no-op path mutates no table", skey(F, hm, "noop-no-mutation"))
        rep.ob("ack", requires_failure(hm, ta, ts) or not requires(hm, ta, ts), site(hm, ta), "ack(true) is not on the newer-stored path", skey(F, hm, "true-not-on-noop"))
        pins = [(cb, t) for cb, t in tbl_ins if recv_field(hm, t["args"][0]) == "signed_packets"]
        rep.exact("ack", "signed_packets.insert in the Upsert arm", len(pins), 1)
        if pins:
            pb, pt = pins[0]
            rep.ob("ack", hm.dominates(pb, ta), site(hm, ta), "ack(true) only after the row was written", skey(F, hm, "ack-after-insert"))
            vs = du.closure(op_base(pt["args"][2]))
            rep.ob("ack", du.derives_from_call(op_base(pt["args"][2]), S + "serialize") and any(True for _ in [1]), site(hm, pb), "the row written is serialize(offered packet)", skey(F, hm, "row-is-offered"))
            sc = [x for x in du.origin_calls(op_base(pt["args"][2])) if is_call_to(x[1], S + "serialize")]
            if sc:
                ss = copy_sources(hm, op_base(sc[0][1]["args"][0]))
                rep.ob("ack", bool(ss) and all(x[0] == "arg" and x[2][-1:] == ("packet",) for x in ss), site(hm, pb), "serialize() is applied to the message's packet", skey(F, hm, "serialize-offered"))
            rep.ob("ack", not requires(hm, pb, ts), site(hm, pb), "the write is not on the newer-stored path", skey(F, hm, "insert-not-on-noop"))
    # ---- more_recent_than orientation
    m = get_fn(F, rep, SP + "::more_recent_than")
    mdu = defuse(m)
    gts = [(cb, t) for cb, t in find_calls(m, "core::cmp::PartialOrd::gt", "core::cmp::PartialOrd::lt", "core::cmp::PartialOrd::ge", "core::cmp::PartialOrd::le")]
    rep.exact("orientation", "ordering comparisons in more_recent_than", len(gts), 2)
    kinds = set()
    for cb, t in gts:
        a0, a1 = op_base(t["args"][0]), op_base(t["args"][1])
        self_first = mdu.derives_from_arg(a0, 1) and not mdu.derives_from_arg(a0, 2) and mdu.derives_from_arg(a1, 2) and not mdu.derives_from_arg(a1, 1)
        n = callee_names(t)[0].rsplit("::", 1)[-1]
        what = "timestamp" if mdu.derives_from_call(a0, SP + "::timestamp") else ("encoded_packet" if mdu.derives_from_call(a0, SP + "::encoded_packet") else "?")
        kinds.add(what)
        rep.ob("orientation", self_first and n == "gt", site(m, cb), "`self.%s() > other.%s()` (callee %s, self first=%s)" % (what, what, n, self_first), skey(F, m, "gt-" + what))
    rep.ob("orientation", kinds == {"timestamp", "encoded_packet"}, site(m), "compares timestamps, tie-break on the encoded packet: %s" % sorted(kinds), skey(F, m, "tie-break"))
    eq = find_calls(m, "core::cmp::PartialEq::eq")
    if eq and gts:
        ets, _ = call_result_tests(m, eq[0][0], family="bool")
        for cb, t in gts:
            what = "timestamp" if mdu.derives_from_call(op_base(t["args"][0]), SP + "::timestamp") else "encoded_packet"
            ok = requires(m, cb, ets) if what == "encoded_packet" else requires_failure(m, cb, ets)
            rep.ob("orientation", ok, site(m, cb), "%s comparison on the %s-timestamps branch" % (what, "equal" if what == "encoded_packet" else "different"), skey(F, m, "branch-" + what))
    from .C38 import invalidation_unconditional
    invalidation_unconditional(F, rep, "served")
