"""C18 Mapped addresses form a stable bijection."""
from ..lib import *
from ..lockset import guards

M = "iroh::socket::mapped_addrs::"
AM = M + "AddrMap"
INNER = M + "AddrMapInner"
MUT = r"^(std::collections::hash::map::HashMap|hashbrown::map::HashMap|rustc_hash::.*)::(insert|remove|remove_entry|clear|retain|drain|entry|extend|get_mut|extract_if|try_insert)$"
TYPES = {"EndpointIdMappedAddr": "ENDPOINT_ID_SUBNET", "RelayMappedAddr": "RELAY_MAPPED_SUBNET", "CustomMappedAddr": "CUSTOM_MAPPED_SUBNET"}


def consts_used(f):
    out = set()
    du = defuse(f)
    for l in range(len(f.locals)):
        for o in du.origins[l]:
            if o[0] == "const" and o[3].get("def"):
                out.add(o[3]["def"])
    for b, t in f.calls():
        for a in t["args"]:
            if a["k"] == "const" and a.get("def"):
                out.add(a["def"])
    return out


def check(F, rep):
    rep.clause("both directions of the map live behind one mutex and AddrMap::get performs lookup, generate-until-unused and both inserts under one continuously held guard; get is the only writer; entries are never removed; the forward and reverse insert carry the same (key, addr) pair")
    rep.clause("per mapped type, generate() and TryFrom<Ipv6Addr> use the same prefix / global id / subnet constants, the three subnets are pairwise distinct, and the newtypes are only built by those two functions; SocketAddr classification tries all three mapped kinds before treating an address as plain IP")
    rep.undecided("quality of the random 64-bit suffix")
    g = get_fn(F, rep, AM + "::get")
    gs = guards(g)
    rep.exact("lockset", "lock acquisitions in AddrMap::get", len(gs), 1)
    hm_calls = [(b, t) for b, t in g.calls() if call_matches(t, r"HashMap::(get|contains_key|insert)$")]
    rep.floor("lockset", "map operations in AddrMap::get", len(hm_calls), 4)
    if gs:
        held = gs[0].held_blocks()
        for b, t in hm_calls:
            rep.ob("atomic-set", b in held, site(g, b), "%s on `%s` happens under the single guard" % (callee_names(t)[0].rsplit("::", 1)[-1], recv_field(g, t["args"][0])), skey(F, g, "under-guard:%s.%s" % (recv_field(g, t["args"][0]), callee_names(t)[0].rsplit("::", 1)[-1])))
        rep.ob("atomic-set", any(d[2][-1:] == ("inner",) for d in gs[0].lock if len(d) == 3), site(g, gs[0].bb), "the guard is on AddrMap.inner (both maps behind it)", skey(F, g, "guard-inner"))
    adt = F.adt(INNER)
    rep.ob("atomic-set", {f["name"] for f in adt["variants"][0]["fields"]} == {"addrs", "lookup"}, INNER, "AddrMapInner holds exactly the forward and the reverse map", INNER + "|fields")
    # who mutates
    for fld in ("addrs", "lookup"):
        users = [x for x in field_accesses(F, INNER, fld, crates=["iroh"]) if x[3] in ("refmut", "write")]
        for f, b, i, kind, s in users:
            rep.fn(f)
            ok = f is g
            rep.ob("who_writes", ok, site(f, b), "AddrMapInner.%s mutably accessed in %s" % (fld, source_fn(F, f)), skey(F, f, "mut-" + fld))
            if kind == "refmut":
                for cb, ct, ai in ref_consumers(f, s["lhs"]["l"]):
                    if ai == 0:
                        n = callee_names(ct)[0].rsplit("::", 1)[-1]
                        rep.ob("who_writes", n in ("insert", "get", "contains_key"), site(f, cb), "operation on %s: %s (no removal)" % (fld, n), skey(F, f, "op-%s-%s" % (fld, n)))
    # inserts
    ins = [(b, t) for b, t in g.calls() if call_matches(t, r"HashMap::insert$")]
    ia = [(b, t) for b, t in ins if recv_field(g, t["args"][0]) == "addrs"]
    il = [(b, t) for b, t in ins if recv_field(g, t["args"][0]) == "lookup"]
    rep.exact("bijection", "inserts into addrs", len(ia), 1)
    rep.exact("bijection", "inserts into lookup", len(il), 1)
    if ia and il:
        ab, at = ia[0]
        lb, lt = il[0]
        rep.ob("bijection", g.dominates(ab, lb) and g.postdominates(lb, ab), site(g, lb), "every forward insert is followed by the reverse insert on the same path", skey(F, g, "paired-inserts"))
        va = copy_sources(g, op_base(at["args"][2]))
        vl = copy_sources(g, op_base(lt["args"][1]))
        rep.ob("bijection", va == vl and bool(va) and all(x[0] == "call" and x[1].endswith("MappedAddr::generate") for x in va), site(g, lb), "both inserts carry the same freshly generated address; %s" % sorted(map(str, va)), skey(F, g, "same-addr"))
        du = defuse(g)
        rep.ob("bijection", du.derives_from_arg(op_base(at["args"][1]), 2) and du.derives_from_arg(op_base(lt["args"][2]), 2), site(g, ab), "both inserts carry (a clone of) the key argument", skey(F, g, "same-key"))
        ck = [(b, t) for b, t in g.calls() if call_matches(t, r"HashMap::contains_key$") and recv_field(g, t["args"][0]) == "lookup"]
        rep.exact("bijection", "uniqueness checks against the reverse map", len(ck), 1)
        if ck:
            ts, _ = call_result_tests(g, ck[0][0], family="bool")
            rep.ob("bijection", requires_failure(g, ab, ts), site(g, ab), "an address is inserted only if the reverse map does not contain it yet (generate-until-unused)", skey(F, g, "unique"))
            fail_to_loop = {tg for t in ts for _, tg in t.success}
            rep.ob("bijection", all(ck[0][0] in g.reachable(tg) for tg in fail_to_loop) and bool(fail_to_loop), site(g, ck[0][0]), "a collision loops back to generate another candidate", skey(F, g, "retry"))
        gt = [(b, t) for b, t in g.calls() if call_matches(t, r"HashMap::get$") and recv_field(g, t["args"][0]) == "addrs"]
        if gt:
            ts, _ = call_result_tests(g, gt[0][0])
            rep.ob("bijection", requires_failure(g, ab, ts), site(g, ab), "a new address is generated only when the key has none yet (stability)", skey(F, g, "stable"))
            rep.ob("bijection", du.derives_from_arg(op_base(gt[0][1]["args"][1]), 2), site(g, gt[0][0]), "lookup by the key argument", skey(F, g, "lookup-key"))
    # ---- per type tables
    subnets = {}
    for ty, sub in TYPES.items():
        gen = F.fns_named("<%s%s as %sMappedAddr>::generate" % (M, ty, M))
        tf = [x for x in F.fns_named("<%s%s as core::convert::TryFrom>::try_from" % (M, ty)) if "Ipv6Addr" in x.path]
        if len(gen) != 1 or len(tf) != 1:
            rep.missing("table_agreement", "%s generate/try_from (%d/%d)" % (ty, len(gen), len(tf)))
            continue
        rep.fn(gen[0]); rep.fn(tf[0])
        cg = {c.rsplit("::", 1)[-1] for c in consts_used(gen[0]) if c.startswith(M)}
        ct = {c.rsplit("::", 1)[-1] for c in consts_used(tf[0]) if c.startswith(M)}
        want = {"ADDR_PREFIXL", "ADDR_GLOBAL_ID", sub}
        rep.ob("table_agreement", cg == want and ct == want, ty, "generate uses %s, try_from checks %s (expected %s)" % (sorted(cg), sorted(ct), sorted(want)), "%s|prefix-consts" % ty)
        # try_from: Ok only under all three comparisons
        t = tf[0]
        oks = [b for b, i, rv in returns_of(t) if i is not None and rv["k"] == "agg" and rv.get("variant") == "Ok"]
        cmps = []
        for cb, s, ts in cmp_tests(t, ops=("Eq",)):
            cmps.append(ts)
        for cb, ct_ in find_calls(t, "core::cmp::PartialEq::eq"):
            cmps.append(call_result_tests(t, cb, family="bool")[0])
        okc = sum(1 for ts in cmps if oks and all(requires(t, b, ts) for b in oks))
        rep.ob("table_agreement", okc >= 3, ty, "try_from returns Ok only under all three prefix comparisons (%d guarding comparisons)" % okc, "%s|try_from-guards" % ty)
        sites = [x for x in ctor_sites(F, M + ty, crates=["iroh"]) if not x[0].derived]
        for f, b, i, rv in sites:
            rep.ob("ctor_sites", f in (gen[0], tf[0]), site(f, b), "%s constructed in %s" % (ty, source_fn(F, f)), skey(F, f, "ctor-" + ty))
        try:
            subnets[ty] = F.const(M + sub)["val"]
        except KeyError:
            rep.missing("table_agreement", "const " + sub)
    rep.ob("table_agreement", len(subnets) == 3 and len(set(subnets.values())) == 3, M, "the three subnet constants are pairwise distinct: %s" % subnets, M + "subnets-distinct")
    # ---- classification
    fr = F.fns_named("<%sMultipathMappedAddr as core::convert::From>::from" % M)
    fr = [x for x in fr if "SocketAddr" in x.path]
    if len(fr) == 1:
        f = rep.fn(fr[0])
        tries = [(b, t) for b, t in f.calls() if call_matches(t, r"TryFrom::try_from$|TryInto::try_into$")]
        tys = set()
        for b, t in tries:
            for k in TYPES:
                if k in f.locals[t["dest"]["l"]]:
                    tys.add(k)
        ips = [b for b, i, rv in aggregates_in(f, f.reachable(0), M + "MultipathMappedAddr") if rv["variant"] == "Ip"]
        v6_ip = [b for b in ips if all(f.dominates(tb, b) for tb, t in tries)]
        rep.ob("classification", tys == set(TYPES) and len(v6_ip) >= 1, site(f), "an IPv6 socket address is classified as plain Ip only after all three mapped conversions were tried: %s" % sorted(tys), M + "MultipathMappedAddr|from")
    else:
        rep.missing("classification", "From<SocketAddr> for MultipathMappedAddr")
