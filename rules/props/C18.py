"""C18 Mapped addresses form a stable bijection."""
from ..lib import *
from ..lockset import guards

M = "iroh::socket::mapped_addrs::"
AM = M + "AddrMap"
INNER = M + "AddrMapInner"
MUT = r"^(std::collections::hash::map::HashMap|hashbrown::map::HashMap|rustc_hash::.*)::(insert|remove|remove_entry|clear|retain|drain|entry|extend|get_mut|extract_if|try_insert)$"
TYPES = {"EndpointIdMappedAddr": "ENDPOINT_ID_SUBNET", "RelayMappedAddr": "RELAY_MAPPED_SUBNET", "CustomMappedAddr": "CUSTOM_MAPPED_SUBNET"}


def consts_used(f):
    out = set()
    du = defuse(f)
    for l in range(len(f.locals)):
        for o in du.origins[l]:
            if o[0] == "const" and o[3].get("def"):
                out.add(o[3]["def"])
    for b, t in f.calls():
        for a in t["args"]:
            if a["k"] == "const" and a.get("def"):
                out.add(a["def"])
    return out


def _range_of(f, l):
    """(start, end) of the Range<usize> aggregate held in local `l` (constant bounds), else None"""
    for b, i, st in f.stmts():
        if st["k"] == "a" and st["lhs"] == {"l": l} and st["rv"]["k"] == "agg" and "Range" in str(st["rv"].get("adt", "") or st["rv"].get("def", "") or f.locals[l]):
            ops = st["rv"]["ops"]
            vals = []
            for o in ops:
                m = re.match(r"^(?:const )?(\d+)_usize$", str(o.get("v"))) if o["k"] == "const" else None
                vals.append(int(m.group(1)) if m else None)
            if len(vals) == 2 and None not in vals:
                return tuple(vals)
    return None


def _const_names(f, l):
    cs = copy_sources(f, l)
    if cs and all(x[0] == "const" for x in cs):
        return {str(x[1]).rsplit("::", 1)[-1] for x in cs}
    return None


def _sub_range(f, l, is_array):
    """local `l` is (a reborrow of) `array[start..end]`: returns (start, end)"""
    seen = set()
    while l is not None and l not in seen:
        seen.add(l)
        dc = def_call(f, l)
        if dc is not None:
            t = dc[1]
            if call_matches(t, r"ops::index::(Index::index|IndexMut::index_mut)$") and is_array(op_base(t["args"][0])):
                return _range_of(f, op_base(t["args"][1]))
            return None
        nxt = None
        for b, i, st in f.stmts():
            if st["k"] == "a" and st["lhs"] == {"l": l}:
                rv = st["rv"]
                if rv["k"] == "ref" and all(e[0] == "deref" for e in rv["p"].get("p", [])):
                    nxt = rv["p"]["l"]
                elif rv["k"] in ("use", "cast") and rv["o"]["k"] in ("copy", "move") and all(e[0] == "deref" for e in rv["o"]["p"].get("p", [])):
                    nxt = rv["o"]["p"]["l"]
        l = nxt
    return None


def _idx_const(f, idx_local):
    for b, i, st in f.stmts():
        if st["k"] == "a" and st["lhs"] == {"l": idx_local} and st["rv"]["k"] == "use" and st["rv"]["o"]["k"] == "const":
            m = re.match(r"^(?:const )?(\d+)_usize$", str(st["rv"]["o"].get("v")))
            if m:
                return int(m.group(1))
    return None


def written_prefix(f):
    """generate(): {(start, end): const names} written into the [u8; 16] that becomes the address"""
    arrays = {l for l in range(len(f.locals)) if str(f.locals[l]) == "[u8; 16]"}
    is_array = lambda l: l is not None and (l in arrays or (bool(copy_sources(f, l, stop=arrays)) and all(x[0] == "place" and x[1] in arrays and not x[2] for x in copy_sources(f, l, stop=arrays))))
    out = {}
    other = []
    for b, i, st in f.stmts():
        if st["k"] == "a" and st["lhs"]["l"] in arrays and st["lhs"].get("p"):
            pr = st["lhs"]["p"]
            if len(pr) == 1 and pr[0][0] == "idx" and st["rv"]["k"] == "use" and st["rv"]["o"]["k"] == "const":
                k = _idx_const(f, pr[0][1])
                if k is not None:
                    out[(k, k + 1)] = {str(st["rv"]["o"].get("def") or st["rv"]["o"].get("v")).rsplit("::", 1)[-1]}
                    continue
            other.append(site(f, b))
    for b, t in f.calls():
        if call_matches(t, r"copy_from_slice$|clone_from_slice$"):
            r = _sub_range(f, op_base(t["args"][0]), is_array)
            c = _const_names(f, op_base(t["args"][1]))
            if r is not None and c is not None:
                out[r] = c
            elif r is not None or is_array(op_base(t["args"][0])):
                other.append(site(f, b))
    return out, other


def checked_prefix(f, oks):
    """try_from (inlined view): {(start, end): const names} compared for equality with the
    address octets, each comparison being required (true edge) by every Ok return"""
    oct_calls = find_calls(f, regex=r"Ipv6Addr::octets$")
    arrays = {t["dest"]["l"] for b, t in oct_calls}
    is_array = lambda l: l is not None and bool(copy_sources(f, l)) and all(x[0] == "call" and x[1].endswith("Ipv6Addr::octets") and not x[2] for x in copy_sources(f, l))
    out = {}
    for cb, st, ts in cmp_tests(f, ops=("Eq",)):
        if not (oks and all(requires(f, b, ts) for b in oks)):
            continue
        for x, y in ((st["rv"]["a"], st["rv"]["b"]), (st["rv"]["b"], st["rv"]["a"])):
            if y["k"] != "const" or op_base(x) is None:
                continue
            # x = octets[k]
            for b2, i2, s2 in f.stmts():
                if s2["k"] == "a" and s2["lhs"] == {"l": op_base(x)} and s2["rv"]["k"] == "use" and s2["rv"]["o"]["k"] in ("copy", "move"):
                    pp = s2["rv"]["o"]["p"]
                    if len(pp.get("p", [])) == 1 and pp["p"][0][0] == "idx" and is_array(pp["l"]):
                        k = _idx_const(f, pp["p"][0][1])
                        if k is not None:
                            out[(k, k + 1)] = {str(y.get("def") or y.get("v")).rsplit("::", 1)[-1]}
    for cb, t in find_calls(f, "core::cmp::PartialEq::eq"):
        ts = call_result_tests(f, cb, family="bool")[0]
        if not (oks and all(requires(f, b, ts) for b in oks)):
            continue
        for x, y in ((t["args"][0], t["args"][1]), (t["args"][1], t["args"][0])):
            r = _sub_range(f, op_base(x), is_array) if op_base(x) is not None else None
            c = _const_names(f, op_base(y)) if op_base(y) is not None else None
            if r is not None and c is not None:
                out[r] = c
    return out


def check(F, rep):
    rep.clause("both directions of the map live behind one mutex and AddrMap::get performs lookup, generate-until-unused and both inserts under one continuously held guard; get is the only writer; entries are never removed; the forward and reverse insert carry the same (key, addr) pair")
    rep.clause("per mapped type, generate() writes and TryFrom<Ipv6Addr> compares (whole-range equality, required by every Ok return) the same byte ranges 0, 1..6, 6..8 against the same prefix / global id / subnet constants (byte-range tables extracted from both functions, helpers inlined), the three subnets are pairwise distinct, and the newtypes are only built by those two functions; SocketAddr classification tries all three mapped kinds before treating an address as plain IP")
    rep.undecided("quality of the random 64-bit suffix")
    g = get_fn(F, rep, AM + "::get")
    gs = guards(g)
    rep.exact("lockset", "lock acquisitions in AddrMap::get", len(gs), 1)
    hm_calls = [(b, t) for b, t in g.calls() if call_matches(t, r"HashMap::(get|contains_key|insert)$")]
    rep.floor("lockset", "map operations in AddrMap::get", len(hm_calls), 4)
    if gs:
        held = gs[0].held_blocks()
        for b, t in hm_calls:
            rep.ob("atomic-set", b in held, site(g, b), "%s on `%s` happens under the single guard" % (callee_names(t)[0].rsplit("::", 1)[-1], recv_field(g, t["args"][0])), skey(F, g, "under-guard:%s.%s" % (recv_field(g, t["args"][0]), callee_names(t)[0].rsplit("::", 1)[-1])))
        rep.ob("atomic-set", any(d[2][-1:] == ("inner",) for d in gs[0].lock if len(d) == 3), site(g, gs[0].bb), "the guard is on AddrMap.inner (both maps behind it)", skey(F, g, "guard-inner"))
    adt = F.adt(INNER)
    rep.ob("atomic-set", {f["name"] for f in adt["variants"][0]["fields"]} == {"addrs", "lookup"}, INNER, "AddrMapInner holds exactly the forward and the reverse map", INNER + "|fields")
    # who mutates
    for fld in ("addrs", "lookup"):
        users = [x for x in field_accesses(F, INNER, fld, crates=["iroh"]) if x[3] in ("refmut", "write")]
        for f, b, i, kind, s in users:
            rep.fn(f)
            ok = f is g
            rep.ob("who_writes", ok, site(f, b), "AddrMapInner.%s mutably accessed in %s" % (fld, source_fn(F, f)), skey(F, f, "mut-" + fld))
            if kind == "refmut":
                for cb, ct, ai in ref_consumers(f, s["lhs"]["l"]):
                    if ai == 0:
                        n = callee_names(ct)[0].rsplit("::", 1)[-1]
                        rep.ob("who_writes", n in ("insert", "get", "contains_key"), site(f, cb), "operation on %s: %s (no removal)" % (fld, n), skey(F, f, "op-%s-%s" % (fld, n)))
    # inserts
    ins = [(b, t) for b, t in g.calls() if call_matches(t, r"HashMap::insert$")]
    ia = [(b, t) for b, t in ins if recv_field(g, t["args"][0]) == "addrs"]
    il = [(b, t) for b, t in ins if recv_field(g, t["args"][0]) == "lookup"]
    rep.exact("bijection", "inserts into addrs", len(ia), 1)
    rep.exact("bijection", "inserts into lookup", len(il), 1)
    if ia and il:
        ab, at = ia[0]
        lb, lt = il[0]
        rep.ob("bijection", g.dominates(ab, lb) and g.postdominates(lb, ab), site(g, lb), "every forward insert is followed by the reverse insert on the same path", skey(F, g, "paired-inserts"))
        va = copy_sources(g, op_base(at["args"][2]))
        vl = copy_sources(g, op_base(lt["args"][1]))
        rep.ob("bijection", va == vl and bool(va) and all(x[0] == "call" and x[1].endswith("MappedAddr::generate") for x in va), site(g, lb), "both inserts carry the same freshly generated address; %s" % sorted(map(str, va)), skey(F, g, "same-addr"))
        du = defuse(g)
        rep.ob("bijection", du.derives_from_arg(op_base(at["args"][1]), 2) and du.derives_from_arg(op_base(lt["args"][2]), 2), site(g, ab), "both inserts carry (a clone of) the key argument", skey(F, g, "same-key"))
        ck = [(b, t) for b, t in g.calls() if call_matches(t, r"HashMap::contains_key$") and recv_field(g, t["args"][0]) == "lookup"]
        rep.exact("bijection", "uniqueness checks against the reverse map", len(ck), 1)
        if ck:
            ts, _ = call_result_tests(g, ck[0][0], family="bool")
            rep.ob("bijection", requires_failure(g, ab, ts), site(g, ab), "an address is inserted only if the reverse map does not contain it yet (generate-until-unused)", skey(F, g, "unique"))
            fail_to_loop = {tg for t in ts for _, tg in t.success}
            rep.ob("bijection", all(ck[0][0] in g.reachable(tg) for tg in fail_to_loop) and bool(fail_to_loop), site(g, ck[0][0]), "a collision loops back to generate another candidate", skey(F, g, "retry"))
        gt = [(b, t) for b, t in g.calls() if call_matches(t, r"HashMap::get$") and recv_field(g, t["args"][0]) == "addrs"]
        if gt:
            ts, _ = call_result_tests(g, gt[0][0])
            rep.ob("bijection", requires_failure(g, ab, ts), site(g, ab), "a new address is generated only when the key has none yet (stability)", skey(F, g, "stable"))
            rep.ob("bijection", du.derives_from_arg(op_base(gt[0][1]["args"][1]), 2), site(g, gt[0][0]), "lookup by the key argument", skey(F, g, "lookup-key"))
    # ---- per type tables
    subnets = {}
    for ty, sub in TYPES.items():
        gen = F.fns_named("<%s%s as %sMappedAddr>::generate" % (M, ty, M))
        tf = [x for x in F.fns_named("<%s%s as core::convert::TryFrom>::try_from" % (M, ty)) if "Ipv6Addr" in x.path]
        if len(gen) != 1 or len(tf) != 1:
            rep.missing("table_agreement", "%s generate/try_from (%d/%d)" % (ty, len(gen), len(tf)))
            continue
        rep.fn(gen[0]); rep.fn(tf[0])
        from ..inline import inlined
        gi, t = inlined(F, gen[0]), inlined(F, tf[0])
        want = {(0, 1): {"ADDR_PREFIXL"}, (1, 6): {"ADDR_GLOBAL_ID"}, (6, 8): {sub}}
        wr, other_w = written_prefix(gi)
        rep.ob("table_agreement", wr == want and not other_w, ty, "generate writes exactly prefix byte 0, global id bytes 1..6 and this type's subnet bytes 6..8: %s%s" % ({"%d..%d" % k: sorted(v) for k, v in sorted(wr.items())}, "; other writes at %s" % other_w if other_w else ""), "%s|prefix-consts" % ty)
        # try_from: Ok only under equality of the same byte ranges with the same constants
        oks = [b for b, i, rv in returns_of(t) if i is not None and rv["k"] == "agg" and rv.get("variant") == "Ok"]
        ck = checked_prefix(t, oks)
        rep.ob("table_agreement", ck == wr and bool(oks), ty, "try_from returns Ok only when the same byte ranges equal the same constants that generate writes (whole-range equality): checked %s, written %s" % ({"%d..%d" % k: sorted(v) for k, v in sorted(ck.items())}, {"%d..%d" % k: sorted(v) for k, v in sorted(wr.items())}), "%s|try_from-guards" % ty)
        okv = [copy_sources(t, op_base(rv["ops"][0])) for b, i, rv in returns_of(t) if i is not None and rv["k"] == "agg" and rv.get("variant") == "Ok" and op_base(rv["ops"][0]) is not None]
        sites = [x for x in ctor_sites(F, M + ty, crates=["iroh"]) if not x[0].derived]
        for f, b, i, rv in sites:
            rep.ob("ctor_sites", f in (gen[0], tf[0]), site(f, b), "%s constructed in %s" % (ty, source_fn(F, f)), skey(F, f, "ctor-" + ty))
        try:
            subnets[ty] = F.const(M + sub)["val"]
        except KeyError:
            rep.missing("table_agreement", "const " + sub)
    rep.ob("table_agreement", len(subnets) == 3 and len(set(subnets.values())) == 3, M, "the three subnet constants are pairwise distinct: %s" % subnets, M + "subnets-distinct")
    # ---- classification
    fr = F.fns_named("<%sMultipathMappedAddr as core::convert::From>::from" % M)
    fr = [x for x in fr if "SocketAddr" in x.path]
    if len(fr) == 1:
        f = rep.fn(fr[0])
        tries = [(b, t) for b, t in f.calls() if call_matches(t, r"TryFrom::try_from$|TryInto::try_into$")]
        tys = set()
        for b, t in tries:
            for k in TYPES:
                if k in f.locals[t["dest"]["l"]]:
                    tys.add(k)
        ips = [b for b, i, rv in aggregates_in(f, f.reachable(0), M + "MultipathMappedAddr") if rv["variant"] == "Ip"]
        v6_ip = [b for b in ips if all(f.dominates(tb, b) for tb, t in tries)]
        rep.ob("classification", tys == set(TYPES) and len(v6_ip) >= 1, site(f), "an IPv6 socket address is classified as plain Ip only after all three mapped conversions were tried: %s" % sorted(tys), M + "MultipathMappedAddr|from")
    else:
        rep.missing("classification", "From<SocketAddr> for MultipathMappedAddr")
