"""C32 Signed packets are accepted only if authentic and are safe to inspect."""
from ..lib import *

SP = "iroh_dns::pkarr::SignedPacket"
PK = "iroh_base::key::PublicKey"
TRY_FROM = "<iroh_base::key::PublicKey as core::convert::TryFrom>::try_from"


def check(F, rep):
    rep.clause("SignedPacket values are built only by from_txt_strings / from_bytes / from_bytes_unchecked; from_bytes builds one only after the embedded key parsed, the signature over signable(timestamp, payload) verified under that key, the payload parsed and the length bounds held, all taken from the same byte string")
    rep.clause("constructor-established invariant behind the accessors: every construction site has validated bytes[..32] as a public key (or copied it from a PublicKey) and bytes.len() >= HEADER_SIZE, so public_key()/Debug/Display/txt_records cannot panic")
    rep.clause("the dns server reaches the *_unchecked constructors only from its own store / DHT conversion, never from the HTTP publish path")
    rep.undecided("`any modification is rejected` (cryptographic strength of ed25519)")

    private_fields(F, rep, SP, "an unauthenticated SignedPacket cannot be built by literal outside iroh_dns::pkarr")
    sites = [x for x in ctor_sites(F, SP) if not x[0].derived]
    rep.exact("ctor_sites", "SignedPacket construction sites", len(sites), 3)
    allowed = {SP + "::from_txt_strings", SP + "::from_bytes", SP + "::from_bytes_unchecked"}
    for f, b, i, rv in sites:
        rep.fn(f)
        src = source_fn(F, f)
        rep.ob("ctor_sites", src in allowed, site(f, b), "SignedPacket constructed in %s" % src, skey(F, f, "ctor"))
        du = defuse(f)
        name = src.rsplit("::", 1)[-1]
        # --- key validity invariant
        tf = [(cb, ct) for cb, ct in f.calls() if is_call_to(ct, TRY_FROM, "core::convert::TryFrom::try_from", PK + "::from_bytes") and "PublicKey" in f.locals[ct["dest"]["l"]]]
        valid = False
        why = "no validation of bytes[..32] as a public key"
        for cb, ct in tf:
            ts, _ = call_result_tests(f, cb)
            if requires(f, b, ts) and du.derives_from_arg(op_base(ct["args"][0]), 1):
                valid = True
                why = "requires Ok of PublicKey::try_from(bytes[..32])"
        if not valid:
            ab = [(cb, ct) for cb, ct in f.calls() if is_call_to(ct, PK + "::as_bytes")]
            ext = [(cb, ct) for cb, ct in f.calls() if call_matches(ct, r"^alloc::vec::Vec::extend_from_slice$")]
            if ab and ext:
                first = min(ext, key=lambda x: x[0])
                order = sorted(ext, key=lambda x: (0 if f.dominates(x[0], first[0]) else 1))
                firsts = [x for x in ext if all(f.dominates(x[0], y[0]) for y in ext)]
                if firsts and du.derives_from_call(op_base(firsts[0][1]["args"][1]), PK + "::as_bytes"):
                    valid = True
                    why = "first 32 bytes are PublicKey::as_bytes() of a PublicKey value"
        rep.ob("ctor_invariant", valid, site(f, b), "%s: key bytes of the constructed packet are a valid public key (%s) - public_key()/Debug/Display/txt_records `expect` it" % (name, why),
               "%s|valid-key" % src)
        # --- length invariant
        lens_ok = False
        if name == "from_txt_strings":
            ext = [(cb, ct) for cb, ct in f.calls() if call_matches(ct, r"^alloc::vec::Vec::extend_from_slice$")]
            srcs = []
            for cb, ct in sorted(ext, key=lambda x: sum(1 for y in ext if f.dominates(y[0], x[0]))):
                l = op_base(ct["args"][1])
                if du.derives_from_call(l, PK + "::as_bytes"):
                    srcs.append("key")
                elif du.derives_from_call(l, regex=r"Signature::to_bytes$"):
                    srcs.append("sig")
                elif du.derives_from_call(l, "iroh_dns::pkarr::Timestamp::to_be_bytes"):
                    srcs.append("ts")
                else:
                    srcs.append("payload")
            lens_ok = srcs == ["key", "sig", "ts", "payload"]
            rep.ob("ctor_invariant", lens_ok, site(f, b), "from_txt_strings lays out key(32) | signature(64) | timestamp(8) | payload in that order: %s" % srcs, "%s|layout" % src)
        else:
            # lower bound on the length, whatever the idiom (if-chain, range match, helper)
            from ..inline import inlined
            fi = inlined(F, f)
            hdr = const_int(F, {"k": "const", "def": "iroh_dns::pkarr::HEADER_SIZE"})

            def is_len(o, fi=fi):
                l = op_base(o)
                if l is None:
                    return False
                dc = def_call(fi, l)
                if dc is None or not re.search(r"::len$", callee_names(dc[1])[0]):
                    return False
                r = copy_sources(fi, op_base(dc[1]["args"][0]))
                return bool(r) and all(y[0] == "arg" and y[1] == 1 for y in r)
            # the construction block is the same block id in the inlined view (blocks are appended)
            lens_ok, ntests = (False, 0) if hdr is None else unreachable_when(F, fi, b, is_len, (0, 1, hdr - 1))
            rep.ob("ctor_invariant", lens_ok, site(f, b), "%s: construction requires !(bytes.len() < HEADER_SIZE) - the accessors slice [..32], [32..96], [96..104], [104..]" % name, "%s|min-len" % src)

    # ---- from_bytes: authenticity
    f = get_fn(F, rep, SP + "::from_bytes")
    du = defuse(f)
    site_b = [b for g, b, i, rv in sites if g is f]
    ver = find_calls(f, PK + "::verify")
    par = find_calls(f, regex=r"simple_dns::.*Packet::parse$")
    tf = [(cb, ct) for cb, ct in f.calls() if is_call_to(ct, TRY_FROM, "core::convert::TryFrom::try_from") and "PublicKey" in f.locals[ct["dest"]["l"]]]
    sg = find_calls(f, "iroh_dns::pkarr::signable")
    rep.exact("from_bytes", "PublicKey::verify calls", len(ver), 1)
    rep.exact("from_bytes", "Packet::parse calls", len(par), 1)
    rep.exact("from_bytes", "PublicKey::try_from calls", len(tf), 1)
    rep.exact("from_bytes", "signable calls", len(sg), 1)
    if site_b and ver and par and tf and sg:
        b = site_b[0]
        for what, calls in (("signature verification", ver), ("payload parse", par), ("key parse", tf)):
            ts, _ = call_result_tests(f, calls[0][0])
            rep.ob("from_bytes", requires(f, b, ts), site(f, b), "construction requires success of the %s" % what, SP + "::from_bytes|requires|" + what)
        vb, vt = ver[0]
        key_src = copy_sources(f, op_base(vt["args"][0]))
        rep.ob("from_bytes", bool(key_src) and all(x[0] == "call" and "try_from" in x[1] for x in key_src), site(f, vb), "the verifying key is the one parsed from the packet itself; sources %s" % sorted(map(str, key_src)), SP + "::from_bytes|key-from-packet")
        rep.ob("from_bytes", du.derives_from_call(op_base(vt["args"][1]), "iroh_dns::pkarr::signable"), site(f, vb), "the verified message is signable(..)", SP + "::from_bytes|msg-signable")
        sb, stt = sg[0]
        a0 = op_base(stt["args"][0])
        a1 = op_base(stt["args"][1])
        rep.ob("from_bytes", du.derives_from_arg(a0, 1) and du.derives_from_call(a0, regex=r"u64::from_be_bytes$|from_be_bytes$") and du.derives_from_arg(a1, 1), site(f, sb),
               "signable(timestamp, payload) takes both from the same input bytes", SP + "::from_bytes|signable-args")
        rep.ob("from_bytes", du.derives_from_arg(op_base(vt["args"][2]), 1) and du.derives_from_call(op_base(vt["args"][2]), regex=r"Signature::from_bytes$"), site(f, vb), "the signature checked is the packet's own", SP + "::from_bytes|sig-from-packet")
        # the payload parsed is the payload signed
        pa = op_base(par[0][1]["args"][0])
        rep.ob("from_bytes", copy_sources(f, pa) == copy_sources(f, a1) or (du.derives_from_arg(pa, 1)), site(f, par[0][0]), "the parsed payload comes from the same bytes", SP + "::from_bytes|parse-same")
        # stored bytes = input bytes
        for g, bb, i, rv in sites:
            if g is f:
                st = du.origin_calls(op_base(rv["ops"][0]))
                rep.ob("from_bytes", any(call_matches(t, r"(to_vec|to_owned|Vec::from|from)$") for _, t in st) and du.derives_from_arg(op_base(rv["ops"][0]), 1), site(f, bb), "the stored bytes are a copy of the verified input", SP + "::from_bytes|stores-input")
    # upper bound
    rp = get_fn(F, rep, SP + "::from_relay_payload")
    fb = find_calls(rp, SP + "::from_bytes")
    ok = len(fb) == 1 and fb[0][1]["dest"]["l"] == 0
    if ok:
        rdu = defuse(rp)
        a = op_base(fb[0][1]["args"][0])
        ok = rdu.derives_from_arg(a, 1) and rdu.derives_from_arg(a, 2) and rdu.derives_from_call(a, PK + "::as_bytes")
    rep.ob("from_relay_payload", ok, site(rp), "from_relay_payload only prepends the given key and delegates to from_bytes (result returned unchanged)", SP + "::from_relay_payload|delegates")
    pu = get_fn(F, rep, SP + "::from_parts_unchecked")
    fu = find_calls(pu, SP + "::from_bytes_unchecked")
    rep.ob("from_parts_unchecked", len(fu) == 1 and fu[0][1]["dest"]["l"] == 0, site(pu), "from_parts_unchecked delegates to from_bytes_unchecked", SP + "::from_parts_unchecked|delegates")

    # ---- provenance of unchecked constructors in the server
    if "iroh_dns_server" in F.crates:
        cs = call_sites(F, SP + "::from_bytes_unchecked", SP + "::from_parts_unchecked", crates=["iroh_dns_server"])
        rep.floor("provenance", "uses of *_unchecked constructors in iroh-dns-server", len(cs), 2)
        ok_callers = {"iroh_dns_server::store::signed_packets::deserialize", "iroh_dns_server::store::mutable_item_to_signed_packet"}
        for f2, b, t, kind in cs:
            rep.fn(f2)
            rep.ob("provenance", source_fn(F, f2) in ok_callers, site(f2, b), "unchecked constructor used in %s" % source_fn(F, f2), skey(F, f2, "unchecked-caller"))
