"""C03 Relay handshake admits an identity only with proof of its secret key."""
from ..lib import *

HS = "iroh_relay::protos::handshake::"
SA = HS + "SuccessfulAuthentication"
PKV = "iroh_base::key::PublicKey::verify"


def check(F, rep):
    rep.clause("every construction of SuccessfulAuthentication sits on the success edge of a signature verification of the same client_auth value whose public key it reports")
    rep.clause("ClientAuth::verify / KeyMaterialClientAuth::verify return Ok only through PublicKey::verify over the challenge-derived / exporter-derived message")
    rep.clause("the challenge verified is generated in the same activation by ServerChallenge::new and written before the reply is read")
    rep.clause("accept (ServerConfirmsAuth) is reached only on Access::Allow; registration requires successful authorize_with")
    rep.undecided("cryptographic strength; liveness for honest clients")

    # ---- 1. constructor sites
    sites = ctor_sites(F, SA)
    rep.floor("ctor_sites", "SuccessfulAuthentication construction sites", len(sites), 2)
    for f, b, i, rv in sites:
        rep.fn(f)
        src = source_fn(F, f)
        rep.ob("ctor_sites", src == HS + "serverside", site(f, b),
               "SuccessfulAuthentication constructed in %s" % src, skey(F, f, "ctor"))
        # verification calls in the same body
        vcalls = find_calls(f, HS + "KeyMaterialClientAuth::verify", HS + "ClientAuth::verify")
        guarding = []
        for cb, ct in vcalls:
            tests, _ = call_result_tests(f, cb)
            if requires(f, b, tests):
                guarding.append((cb, ct))
        mech = agg_shape(f, {"k": "use", "o": rv["ops"][rv["fields"].index("mechanism")]}, 1)
        rep.ob("requires_success", len(guarding) >= 1, site(f, b),
               "construction (%s) must require success of a verify call; guarding verify calls: %d of %d"
               % (mech, len(guarding), len(vcalls)), skey(F, f, "ctor-requires-verify:" + mech))
        # same client_auth value: exact provenance (copy chain), not mere dependence
        ck = rv["ops"][rv["fields"].index("client_key")]
        ckl = op_base(ck)
        verified = {arg_ref_target(f, ct["args"][0]) for cb, ct in guarding}
        srcs = copy_sources(f, ckl, stop=verified) if ckl is not None and not ck["p"].get("p") else set()
        if ckl is not None and ck["p"].get("p"):
            srcs = {("place", ckl, tuple(e[2] for e in ck["p"]["p"] if e[0] == "f"))}
        same = bool(srcs) and all(sx[0] == "place" and sx[1] in verified and sx[2][-1:] == ("public_key",) for sx in srcs)
        rep.ob("provenance", same, site(f, b),
               "client_key must be exactly the public_key field of the verified client_auth value; sources: %s"
               % sorted(str(x) for x in srcs), skey(F, f, "ctor-key-from-verified:" + mech))

    # ---- 2. the verify functions
    f = get_fn(F, rep, HS + "ClientAuth::verify")
    pv = find_calls(f, PKV)
    rep.exact("verify-shape", "PublicKey::verify calls in ClientAuth::verify", len(pv), 1)
    if pv:
        tests = tests_of_calls(f, pv)
        # return value: tagged chain or guarded
        ts, tags = call_result_tests(f, pv[0][0])
        for b, i, rv in returns_of(f):
            ok = False
            if i is None and rv["dest"]["l"] == 0 and 0 in tags and tags[0][0] == "result" and not tags[0][1]:
                ok = True
            elif i is not None and rv["k"] == "agg" and rv.get("variant") == "Err":
                ok = True
            elif requires(f, b, ts):
                ok = True
            rep.ob("return_shape", ok, site(f, b), "Ok return only through PublicKey::verify", skey(F, f, "ok-via-verify"))
        t = pv[0][1]
        du = defuse(f)
        recv = ref_source_place(f, op_base(t["args"][0]))
        rep.ob("derives_from", recv is not None and "public_key" in place_field_names(recv) and recv["l"] == 1,
               site(f, pv[0][0]), "verification key is self.public_key", skey(F, f, "key-is-self"))
        msg = op_base(t["args"][1])
        rep.ob("derives_from", du.derives_from_call(msg, HS + "ServerChallenge::message_to_sign") and du.derives_from_arg(msg, 2),
               site(f, pv[0][0]), "message derives from challenge.message_to_sign()", skey(F, f, "msg-from-challenge"))
        sig = op_base(t["args"][2])
        rep.ob("derives_from", ("iroh_relay::protos::handshake::ClientAuth", "signature") in du.field_reads(sig),
               site(f, pv[0][0]), "signature is self.signature", skey(F, f, "sig-is-self"))

    f = get_fn(F, rep, HS + "KeyMaterialClientAuth::verify")
    pv = find_calls(f, PKV)
    ex = find_calls(f, "iroh_relay::ExportKeyingMaterial::export_keying_material", regex=r"ExportKeyingMaterial::export_keying_material$")
    eq = [(b, t) for b, t in find_calls(f, "core::cmp::PartialEq::eq", "core::cmp::PartialEq::ne")]
    rep.exact("verify-shape", "PublicKey::verify calls in KeyMaterialClientAuth::verify", len(pv), 1)
    rep.exact("verify-shape", "export_keying_material calls", len(ex), 1)
    rep.floor("verify-shape", "suffix equality test", len(eq), 1)
    if pv and ex and eq:
        du = defuse(f)
        ts_pv, tags = call_result_tests(f, pv[0][0])
        ts_ex, _ = call_result_tests(f, ex[0][0])
        # the equality must compare the exported suffix with self.key_material_suffix
        eqs = []
        for b, t in eq:
            fr = set()
            for a in t["args"]:
                fr |= du.field_reads(op_base(a))
            if any(fld == "key_material_suffix" for _, fld in fr) and any(du.derives_from_call(op_base(a), regex=r"export_keying_material$") for a in t["args"]):
                eqs.append((b, t))
        rep.exact("verify-shape", "suffix==self.key_material_suffix comparisons", len(eqs), 1)
        ts_eq = []
        for eb, et_ in eqs:
            for x in tests_of_calls(f, [(eb, et_)], family="bool"):
                # `a != b`: equality holds on the false edge
                ts_eq.append(Test(x.bb, x.failure, x.success, x.level, x.family, not x.neg, x.local) if callee_names(et_)[0].endswith("::ne") else x)
        for b, i, rv in returns_of(f):
            if i is not None and rv["k"] == "agg" and rv.get("variant") == "Err":
                continue
            if i is None and is_call_to(rv, "core::ops::try_trait::FromResidual::from_residual"):
                continue
            via_verify = (i is None and 0 in tags and tags[0][0] == "result" and not tags[0][1]) or requires(f, b, ts_pv)
            rep.ob("return_shape", via_verify, site(f, b), "Ok return only through PublicKey::verify", skey(F, f, "ok-via-verify"))
            rep.ob("requires_success", requires(f, b, ts_ex), site(f, b), "Ok return requires exported keying material (Some)", skey(F, f, "ok-requires-export"))
            rep.ob("requires_success", requires(f, b, ts_eq), site(f, b), "Ok return requires suffix equality", skey(F, f, "ok-requires-suffix"))
        t = pv[0][1]
        recv = ref_source_place(f, op_base(t["args"][0]))
        rep.ob("derives_from", recv is not None and "public_key" in place_field_names(recv) and recv["l"] == 1,
               site(f, pv[0][0]), "verification key is self.public_key", skey(F, f, "key-is-self"))
        rep.ob("derives_from", du.derives_from_call(op_base(t["args"][1]), regex=r"export_keying_material$"),
               site(f, pv[0][0]), "message derives from the exported keying material", skey(F, f, "msg-from-export"))
        rep.ob("derives_from", ("iroh_relay::protos::handshake::KeyMaterialClientAuth", "signature") in du.field_reads(op_base(t["args"][2])),
               site(f, pv[0][0]), "signature is self.signature", skey(F, f, "sig-is-self"))
        # exporter context = self.public_key, label = the shared const
        et = ex[0][1]
        ctx = op_base(et["args"][3])
        rep.ob("derives_from", any(fld == "public_key" for _, fld in du.field_reads(ctx)) and du.derives_from_arg(ctx, 1),
               site(f, ex[0][0]), "exporter context derives from self.public_key", skey(F, f, "export-context"))
        lab = du.origin_facts(op_base(et["args"][2]), kinds=("const",))
        labs = {o[4].get("def") for o in lab if o[4].get("def")}
        rep.ob("same_const", labs == {HS + "DOMAIN_SEP_TLS_EXPORT_LABEL"}, site(f, ex[0][0]),
               "exporter label is DOMAIN_SEP_TLS_EXPORT_LABEL (got %s)" % sorted(labs), skey(F, f, "export-label"))
        # client side uses the same label and context derivation
        g = get_fn(F, rep, HS + "KeyMaterialClientAuth::new")
        gex = find_calls(g, regex=r"ExportKeyingMaterial::export_keying_material$")
        rep.exact("table_agreement", "export_keying_material calls in KeyMaterialClientAuth::new", len(gex), 1)
        if gex:
            gdu = defuse(g)
            glab = {o[4].get("def") for o in gdu.origin_facts(op_base(gex[0][1]["args"][2]), kinds=("const",)) if o[4].get("def")}
            rep.ob("table_agreement", glab == labs, site(g, gex[0][0]), "client and server use the same exporter label", skey(F, g, "export-label-agrees"))
            rep.ob("table_agreement", gdu.derives_from_call(op_base(gex[0][1]["args"][3]), "iroh_base::key::SecretKey::public"),
                   site(g, gex[0][0]), "client exporter context derives from secret_key.public()", skey(F, g, "export-context"))

    # ---- 3. message_to_sign: single producer with domain separation
    m = get_fn(F, rep, HS + "ServerChallenge::message_to_sign")
    dk = find_calls(m, "blake3::derive_key")
    rep.exact("same_const", "blake3::derive_key calls in message_to_sign", len(dk), 1)
    if dk:
        mdu = defuse(m)
        ctxs = {o[4].get("def") for o in mdu.origin_facts(op_base(dk[0][1]["args"][0]), kinds=("const",)) if o[4].get("def")}
        rep.ob("same_const", ctxs == {HS + "DOMAIN_SEP_CHALLENGE"}, site(m, dk[0][0]), "derive_key context is DOMAIN_SEP_CHALLENGE", skey(F, m, "domain-sep"))
        rep.ob("derives_from", (HS + "ServerChallenge", "challenge") in mdu.field_reads(op_base(dk[0][1]["args"][1])),
               site(m, dk[0][0]), "key material is self.challenge", skey(F, m, "challenge-bytes"))
    cn = get_fn(F, rep, HS + "ClientAuth::new")
    sg = find_calls(cn, "iroh_base::key::SecretKey::sign")
    rep.exact("table_agreement", "sign calls in ClientAuth::new", len(sg), 1)
    if sg:
        rep.ob("table_agreement", defuse(cn).derives_from_call(op_base(sg[0][1]["args"][1]), HS + "ServerChallenge::message_to_sign"),
               site(cn, sg[0][0]), "client signs challenge.message_to_sign() (same producer as the verifier)", skey(F, cn, "signs-message_to_sign"))

    # ---- 4. freshness in serverside
    s = body_of(F, rep, HS + "serverside")
    cav = find_calls(s, HS + "ClientAuth::verify")
    new = find_calls(s, HS + "ServerChallenge::new")
    rep.exact("freshness", "ClientAuth::verify calls in serverside", len(cav), 1)
    rep.exact("freshness", "ServerChallenge::new calls in serverside", len(new), 1)
    if cav and new:
        du = defuse(s)
        ch = arg_ref_target(s, cav[0][1]["args"][1])
        rep.ob("derives_from", ch is not None and ch == new[0][1]["dest"]["l"] or (ch is not None and new[0][1]["dest"]["l"] in du.closure(ch)),
               site(s, cav[0][0]), "challenge verified is the one produced by ServerChallenge::new in this activation", skey(F, s, "fresh-challenge"))
        chl = new[0][1]["dest"]["l"]
        wf = [(b, t) for b, t in find_calls(s, HS + "write_frame") if chl in du.closure(op_base(t["args"][1])) or arg_ref_target(s, t["args"][1]) == chl]
        rf = find_calls(s, HS + "read_frame")
        rep.floor("must_precede", "write_frame(challenge) calls", len(wf), 1)
        rep.exact("must_precede", "read_frame calls in serverside", len(rf), 1)
        if wf and rf:
            rep.ob("must_precede", s.dominates(wf[0][0], rf[0][0]) and s.dominates(rf[0][0], cav[0][0]),
                   site(s, rf[0][0]), "write_frame(challenge) dominates read_frame dominates ClientAuth::verify", skey(F, s, "challenge-before-read"))
        # the client_auth verified derives from the frame read after the challenge
        rl = arg_ref_target(s, cav[0][1]["args"][0])
        rep.ob("derives_from", rl is not None and rf and du.derives_from_call(rl, HS + "read_frame"),
               site(s, cav[0][0]), "verified client_auth derives from the frame read after the challenge", skey(F, s, "auth-from-read"))
        rng = find_calls(s, "rand::rng", regex=r"^rand::(rngs::thread::)?rng$")
        rep.ob("derives_from", bool(rng) and du.derives_from_call(op_base(new[0][1]["args"][0]), regex=r"^rand::(rngs::thread::)?rng$"),
               site(s, new[0][0]), "challenge randomness comes from rand::rng()", skey(F, s, "rng"))
    n = get_fn(F, rep, HS + "ServerChallenge::new")
    fb = find_calls(n, regex=r"(RngCore|Rng|TryRngCore|TryRng)::(fill_bytes|try_fill_bytes|fill)$")
    rep.floor("freshness", "rng.fill_bytes in ServerChallenge::new", len(fb), 1)
    ct = [x for x in ctor_sites(F, HS + "ServerChallenge") if not x[0].derived]
    for f2, b, i, rv in ct:
        rep.fn(f2)
        ok = source_fn(F, f2) == HS + "ServerChallenge::new"
        if ok and fb:
            du2 = defuse(f2)
            ok = any(op_base(a) is not None and arg_ref_target(f2, a) in du2.closure(op_base(rv["ops"][0])) | {op_base(rv["ops"][0])} for a in fb[0][1]["args"][1:])
        rep.ob("ctor_sites", ok, site(f2, b), "ServerChallenge built only in ::new from rng-filled bytes", skey(F, f2, "challenge-ctor"))

    # ---- 5. authorization
    acc = call_sites(F, HS + "SuccessfulAuthentication::accept")
    rep.floor("who_calls", "callers of SuccessfulAuthentication::accept", len(acc), 1)
    allowed = {HS + "SuccessfulAuthentication::authorize_with", HS + "SuccessfulAuthentication::authorize_if"}
    for f2, b, t, kind in acc:
        rep.fn(f2)
        src = source_fn(F, f2)
        rep.ob("who_calls", src in allowed and kind == "call", site(f2, b), "accept called from %s" % src, skey(F, f2, "accept-caller"))
    ACCESS = "iroh_relay::server::Access"
    deciders = 0
    for name in ("authorize_with", "authorize_if"):
        g = body_of(F, rep, HS + "SuccessfulAuthentication::" + name)
        ac = find_calls(g, HS + "SuccessfulAuthentication::accept")
        dn = find_calls(g, HS + "SuccessfulAuthentication::deny")
        if not ac and not dn:
            # pure delegation to the sibling (which is checked itself) is accepted
            other = "authorize_if" if name == "authorize_with" else "authorize_with"
            dl = find_calls(g, HS + "SuccessfulAuthentication::" + other)
            rep.ob("authorization", len(dl) == 1, site(g), "%s neither accepts nor denies itself: it must delegate to %s" % (name, other), skey(F, g, "delegates"))
            continue
        deciders += 1
        rep.exact("authorization", "accept calls in " + name, len(ac), 1)
        rep.exact("authorization", "deny calls in " + name, len(dn), 1)
        # the switch on the Access discriminant
        sw = access_switch(g, ACCESS, F)
        rep.exact("authorization", "switches on Access in " + name, len(sw), 1)
        if sw and ac and dn:
            sb, allow_edges, deny_edges = sw[0]
            rep.ob("requires_success", ac[0][0] not in g.reachable(0, removed_edges=allow_edges), site(g, ac[0][0]),
                   "accept reachable only through the Access::Allow edge", skey(F, g, "accept-requires-allow"))
            # Deny arm: every return reachable through deny edge only yields Err
            bad = []
            for b, i, rv in returns_of(g):
                if b in g.reachable(0, removed_edges=allow_edges):
                    # reachable without Allow: must be an Err
                    if not (i is not None and rv["k"] == "agg" and rv.get("variant") == "Err") and not (i is None and is_call_to(rv, "core::ops::try_trait::FromResidual::from_residual")):
                        bad.append(b)
            rep.ob("return_shape", not bad, site(g, sb), "paths not taking the Allow edge return Err only", skey(F, g, "deny-returns-err"))
            rep.ob("requires_success", dn[0][0] not in g.reachable(0, removed_edges=deny_edges), site(g, dn[0][0]),
                   "deny reachable only through the Deny edge", skey(F, g, "deny-on-deny"))
    rep.floor("authorization", "functions deciding accept/deny on an Access value", deciders, 1)
    # accept writes ServerConfirmsAuth, deny writes ServerDeniesAuth
    a = body_of(F, rep, HS + "SuccessfulAuthentication::accept")
    wa = find_calls(a, HS + "write_frame")
    rep.ob("table_agreement", len(wa) == 1 and any("ServerConfirmsAuth" in s_ for s_ in wa[0][1].get("substs", [])), site(a),
           "accept writes exactly one ServerConfirmsAuth frame", skey(F, a, "confirm-frame"))
    d = body_of(F, rep, HS + "SuccessfulAuthentication::deny")
    wd = find_calls(d, HS + "write_frame")
    rep.ob("table_agreement", len(wd) == 1 and any("ServerDeniesAuth" in s_ for s_ in wd[0][1].get("substs", [])), site(d),
           "deny writes exactly one ServerDeniesAuth frame", skey(F, d, "deny-frame"))
    conf = [x for x in call_sites(F, HS + "write_frame", crates=["iroh_relay"]) if x[3] == "call" and any("ServerConfirmsAuth" in s_ for s_ in x[2].get("substs", []))]
    for f2, b, t, k in conf:
        rep.ob("who_calls", source_fn(F, f2) == HS + "SuccessfulAuthentication::accept", site(f2, b),
               "ServerConfirmsAuth written only by accept", skey(F, f2, "confirm-writer"))

    # ---- 6. registration requires authorize_with
    acc_fn = body_of(F, rep, "iroh_relay::server::http_server::Inner::accept")
    reg = find_calls(acc_fn, "iroh_relay::server::clients::Clients::register")
    aw = find_calls(acc_fn, HS + "SuccessfulAuthentication::authorize_with")
    sv = find_calls(acc_fn, HS + "serverside")
    rep.exact("registration", "Clients::register calls in Inner::accept", len(reg), 1)
    rep.exact("registration", "authorize_with calls in Inner::accept", len(aw), 1)
    rep.exact("registration", "serverside calls in Inner::accept", len(sv), 1)
    if reg and aw and sv:
        t_aw = tests_of_calls(acc_fn, aw, awaited=True)
        t_sv = tests_of_calls(acc_fn, sv, awaited=True)
        rep.ob("requires_success", requires(acc_fn, reg[0][0], t_aw, levels=[0]), site(acc_fn, reg[0][0]),
               "Clients::register requires Ok of authorize_with", skey(F, acc_fn, "register-requires-authorize"))
        rep.ob("requires_success", requires(acc_fn, aw[0][0], t_sv, levels=[0]), site(acc_fn, aw[0][0]),
               "authorize_with requires Ok of serverside", skey(F, acc_fn, "authorize-requires-serverside"))
        du = defuse(acc_fn)
        rep.ob("derives_from", du.derives_from_call(op_base(aw[0][1]["args"][0]), HS + "serverside"), site(acc_fn, aw[0][0]),
               "authorize_with receiver is the serverside result", skey(F, acc_fn, "authorize-self-from-serverside"))
    reg_all = call_sites(F, "iroh_relay::server::clients::Clients::register", crates=["iroh_relay"])
    for f2, b, t, k in reg_all:
        rep.ob("who_calls", source_fn(F, f2) == "iroh_relay::server::http_server::Inner::accept", site(f2, b),
               "Clients::register called only from Inner::accept", skey(F, f2, "register-caller"))


def access_switch(g, adt_path, F):
    """Switches on the discriminant of an `Access` value: [(bb, allow_edges, deny_edges)]."""
    adt = F.adt(adt_path)
    allow = [int(v["discr"]) for v in adt["variants"] if v["name"] == "Allow"]
    out = []
    for b in sorted(g.reachable(0)):
        t = g.blocks[b]["t"]
        if t["k"] != "switch":
            continue
        l = op_local(t["d"])
        if l is None:
            continue
        # discriminant(_x) with _x: Access
        for bb, i, s in g.stmts():
            if s["k"] == "a" and s["lhs"]["l"] == l and s["rv"]["k"] == "discr":
                base = s["rv"]["p"]["l"]
                ty = g.locals[base]
                pty = ty.lstrip("&")
                if pty.endswith(adt_path) or adt_path in pty.split("<")[0]:
                    al, dn = switch_edges(g, b, allow[0])
                    out.append((b, al, dn))
    return out
