"""C02 Key and address encodings parse totally; keys are validated curve points."""
import re as _re
from ..lib import *

K = "iroh_base::key::"
PK = K + "PublicKey"
EA = "iroh_base::endpoint_addr::"
CAB = EA + "CustomAddrBytes"
PAN = r"(::unwrap$|::expect$|::unwrap_unchecked$|panicking::|::index$|::index_mut$|^core::slice::copy_from_slice$|::split_at$|::split_at_mut$|Buf::get_|::swap_remove$|::remove$)"

# Reviewed inventory of panic-capable operations in the iroh-base parsers/accessors:
#   function -> (allowed operations, one-line reason).  Anything else is reported.
REVIEWED = {
    CAB + "::as_bytes": ({"index": 1}, "data[..size]: size <= 30 = array length by the constructor invariant (sole constructor copy_from_slice, Inline only under len <= N)"),
    CAB + "::copy_from_slice": ({"index_mut": 1, "copy_from_slice": 1}, "inline[..data.len()] under the `data.len() <= N` guard; source and destination slices have the same length"),
    EA + "CustomAddr::to_vec": ({"index_mut": 2, "copy_from_slice": 2}, "out = vec![0; 8 + len]: out[..8] <- 8 bytes of u64, out[8..] <- len bytes"),
    EA + "CustomAddr::from_bytes": ({"index": 2, "expect": 1}, "data[..8] / data[8..] and try_into::<[u8;8]> under the `data.len() < 8 => return` guard"),
    PK + "::fmt_short": ({"index": 1, "expect": 1}, "as_bytes()[0..5] on a [u8;32] and try_into::<[u8;5]> of a 5-byte slice"),
    PK + "::as_verifying_key": ({"expect": 1}, "VerifyingKey::from_bytes on bytes every PublicKey constructor took out of a VerifyingKey (constructor invariant)"),
}


def check(F, rep):
    rep.clause("a PublicKey is only ever built from the bytes of a successfully parsed / derived ed25519 VerifyingKey; PublicKey::verify uses verify_strict; Deserialize goes through the parsing constructors")
    rep.clause("CustomAddrBytes has one constructor, its Inline arm requires len <= N (N read from the field's array type); CustomAddr::from_bytes slices only behind its length guard")
    rep.clause("panic inventory of iroh-base's parsers/accessors: every panic-capable operation (index, expect/unwrap, copy_from_slice, ..) is in the reviewed table with its discharge reason; no forging primitive (transmute, zeroed, ptr::write) is used")
    rep.undecided("round-trip equality across hex/base32/z32/postcard/JSON (values, library semantics)")

    # ---- PublicKey constructors
    sites = [x for x in ctor_sites(F, PK, crates=["iroh_base"]) if not x[0].derived]
    # (3 on the pinned tree; routing the parsers through from_verifying_key leaves fewer - the floor only guards against a vacuous pass)
    rep.floor("ctor_sites", "PublicKey construction sites", len(sites), 1)
    allowed = {PK + "::from_bytes", "<iroh_base::key::PublicKey as core::convert::TryFrom>::try_from", PK + "::from_verifying_key", K + "SecretKey::public"}
    for f, b, i, rv in sites:
        rep.fn(f)
        src = source_fn(F, f)
        du = defuse(f)
        l = op_base(rv["ops"][0])
        ok_src = src in allowed
        ok_val = du.derives_from_call(l, regex=r"VerifyingKey::to_bytes$") or du.derives_from_call(l, regex=r"SigningKey::verifying_key$")
        # when parsed from bytes: requires the parse to have succeeded
        parses = [(cb, ct) for cb, ct in f.calls() if call_matches(ct, r"VerifyingKey::from_bytes$|<ed25519_dalek::verifying::VerifyingKey as core::convert::TryFrom>::try_from$") or (is_call_to(ct, "core::convert::TryFrom::try_from") and "VerifyingKey" in f.locals[ct["dest"]["l"]])]
        ok_req = True
        for cb, ct in parses:
            ts, _ = call_result_tests(f, cb)
            ok_req = ok_req and requires(f, b, ts)
        rep.ob("ctor_sites", ok_src and ok_val and ok_req, site(f, b), "PublicKey built in %s from VerifyingKey bytes (requires successful parse: %s)" % (src, ok_req), skey(F, f, "pk-ctor"))
    v = get_fn(F, rep, PK + "::verify")
    vs = [t for b, t in v.calls() if call_matches(t, r"VerifyingKey::verify(_strict)?$|Verifier::verify$")]
    rep.ob("strict", len(vs) == 1 and callee_names(vs[0])[0].endswith("VerifyingKey::verify_strict"), site(v), "PublicKey::verify calls VerifyingKey::verify_strict (callee %s)" % [callee_names(t)[0].rsplit("::", 1)[-1] for t in vs], PK + "::verify|strict")
    sk = get_fn(F, rep, K + "SecretKey::public")
    # Deserialize
    des = F.find(r"^<iroh_base::key::PublicKey as serde_core::de::Deserialize>::deserialize$")
    rep.exact("deserialize", "Deserialize impl for PublicKey", len(des), 1)
    if des:
        names = set()
        for g in F.tree(des[0]):
            names |= {n for b, t in g.calls() for n in callee_names(t)}
        ok = any(n.endswith("FromStr>::from_str") or n == "core::str::traits::FromStr::from_str" or n.endswith("::from_str") for n in names) and any("TryFrom" in n or n.endswith("::from_bytes") for n in names)
        ctor_here = [x for x in sites if source_fn(F, x[0]).startswith("<iroh_base::key::PublicKey as serde_core::de::Deserialize>")]
        rep.ob("deserialize", ok and not ctor_here, site(des[0]), "both deserialisation forms go through from_str / try_from (no direct construction)", PK + "|deserialize")
    # ---- CustomAddrBytes
    cs = [x for x in ctor_sites(F, CAB, crates=["iroh_base"]) if not x[0].derived]
    rep.floor("ctor_sites", "CustomAddrBytes construction sites", len(cs), 2)
    adt = F.adt(CAB)
    n = None
    for vv in adt["variants"]:
        if vv["name"] == "Inline":
            for fd in vv["fields"]:
                m = _re.match(r"^\[u8; (\d+)(?:_usize)?\]$", fd["ty"])
                if m:
                    n = int(m.group(1))
    rep.ob("ctor_sites", n is not None, CAB, "Inline buffer length read from the field type: %s" % n, CAB + "|N")
    for f, b, i, rv in cs:
        rep.fn(f)
        src = source_fn(F, f)
        ok = src == CAB + "::copy_from_slice"
        rep.ob("ctor_sites", ok, site(f, b), "CustomAddrBytes::%s constructed in %s" % (rv["variant"], src), skey(F, f, "cab-ctor-" + rv["variant"]))
        if ok and rv["variant"] == "Inline":
            # bound proof on the *untruncated* length, whatever the idiom: for every length
            # above the buffer size (also those whose low byte is small) Inline is unreachable
            def is_full_len(o, f=f):
                l = op_base(o)
                for _ in range(8):
                    if l is None or str(f.locals[l]) != "usize":
                        return False
                    calls = [(cb, ct) for cb, ct in f.calls() if ct["dest"] == {"l": l}]
                    defs = [st["rv"] for cb, ci, st in f.stmts() if st["k"] == "a" and st["lhs"] == {"l": l}]
                    if len(calls) == 1 and not defs:
                        ct = calls[0][1]
                        if not re.search(r"(^|::)len$", callee_names(ct)[0]):
                            return False
                        r = copy_sources(f, op_base(ct["args"][0]))
                        return bool(r) and all(y[0] == "arg" and y[1] == 1 and y[2] == () for y in r)
                    if len(defs) == 1 and not calls and defs[0]["k"] == "use" and defs[0]["o"]["k"] in ("copy", "move") and not defs[0]["o"]["p"].get("p"):
                        l = defs[0]["o"]["p"]["l"]      # plain copy only: a cast would truncate
                        continue
                    return False
                return False
            nn = n or 0
            okb, ntests = unreachable_when(F, f, b, is_full_len, (nn + 1, nn + 2, 255, 256, 256 + nn, 65536, 65536 + 1))
            guards = [ntests] if okb else []
            rep.ob("ctor_invariant", bool(guards), site(f, b), "Inline is built only when the full (usize) length is <= %s - evaluated for lengths %s+1, %s+2, 255, 256, 256+%s, 65536..: a length test on a truncated copy (`len as u8`) does not count (tests on the full length: %s): as_bytes' data[..size] cannot go out of range and long payloads are never cut" % (n, n, n, n, guards), CAB + "|inline-len-guard")
            sz = copy_sources(f, op_base(rv["ops"][rv["fields"].index("size")]))
            rep.ob("ctor_invariant", defuse(f).derives_from_arg(op_base(rv["ops"][rv["fields"].index("size")]), 1), site(f, b), "stored size derives from data.len()", CAB + "|size-from-len")
    for fld in ("size", "data"):
        w = [x for x in field_accesses(F, CAB + "::Inline", fld, crates=["iroh_base"]) if x[3] in ("write", "refmut") and source_fn(F, x[0]) != CAB + "::copy_from_slice"]
        rep.ob("ctor_invariant", not w, CAB, "Inline.%s is never written outside the constructor (%d)" % (fld, len(w)), CAB + "|frozen-" + fld)
    # ---- CustomAddr::from_bytes guard
    fb = get_fn(F, rep, EA + "CustomAddr::from_bytes")
    idx = [(b, t) for b, t in fb.calls() if call_matches(t, r"::index$")]
    lt = [(b, s, ts) for b, s, ts in cmp_tests(fb, ops=("Lt", "Ge")) if any(str(o.get("v", "")).startswith("8_") for o in (s["rv"]["a"], s["rv"]["b"]) if o["k"] == "const")]
    ok = len(lt) == 1 and bool(idx)
    if ok:
        b0, s0, ts0 = lt[0]
        ok = all((requires_failure(fb, b, ts0) if s0["rv"]["op"] == "Lt" else requires(fb, b, ts0)) for b, t in idx)
    rep.ob("panic_inventory", ok, site(fb), "every slice index in CustomAddr::from_bytes is behind the `len < 8 => return Err` guard", EA + "CustomAddr::from_bytes|len-guard")

    # ---- panic inventory
    seen = {}
    for f in F.all_fns(crates=["iroh_base"]):
        if f.derived:
            continue
        ops = {}
        for b, t in f.calls():
            if f.is_tracing(b):
                continue
            for nm in callee_names(t)[:1]:
                if nm.startswith("iroh_base::"):
                    continue
                m = _re.search(PAN, nm)
                if m:
                    k = nm.rsplit("::", 1)[-1]
                    ops[k] = ops.get(k, 0) + 1
        if ops:
            seen[source_fn(F, f) if "{closure" in f.path else f.npath] = ops
            rep.fn(f)
    for fn, ops in sorted(seen.items()):
        allowed_ops, reason = REVIEWED.get(fn, ({}, None))
        extra = {k: v for k, v in ops.items() if v > allowed_ops.get(k, 0)}
        rep.ob("panic_inventory", not extra, fn, ("reviewed: %s -- %s" % (ops, reason)) if not extra else ("panic-capable operation(s) not in the reviewed inventory: %s (reviewed: %s)" % (extra, allowed_ops)), fn + "|panic-sites")
    rep.floor("panic_inventory", "functions with panic-capable operations (reviewed table size %d)" % len(REVIEWED), len(seen), 4)
    forge = call_sites(F, regex=r"^core::(mem::transmute|mem::zeroed|ptr::write|ptr::read|mem::maybe_uninit::MaybeUninit::assume_init|intrinsics::transmute)", crates=["iroh_base"])
    rep.ob("panic_inventory", not forge, "iroh_base", "no transmute / zeroed / raw pointer read-write call sites in iroh-base (%d)" % len(forge), "iroh_base|no-forging")
