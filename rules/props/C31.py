"""C31 Publishing and resolving endpoint info preserves it (tables + no truncation)."""
import re as _re
from ..lib import *

EI = "iroh_dns::endpoint_info::"
AT = "iroh_dns::attrs::"
ATTR = AT + "IrohAttr"
TA = "iroh_base::endpoint_addr::TransportAddr"
SPLITS = r"^core::str::(split|rsplit|split_terminator|rsplit_terminator|split_inclusive|split_whitespace|split_ascii_whitespace)$"


def fmt_literal(op):
    """Literal text of a format template constant (control bytes >= 0x80 stripped)."""
    v = op.get("v") if op.get("k") == "const" else None
    if not isinstance(v, str):
        return None
    m = _re.match(r'^(?:const )?b?"(.*)"$', v, _re.S)
    if not m:
        return None
    return _re.sub(r"\\x[0-9a-fA-F]{2}", "", m.group(1))


def check(F, rep):
    rep.clause("writer (TransportAddr variant -> IrohAttr key) and reader (IrohAttr key -> parsed TransportAddr variants) tables are inverse relations; user data uses the same key both ways; writer and reader use the same `=` separator and the same record name const")
    rep.clause("the reader does not truncate a value: a `key=value` string is split at the first separator only (a str::Split advanced a fixed number of times and dropped would lose everything after a second `=`)")
    rep.undecided("equality of the resolved value with the published one (values; URL/address parser semantics)")

    # ---- writer table
    w0 = get_fn(F, rep, EI + "endpoint_info_to_attrs")
    # the match may sit in the function itself or in a closure / helper it hands the addresses to
    wcands = [(g, enum_switches(F, g, TA)) for g in tree_with_helpers(F, w0)]
    wcands = [(g, sw_) for g, sw_ in wcands if sw_]
    w = w0
    sw = []
    if len(wcands) == 1:
        w, sw = wcands[0]
        rep.fn(w)
    wtab = {}
    if len(sw) == 1:
        b, pl, arms, other = sw[0]
        for vs, region in arm_regions(w, b, arms).items():
            ks = {rv["variant"] for _, _, rv in aggregates_in(w, region, ATTR)}
            for v in vs:
                wtab[v] = ks
    else:
        rep.missing("table_agreement", "switch on TransportAddr in endpoint_info_to_attrs (%d)" % len(sw))
    rep.ob("table_agreement", bool(wtab) and all(len(k) == 1 for k in wtab.values()), site(w), "writer maps each handled TransportAddr variant to exactly one key: %s" % {k: sorted(v) for k, v in wtab.items()}, EI + "writer|single-key")
    ud_w = [rv for g in tree_with_helpers(F, w0) for _, _, rv in aggregates_in(g, g.reachable(0), ATTR) if rv["variant"] == "UserData"]
    # ---- reader table
    r = get_fn(F, rep, EI + "endpoint_info_from_attrs")
    rdu = defuse(r)
    rtab = {}
    gets = find_calls(r, "alloc::collections::btree::map::BTreeMap::get")
    rep.floor("table_agreement", "attribute lookups in the reader", len(gets), 3)
    ud_parsers = set()
    for b, t in gets:
        keys = {x[1].rsplit("::", 1)[-1] for x in copy_sources(r, op_base(t["args"][1])) if x[0] == "agg"}
        if len(keys) != 1:
            rep.ob("table_agreement", False, site(r, b), "lookup key is a literal IrohAttr variant (got %s)" % sorted(keys), EI + "reader|literal-key")
            continue
        key = next(iter(keys))
        # closures applied downstream of this lookup
        built = set()
        parsers = set()
        for bb, i, s in r.stmts():
            if s["k"] == "a" and s["rv"]["k"] == "agg" and s["rv"]["ak"] == "closure":
                cl_local = s["lhs"]["l"]
                for cb, ct in r.calls():
                    if len(ct["args"]) >= 2 and op_local(ct["args"][1]) == cl_local and t["dest"]["l"] in rdu.closure(op_base(ct["args"][0])):
                        for g in F.find("^" + _re.escape(norm(s["rv"]["def"])) + r"($|::\{closure)"):
                            rep.fn(g)
                            built |= {rv["variant"] for _, _, rv in aggregates_in(g, g.reachable(0), TA)}
                            parsers |= {n for _, x in g.calls() for n in callee_names(x) if n.endswith("from_str") or n.endswith("::parse")}
        # a named fn handed to the adapter instead of a closure
        for cb, ct in r.calls():
            if len(ct["args"]) >= 2 and ct["args"][1]["k"] == "const" and ct["args"][1].get("fn") and op_base(ct["args"][0]) is not None and t["dest"]["l"] in rdu.closure(op_base(ct["args"][0])):
                for g in F.fns_named(norm(ct["args"][1]["fn"])):
                    rep.fn(g)
                    built |= {rv["variant"] for _, _, rv in aggregates_in(g, g.reachable(0), TA)}
                    parsers |= {n for _, x in g.calls() for n in callee_names(x) if n.endswith("from_str") or n.endswith("::parse")}
        rtab[key] = built
        if key == "UserData":
            ud_parsers = parsers
    for v, ks in wtab.items():
        for k in ks:
            rep.ob("table_agreement", v in rtab.get(k, ()), "TransportAddr::%s <-> IrohAttr::%s" % (v, k),
                   "writer stores %s under `%s`; the reader's `%s` lookup rebuilds %s" % (v, k, k, sorted(rtab.get(k, ()))), "table|%s|%s" % (v, k))
    for k, vs in rtab.items():
        for v in vs:
            rep.ob("table_agreement", k in wtab.get(v, ()), "IrohAttr::%s -> TransportAddr::%s" % (k, v), "reader builds %s from `%s`; the writer stores %s under %s" % (v, k, v, sorted(wtab.get(v, ()))), "table-inv|%s|%s" % (k, v))
    rep.ob("table_agreement", bool(ud_w) and "UserData" in rtab and any("UserData" in p for p in ud_parsers), site(r),
           "user data: written under IrohAttr::UserData and parsed back with UserData::from_str (%s)" % sorted(ud_parsers), "table|user_data")

    # ---- separator and record name
    lits = set()
    for g in F.find(r"^iroh_dns::attrs::TxtAttrs::to_txt_strings"):
        rep.fn(g)
        for b, t in g.calls():
            for a in t["args"]:
                l = fmt_literal(a)
                if l:
                    lits.add(l)
        for b, i, s in g.stmts():
            if s["k"] == "a" and s["rv"]["k"] in ("use", "cast"):
                l = fmt_literal(s["rv"]["o"])
                if l:
                    lits.add(l)
    fs = get_fn(F, rep, AT + "TxtAttrs::from_strings")
    seps = set()
    splitters = find_calls(fs, regex=r"^core::str::(split|split_once|splitn|rsplit|rsplitn|rsplit_once|split_terminator)$")
    for b, t in splitters:
        for a in t["args"][1:]:
            if a["k"] == "const" and "'" in str(a.get("v")):
                m = _re.search(r"'(.)'", a["v"])
                if m:
                    seps.add(m.group(1))
            elif a["k"] == "const":
                m = _re.search(r'"(.*)"', str(a.get("v")))
                if m:
                    seps.add(m.group(1))
    rep.ob("table_agreement", lits == {"="} and seps == {"="}, site(fs), "writer joins with %s, reader splits at %s" % (sorted(lits), sorted(seps)), AT + "separator")
    users = set()
    for npath in (AT + "endpoint_id_from_txt_name", AT + "TxtAttrs::from_pkarr_signed_packet", AT + "TxtAttrs::to_pkarr_signed_packet"):
        for g in F.tree_of(npath) if F.has_fn(npath) else []:
            rep.fn(g)
            gdu = defuse(g)
            for l in range(len(g.locals)):
                for o in gdu.origins[l]:
                    if o[0] == "const" and (o[3].get("def") or "").endswith("IROH_TXT_NAME"):
                        users.add(npath)
    rep.ob("same_const", len(users) == 3, AT + "IROH_TXT_NAME", "record name const IROH_TXT_NAME used by name parser, packet reader and packet writer: %s" % sorted(u.rsplit('::', 1)[-1] for u in users), AT + "record-name")

    # ---- sibling constructors of UserData agree on the length bound
    UD = EI + "UserData"
    sibs = [g for g in F.find(r"^<iroh_dns::endpoint_info::UserData as core::(str::traits::FromStr>::from_str|convert::TryFrom>::try_from)$")]
    rep.floor("sibling_agreement", "UserData parsing constructors", len(sibs), 2)
    shapes = {}
    for g in sibs:
        rep.fn(g)
        gdu = defuse(g)
        for cb, st, ts in cmp_tests(g, ops=("Le", "Lt", "Gt", "Ge")):
            sides = []
            for o in (st["rv"]["a"], st["rv"]["b"]):
                if o["k"] == "const":
                    sides.append("MAX" if (o.get("def") or "").endswith("UserData::MAX_LENGTH") else "const")
                else:
                    cs = {x[4].get("def") for x in gdu.origin_facts(op_base(o), kinds=("const",)) if x[4].get("def")}
                    sides.append("MAX" if any(c.endswith("UserData::MAX_LENGTH") for c in cs) and not gdu.origin_calls(op_base(o)) else "len")
            if "MAX" in sides:
                shapes[g.path] = (st["rv"]["op"], tuple(sides))
    rep.ob("sibling_agreement", len(shapes) == len(sibs) and len(set(shapes.values())) == 1, UD,
           "FromStr and TryFrom<String> for UserData apply the same length bound (the resolver parses with FromStr what the publisher built with either): %s" % {k.split(" as ")[-1]: v for k, v in shapes.items()}, UD + "|length-bound-agrees")

    # ---- truncation
    rep.exact("truncation", "splitting calls in TxtAttrs::from_strings", len(splitters), 1)
    for b, t in splitters:
        n0 = callee_names(t)[0]
        if not _re.search(SPLITS, n0):
            if n0.endswith("splitn") or n0.endswith("rsplitn"):
                cnt = t["args"][1].get("v") if t["args"][1]["k"] == "const" else None
                rep.ob("truncation", str(cnt).startswith("2"), site(fs, b), "splitn limit is 2 (got %s)" % cnt, skey(F, fs, "splitn-2"))
            else:
                rep.ob("truncation", True, site(fs, b), "value extends to the end of the string (%s)" % n0.rsplit("::", 1)[-1], skey(F, fs, "split-to-end"))
            continue
        it = t["dest"]["l"]
        # follow the iterator value to its consumers
        holders = {it}
        for bb, i, s in fs.stmts():
            if s["k"] == "a" and s["rv"]["k"] == "use" and op_local(s["rv"]["o"]) in holders:
                holders.add(s["lhs"]["l"])
        nexts, others = [], []
        for cb, ct in fs.calls():
            for ai, a in enumerate(ct["args"]):
                if arg_ref_target(fs, a) in holders or op_local(a) in holders:
                    if is_call_to(ct, "core::iter::traits::iterator::Iterator::next") and ai == 0:
                        nexts.append(cb)
                    else:
                        others.append((cb, callee_names(ct)[0]))
        looped = [cb for cb in nexts if cb in fs.reachable_after(cb, removed_blocks=set())
                  and any(cb in fs.reachable(s2) for s2 in fs.succs()[cb]) and _on_cycle_without(fs, cb, b)]
        ok = bool(others) or bool(looped)
        rep.ob("truncation", ok, site(fs, b),
               "`%s` yields an iterator that is advanced exactly %d time(s) (%s) and then dropped: a value containing the separator again (URL query, base64 padding, user data) is cut off at the second `=`"
               % (n0.rsplit("::", 1)[-1], len(nexts), ", ".join("bb%d" % x for x in nexts)) if not ok else "split iterator is consumed to exhaustion / handed on",
               skey(F, fs, "split-fixed-arity"))


def _on_cycle_without(f, bb, split_bb):
    """bb lies on a cycle that does not pass through the block creating the iterator (i.e. the
    iterator itself is advanced in a loop, not re-created per outer iteration)."""
    return bb in f.reachable_after(bb, removed_blocks={split_bb})
