"""C20 Endpoint builder accepts bind addresses independent of order (symmetry rule)."""
from ..lib import *

FN = "iroh::endpoint::Builder::bind_addr_with_opts"
ERR = "iroh::endpoint::bind::InvalidSocketAddr"
OPTS = "iroh::endpoint::bind::BindOpts"


def check(F, rep):
    rep.clause("symmetry: a DuplicateDefaultAddr rejection depends on the *new* bind's default-route flag as well as on the scan of the existing binds (otherwise [default, non-default] is rejected while [non-default, default] is accepted); the flag stored for later scans is the same predicate; each address family scans with its own family's predicate")
    rep.undecided("full enumeration of bind sequences (values); InvalidPrefixLength is decided by ipnet's constructor")
    f = get_fn(F, rep, FN)
    du = defuse(f)
    errs = [(b, i, rv) for b, i, rv in aggregates_in(f, f.reachable(0), ERR) if rv["variant"] == "DuplicateDefaultAddr"]
    rep.exact("symmetry", "DuplicateDefaultAddr constructions", len(errs), 2)
    anys = find_calls(f, "core::iter::traits::iterator::Iterator::any")
    rep.exact("symmetry", "scans of the existing transports (Iterator::any)", len(anys), 2)
    idr = find_calls(f, OPTS + "::is_default_route")
    rep.floor("symmetry", "reads of opts.is_default_route()", len(idr), 2)
    any_tests = {b: call_result_tests(f, b, family="bool")[0] for b, t in anys}
    idr_tests = {b: call_result_tests(f, b, family="bool")[0] for b, t in idr}
    fams = []
    for b, i, rv in errs:
        ga = [ab for ab, ts in any_tests.items() if requires(f, b, ts)]
        gd = [db for db, ts in idr_tests.items() if ts and requires(f, b, ts)]
        rep.ob("symmetry", len(ga) == 1, site(f, b), "rejection requires an existing user-defined default bind of the family (scan true)", skey(F, f, "dup-requires-scan:%d" % len(fams)))
        rep.ob("symmetry", len(gd) >= 1, site(f, b),
               "rejection requires the new bind itself to be a default route (opts.is_default_route() true)%s" % ("" if gd else ": today the scan alone decides, so adding a non-default bind after a default one fails with DuplicateDefaultAddr while the reverse order is accepted"),
               skey(F, f, "dup-requires-new-default:%d" % len(fams)))
        # which family predicate does the scan's closure use
        if ga:
            at = [t for ab, t in anys if ab == ga[0]][0]
            names = set()
            for g in F.tree(f):
                if g is f:
                    continue
                for o in du.origin_facts(op_base(at["args"][1]), kinds=("agg",)):
                    if o[4].get("ak") == "closure" and o[4].get("def") == g.path:
                        names |= {callee_names(t)[0].rsplit("::", 1)[-1] for _, t in g.calls()}
            fams.append(tuple(sorted(names)))
    rep.ob("table_agreement", sorted(fams) == [("is_ipv4_default", "is_user_defined"), ("is_ipv6_default", "is_user_defined")], site(f),
           "the two scans use the IPv4 resp. IPv6 default predicate, each with is_user_defined: %s" % fams, skey(F, f, "family-predicates"))
    # arms: V4 error in the V4 arm etc. -> the stored flag
    cfgs = [(b, i, rv) for b, i, rv in aggregates_in(f, f.reachable(0), "iroh::socket::transports::ip::IpConfig") or aggregates_in(f, f.reachable(0))]
    ipc = [(b, i, rv) for b, i, rv in aggregates_in(f, f.reachable(0)) if rv["adt"] == "iroh::socket::transports::ip::Config"]
    rep.exact("symmetry", "IpConfig constructions", len(ipc), 2)
    for b, i, rv in ipc:
        s_ = operand_sources(f, rv["ops"][rv["fields"].index("is_default")], follow=True)
        rep.ob("symmetry", s_ == {("call", OPTS + "::is_default_route", ())}, site(f, b), "IpConfig::%s stores opts.is_default_route() as its default flag; sources %s" % (rv["variant"], sorted(map(str, s_))), skey(F, f, "stored-flag:" + rv["variant"]))
    # is_default_route semantics: explicit flag, else prefix_len == 0
    g = get_fn(F, rep, OPTS + "::is_default_route")
    ft = field_tests(g, "is_default_route")
    pl = find_calls(g, OPTS + "::prefix_len")
    rep.ob("symmetry", len(ft) == 1 and len(pl) == 1 and requires_failure(g, pl[0][0], ft), site(g), "is_default_route(): explicit flag if set, otherwise prefix_len() == 0", skey(F, g, "implicit-default"))
