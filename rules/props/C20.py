"""C20 Endpoint builder accepts bind addresses independent of order (symmetry rule)."""
from ..lib import *

FN = "iroh::endpoint::Builder::bind_addr_with_opts"
ERR = "iroh::endpoint::bind::InvalidSocketAddr"
OPTS = "iroh::endpoint::bind::BindOpts"


def check(F, rep):
    rep.clause("symmetry: a DuplicateDefaultAddr rejection depends on the *new* bind's default-route flag as well as on the scan of the existing binds (otherwise [default, non-default] is rejected while [non-default, default] is accepted); the flag stored for later scans is the same predicate; each address family scans with its own family's predicate")
    rep.undecided("full enumeration of bind sequences (values); InvalidPrefixLength is decided by ipnet's constructor")
    from ..inline import inlined
    from ..analysis import reachable_fs
    f0 = get_fn(F, rep, FN)
    f = inlined(F, f0)          # the scan may live in a private helper
    du = defuse(f)
    errs = [(b, i, rv) for b, i, rv in aggregates_in(f, f.reachable(0), ERR) if rv["variant"] == "DuplicateDefaultAddr"]
    rep.exact("symmetry", "DuplicateDefaultAddr constructions", len(errs), 2)

    def closure_fn(o):
        l = op_base(o)
        if l is None:
            return None, {}
        m = re.search(r"closure@[^:]+:(\d+):(\d+)", str(f.locals[l]))
        if not m:
            return None, {}
        cands = [g for g in F.find(r"\{closure#\d+\}$") if g.kind == "Closure" and g.file == f0.file and g.line == int(m.group(1))]
        caps = {}
        for b_, i_, st in f.stmts():
            if st["k"] == "a" and st["lhs"] == {"l": l} and st["rv"]["k"] == "agg" and cands:
                for o2, name in zip(st["rv"]["ops"], cands[0].upvars):
                    # captured literal bool (through a reference to a single-assignment local)
                    l2 = op_base(o2)
                    for _ in range(4):
                        ds = [s2["rv"] for b2, i2, s2 in f.stmts() if s2["k"] == "a" and s2["lhs"] == {"l": l2}]
                        if len(ds) == 1 and ds[0]["k"] == "ref" and not ds[0]["p"].get("p"):
                            l2 = ds[0]["p"]["l"]
                        elif len(ds) == 1 and ds[0]["k"] == "use" and ds[0]["o"]["k"] in ("copy", "move") and not ds[0]["o"]["p"].get("p"):
                            l2 = ds[0]["o"]["p"]["l"]
                        else:
                            if len(ds) == 1 and ds[0]["k"] == "use" and ds[0]["o"]["k"] == "const" and ds[0]["o"].get("v") in ("true", "false"):
                                caps[name] = ds[0]["o"]["v"] == "true"
                            break
        return (cands[0] if len(cands) == 1 else None), caps

    def pred_calls(g, caps):
        """method names called by predicate closure `g`, given captured literal bools"""
        removed = set()
        for b_ in g.reachable(0):
            t_ = g.blocks[b_]["t"]
            if t_["k"] != "switch":
                continue
            l = op_local(t_["d"])
            dpl = t_["d"].get("p") if t_["d"]["k"] in ("copy", "move") else None
            if dpl is not None and dpl["l"] == 1 and dpl.get("p"):
                names = [e[2] for e in dpl["p"] if e[0] == "f"]
                if names and names[-1] in caps:
                    val = 1 if caps[names[-1]] else 0
                    explicit = [int(v_) for v_, _ in t_["targets"]]
                    for v_, tb in t_["targets"]:
                        if int(v_) != val:
                            removed.add((b_, tb))
                    if val in explicit:
                        removed.add((b_, t_["otherwise"]))
                continue
            for st in g.blocks[b_]["s"] + [s2 for bb in g.blocks for s2 in bb["s"]]:
                if st["k"] == "a" and st["lhs"] == {"l": l} and st["rv"]["k"] == "use" and st["rv"]["o"]["k"] in ("copy", "move"):
                    pl = st["rv"]["o"]["p"]
                    names = [e[2] for e in pl.get("p", []) if e[0] == "f"]
                    if pl["l"] == 1 and names and names[-1] in caps:
                        val = 1 if caps[names[-1]] else 0
                        for v_, tb in t_["targets"]:
                            if int(v_) != val:
                                removed.add((b_, tb))
                        if val in [int(v_) for v_, _ in t_["targets"]]:
                            removed.add((b_, t_["otherwise"]))
                    break
        reach = reachable_fs(g, 0, removed_edges=removed)
        return {callee_names(t_)[0].rsplit("::", 1)[-1] for b_, t_ in g.calls() if b_ in reach}

    # existential scans over self.transports: iter() [.filter(p)]* .any(q)
    scans = []
    for b, t in find_calls(f, "core::iter::traits::iterator::Iterator::any"):
        preds = set()
        g, caps = closure_fn(t["args"][1])
        ok = g is not None
        if g is not None:
            rep.fn(g)
            preds |= pred_calls(g, caps)
        l = op_base(t["args"][0])
        src_ok = False
        for _ in range(6):
            dc = def_call(f, l) if l is not None else None
            if dc is None:
                # `&mut iter` reborrow
                ds = [s2["rv"] for b2, i2, s2 in f.stmts() if s2["k"] == "a" and s2["lhs"] == {"l": l}]
                if len(ds) == 1 and ds[0]["k"] == "ref" and not ds[0]["p"].get("p"):
                    l = ds[0]["p"]["l"]
                    continue
                break
            if call_matches(dc[1], r"Iterator::filter$"):
                g2, caps2 = closure_fn(dc[1]["args"][1])
                if g2 is None:
                    # a method path used as predicate: `.filter(TransportConfig::is_user_defined)`
                    o2 = dc[1]["args"][1]
                    nm = str(o2.get("fn") or o2.get("def") or f.locals[op_base(o2)] if (o2["k"] == "const" or op_base(o2) is not None) else "")
                    m2 = re.search(r"(is_\w+)", nm)
                    if m2:
                        preds.add(m2.group(1))
                    else:
                        ok = False
                else:
                    rep.fn(g2)
                    preds |= pred_calls(g2, caps2)
                l = op_base(dc[1]["args"][0])
                continue
            if call_matches(dc[1], r"slice::.*iter$|Vec::iter$|::iter$|IntoIterator::into_iter$"):
                x = copy_sources(f, op_base(dc[1]["args"][0]))
                src_ok = bool(x) and all(y[0] == "arg" and y[1] == 1 and tuple(y[2])[-1:] == ("transports",) for y in x)
            break
        scans.append((b, t, ok and src_ok, tuple(sorted(p for p in preds if p.startswith("is_")))))
    rep.exact("symmetry", "existential scans of the existing transports (iter()[.filter(..)].any(..))", len(scans), 2)
    other_scans = [callee_names(t)[0] for b, t in f.calls() if call_matches(t, r"Iterator::(find_map|find|position|all|count|fold|try_fold|next)$") and any(True for _ in [0]) and _derives_from_transports(f, t)]
    rep.ob("symmetry", not other_scans, site(f), "the existing binds are consulted only through any(..) - an adapter that stops at the first match of a weaker predicate (find_map, find, position, next ...) would make the answer depend on the order of earlier binds: %s" % other_scans, skey(F, f, "scan-kind"))
    idr = find_calls(f, OPTS + "::is_default_route")
    rep.floor("symmetry", "reads of opts.is_default_route()", len(idr), 1)
    any_tests = {b: call_result_tests(f, b, family="bool")[0] for b, t, ok, preds in scans}
    idr_tests = {b: call_result_tests(f, b, family="bool")[0] for b, t in idr}
    fams = []
    for b, i, rv in errs:
        ga = [ab for ab, ts in any_tests.items() if requires(f, b, ts)]
        gd = [db for db, ts in idr_tests.items() if ts and requires(f, b, ts)]
        rep.ob("symmetry", len(ga) == 1, site(f, b), "rejection requires an existing user-defined default bind of the family (scan true)", skey(F, f, "dup-requires-scan:%d" % len(fams)))
        rep.ob("symmetry", len(gd) >= 1, site(f, b),
               "rejection requires the new bind itself to be a default route (opts.is_default_route() true)%s" % ("" if gd else ": today the scan alone decides, so adding a non-default bind after a default one fails with DuplicateDefaultAddr while the reverse order is accepted"),
               skey(F, f, "dup-requires-new-default:%d" % len(fams)))
        if ga:
            sc = [x for x in scans if x[0] == ga[0]][0]
            fams.append(sc[3] if sc[2] else ("?",))
    rep.ob("table_agreement", sorted(fams) == [("is_ipv4_default", "is_user_defined"), ("is_ipv6_default", "is_user_defined")], site(f),
           "the two scans range over self.transports with the IPv4 resp. IPv6 default predicate, each conjoined with is_user_defined: %s" % fams, skey(F, f, "family-predicates"))
    # arms: V4 error in the V4 arm etc. -> the stored flag
    cfgs = [(b, i, rv) for b, i, rv in aggregates_in(f, f.reachable(0), "iroh::socket::transports::ip::IpConfig") or aggregates_in(f, f.reachable(0))]
    ipc = [(b, i, rv) for b, i, rv in aggregates_in(f, f.reachable(0)) if rv["adt"] == "iroh::socket::transports::ip::Config"]
    rep.exact("symmetry", "IpConfig constructions", len(ipc), 2)
    for b, i, rv in ipc:
        s_ = operand_sources(f, rv["ops"][rv["fields"].index("is_default")], follow=True)
        rep.ob("symmetry", bool(s_) and all(x[0] == "call" and x[1] == OPTS + "::is_default_route" for x in s_), site(f, b), "IpConfig::%s stores opts.is_default_route() as its default flag; sources %s" % (rv["variant"], sorted(map(str, s_))), skey(F, f, "stored-flag:" + rv["variant"]))
    # is_default_route semantics: explicit flag, else prefix_len == 0
    g = get_fn(F, rep, OPTS + "::is_default_route")
    ft = field_tests(g, "is_default_route")
    tree = F.tree(g)
    pl = [(h, b, t) for h in tree for b, t in find_calls(h, OPTS + "::prefix_len")]
    zero = [1 for h in tree for cb, s_, ts in cmp_tests(h, ops=("Eq",)) if any(const_int(F, o) == 0 for o in (s_["rv"]["a"], s_["rv"]["b"]))]
    reads = any(fld == "is_default_route" for h in tree for l in range(len(h.locals)) for _, fld in defuse(h).field_reads(l)) if False else bool(ft) or any(call_matches(t, r"Option::(unwrap_or_else|unwrap_or|map_or|map_or_else)$") and recv_field(g, t["args"][0]) == "is_default_route" or (call_matches(t, r"Option::(unwrap_or_else|unwrap_or|map_or|map_or_else)$") and any(x[0] == "arg" and tuple(x[2])[-1:] == ("is_default_route",) for x in copy_sources(g, op_base(t["args"][0])))) for b, t in g.calls())
    lazy = (len(ft) == 1 and len(pl) == 1 and pl[0][0] is g and requires_failure(g, pl[0][1], ft)) or (len(pl) == 1 and any(call_matches(t, r"Option::(unwrap_or_else|unwrap_or)$") for b, t in g.calls()))
    rep.ob("symmetry", reads and len(pl) == 1 and bool(zero) and lazy, site(g), "is_default_route(): explicit flag if set, otherwise prefix_len() == 0", skey(F, g, "implicit-default"))
