"""C08 A revoked relay connection does not stay connected."""
from ..lib import *

S = "iroh_relay::server::"
HS = "iroh_relay::protos::handshake::"
CL = S + "clients::Clients::"
INNER = S + "clients::Inner"
MUT = r"^dashmap::(DashMap|DashSet)::(insert|remove|remove_if|remove_if_mut|entry|clear|retain|alter|get_mut)$"


def check(F, rep):
    rep.clause("revocation visibility: between the point the connection id is published to the embedder (on_connect) and the point a cancel handle becomes reachable from Clients::disconnect (insert into the registry) no suspension point may lie, unless a missed disconnect leaves state that registration consults")
    rep.clause("disconnect only shuts down connections found under the given endpoint id; with a connection id only the matching one; without one, every connection of that endpoint (active and parked)")
    rep.clause("the connection actor observes the revocation at its next loop iteration whatever else is pending: the select! arm that polls the cancellation token has no precondition (its disable-bit block is infeasible), so queued traffic cannot keep a revoked connection served")
    rep.undecided("that the cancelled arm wins against ready traffic within one iteration (biased order is syntactic; see C05/C07 run loop rules)")

    # ---- clause 2: disconnect targets
    from ..inline import inlined
    d0 = get_fn(F, rep, CL + "disconnect")
    d = inlined(F, d0)        # e.g. a helper returning the chained iterator over all connections
    gets = calls_on_field(d, "clients", "dashmap::DashMap::get")
    rep.exact("disconnect", "clients.get(..) in disconnect", len(gets), 1)
    sh = []
    for g in [d] + [x for x in F.tree(d0) if x is not d0]:
        rep.fn(g)
        for b, t in find_calls(g, S + "client::Client::start_shutdown"):
            sh.append((g, b, t))
    rep.floor("disconnect", "start_shutdown calls in disconnect", len(sh) + len([1 for b, t in find_calls(d, regex=r"Iterator::for_each$")]), 1)
    if gets:
        gb, gt = gets[0]
        rep.ob("disconnect", arg_ref_target(d, gt["args"][1]) == 2, site(d, gb), "lookup key is the endpoint_id parameter", skey(F, d, "lookup-key"))
        du = defuse(d)
        tests, _ = call_result_tests(d, gb)
        for g, b, t in sh:
            if g is not d:
                continue
            rl = op_base(t["args"][0])
            rep.ob("disconnect", gt["dest"]["l"] in du.closure(rl), site(d, b), "the connection shut down comes from that endpoint's registry entry", skey(F, d, "shutdown-from-entry"))
            rep.ob("disconnect", requires(d, b, tests), site(d, b), "shutdown requires the endpoint to be registered", skey(F, d, "shutdown-requires-entry"))
        # with Some(id): only the connection found by `find(|c| c.connection_id() == id)`
        finds = find_calls(d, regex=r"^core::iter::traits::iterator::Iterator::find$")
        rep.exact("disconnect", "Iterator::find calls", len(finds), 1)
        if finds:
            ft, _ = call_result_tests(d, finds[0][0])
            single = [(g, b, t) for g, b, t in sh if g is d and finds[0][1]["dest"]["l"] in du.closure(op_base(t["args"][0]))]
            rep.exact("disconnect", "start_shutdown on the found connection", len(single), 1)
            for g, b, t in single:
                rep.ob("disconnect", requires(d, b, ft), site(d, b), "targeted shutdown requires find(..) == Some", skey(F, d, "targeted-requires-found"))
            preds = [g for g in F.tree(d0) if g is not d0]
            okp = False
            for g in preds:
                for b, t in find_calls(g, "core::cmp::PartialEq::eq"):
                    s = copy_sources(g, op_base(t["args"][0]), F=F) | copy_sources(g, op_base(t["args"][1]), F=F)
                    if any(x[2][-1:] == ("connection_id",) for x in s) and any(x[0] == "arg" and x[1] == 1 for x in s):
                        okp = True
            rep.ob("disconnect", okp, site(d, finds[0][0]), "find predicate compares the connection's id with the requested id", skey(F, d, "find-pred"))

    # ---- clause 2b: without a connection id EVERY connection of the endpoint is shut down
    if gets:
        du = defuse(d)
        SHUT = S + "client::Client::start_shutdown"
        universal = []
        # (a) for loops: every iteration passes through start_shutdown on the current element
        for nb, nt in find_calls(d, "core::iter::traits::iterator::Iterator::next"):
            nts, _ = call_result_tests(d, nb)
            some_t = [tg for t in nts for _, tg in t.success]
            shb = [b for g, b, t in sh if g is d and nt["dest"]["l"] in du.closure(op_base(t["args"][0])) and b in d.reachable(nb)]
            if some_t and shb and all(nb not in d.reachable(tg, removed_blocks=set(shb)) for tg in some_t):
                universal.append((nb, op_base(nt["args"][0])))
        # (b) for_each(start_shutdown) / for_each(|c| c.start_shutdown())
        for b, t in find_calls(d, regex=r"Iterator::for_each$"):
            a = t["args"][1]
            okf = a["k"] == "const" and norm(str(a.get("fn") or "")) == SHUT
            l = op_base(a)
            if l is not None:
                m_ = re.search(r"closure@[^:]+:(\d+):", str(d.locals[l]))
                for c in F.tree(d0):
                    if c is not d0 and m_ and c.line == int(m_.group(1)):
                        cs_ = find_calls(c, SHUT)
                        okf = okf or (len(cs_) == 1 and c.postdominates(cs_[0][0], 0))
            if okf:
                universal.append((b, op_base(t["args"][0])))
        ok_u, why = False, "no loop / for_each applies start_shutdown to every element"
        opt_tests = []
        for b in sorted(d.reachable(0)):
            t = d.blocks[b]["t"]
            if t["k"] == "switch":
                for st in d.blocks[b]["s"]:
                    if st["k"] == "a" and st["rv"]["k"] == "discr" and st["rv"]["p"]["l"] == 3 and not st["rv"]["p"].get("p") and op_local(t["d"]) == st["lhs"]["l"]:
                        su, fa = switch_edges(d, b, 1)
                        opt_tests.append(Test(b, su, fa, 0, "discr:option", False, None))
        for b, t in d.calls():
            if call_matches(t, r"^core::option::Option::(is_some|is_none)$") and copy_sources(d, op_base(t["args"][0])) == {("arg", 3, ())}:
                for x in call_result_tests(d, b, family="bool")[0]:
                    opt_tests.append(x if callee_names(t)[0].endswith("is_some") else Test(x.bb, x.failure, x.success, x.level, x.family, not x.neg, x.local))
        for ub, it_l in universal:
            fr = {fld for _, fld in du.field_reads(it_l)} if it_l is not None else set()
            both = {"active", "inactive"} <= fr
            on_none = bool(opt_tests) and requires_failure(d, ub, opt_tests)
            if both and on_none:
                ok_u = True
            why = "iterates fields %s; reached only without a connection id: %s" % (sorted(fr & {"active", "inactive"}), on_none)
        rep.ob("disconnect", ok_u, site(d, universal[0][0] if universal else None), "disconnect(endpoint, None) applies start_shutdown to every connection of the endpoint - the active one and all parked ones (%s); shutting down only the first match would leave the active connection of a duplicated endpoint served" % why, skey(F, d, "none-shuts-all"))

    # ---- clause 1: the window
    acc = body_of(F, rep, S + "http_server::Inner::accept")
    aw = find_calls(acc, HS + "SuccessfulAuthentication::authorize_with")
    reg = find_calls(acc, CL + "register")
    rep.exact("window", "authorize_with calls in Inner::accept", len(aw), 1)
    rep.exact("window", "Clients::register calls in Inner::accept", len(reg), 1)
    g = body_of(F, rep, HS + "SuccessfulAuthentication::authorize_with")
    oc = find_calls(g, regex=r"DynAccessControl::on_connect$")
    rep.exact("window", "on_connect calls in authorize_with", len(oc), 1)
    if not (aw and reg and oc):
        return
    rep.ob("must_precede", acc.dominates(aw[0][0], reg[0][0]), site(acc, reg[0][0]), "the id is published (on_connect inside authorize_with) before the registry insert", skey(F, acc, "publish-before-insert"))
    # suspension points after the answer of on_connect is available
    outs = await_output(g, oc[0][1]["dest"]["l"])
    after = set()
    for b, i, s in g.stmts():
        if s["k"] == "a" and s["lhs"]["l"] in outs:
            after |= g.reachable(b)
    yields_in_aw = sorted(b for b in after if g.blocks[b]["t"]["k"] == "yield")
    between = acc.reachable_after(aw[0][0]) & {b for b in acc.reachable(0) if reg[0][0] in acc.reachable(b)}
    out_aw = await_output(acc, aw[0][1]["dest"]["l"])
    yields_in_acc = []
    for b, i, s in acc.stmts():
        if s["k"] == "a" and s["lhs"]["l"] in out_aw:
            yields_in_acc = sorted(x for x in acc.reachable(b) if acc.blocks[x]["t"]["k"] == "yield" and reg[0][0] in acc.reachable(x))
    window = bool(yields_in_aw or yields_in_acc)
    rep.note("suspension points after on_connect's answer inside authorize_with: %d; between authorize_with's completion and register in Inner::accept: %d" % (len(yields_in_aw), len(yields_in_acc)))
    # does a missed disconnect leave state that registration consults?
    written = set()
    for x in F.tree(d):
        for f_owner, f_name in _inner_fields(F):
            for b, t in calls_on_field(x, f_name, regex=MUT, owner=INNER):
                written.add(f_name)
    consulted = set()
    r = get_fn(F, rep, CL + "register")
    for x in F.tree(r):
        for f_owner, f_name in _inner_fields(F):
            if calls_on_field(x, f_name, regex=r"^dashmap::", owner=INNER):
                consulted.add(f_name)
    remembered = written & consulted
    rep.note("Inner fields mutated by disconnect: %s; consulted by register: %s" % (sorted(written), sorted(consulted)))
    ok = (not window) or bool(remembered)
    rep.ob("revocation_window", ok, site(acc, reg[0][0]),
           "a disconnect(endpoint, connection id) issued after on_connect returned Allow but before Clients::register inserts the connection finds nothing, returns false and leaves no trace (disconnect mutates %s, register consults %s); the connection then registers and is served. Window = the confirmation write/flush await inside authorize_with."
           % (sorted(written) or "nothing", sorted(consulted)),
           "Inner::accept|on_connect..register")
    shutdown_arm_unconditional(F, rep)


def _inner_fields(F):
    adt = F.adt(INNER)
    return [(INNER, f["name"]) for f in adt["variants"][0]["fields"]]


def shutdown_arm_unconditional(F, rep):
    ri = body_of(F, rep, S + "client::Actor::run_inner")
    canc = find_calls(ri, regex=r"CancellationToken::cancelled$")
    rep.exact("observes", "polls of the cancellation token in the actor loop", len(canc), 1)
    if len(canc) != 1:
        return
    cl = canc[0][1]["dest"]["l"]
    idx = None
    for b, i, st in ri.stmts():
        if st["k"] == "a" and st["rv"]["k"] == "agg" and st["rv"].get("ak") == "tuple" and len(st["rv"]["ops"]) >= 2:
            for k, o in enumerate(st["rv"]["ops"]):
                if op_base(o) == cl or (op_base(o) is not None and any(x[0] == "call" and x[1].endswith("CancellationToken::cancelled") for x in copy_sources(ri, op_base(o)))):
                    idx = k
    rep.ob("observes", idx is not None, site(ri, canc[0][0]), "the cancellation future is one of the select! branches (branch index %s)" % idx, skey(F, ri, "cancel-is-branch"))
    if idx is None:
        return
    dis = []
    for b, i, st in ri.stmts():
        if st["k"] == "a" and st["rv"]["k"] == "bin" and st["rv"]["op"] in ("Shl", "ShlUnchecked") and st["rv"]["b"]["k"] == "const":
            m = re.match(r"^(?:const )?(\d+)_", str(st["rv"]["b"].get("v")))
            if m and int(m.group(1)) == idx:
                dis.append(b)
    rep.floor("observes", "disable-bit computations for the cancellation branch (select! expansion)", len(dis), 1)
    # the disable block is entered from `switch <cond> [0: disable, otherwise: skip]`; without a
    # precondition the select! expansion sets <cond> to the literal `true` in that very block
    live = []
    for b in dis:
        # walk back over the overflow assert that precedes the shift
        chain = {b}
        frontier = [b]
        guards_ = []
        for _ in range(3):
            nxt = []
            for x in frontier:
                for p in ri.reachable(0):
                    t = ri.blocks[p]["t"]
                    tg = [t.get("t")] if t["k"] in ("goto", "assert", "drop", "call") else ([y for _, y in t["targets"]] + [t["otherwise"]] if t["k"] == "switch" else [])
                    if x in tg and p not in chain:
                        if t["k"] == "switch":
                            guards_.append((p, t))
                        else:
                            chain.add(p)
                            nxt.append(p)
            frontier = nxt
        infeasible = bool(guards_)
        for p, t in guards_:
            l = op_local(t["d"])
            vals = [st["rv"]["o"].get("v") for st in ri.blocks[p]["s"] if st["k"] == "a" and st["lhs"] == {"l": l} and st["rv"]["k"] == "use" and st["rv"]["o"]["k"] == "const"]
            zero_targets = [y for v_, y in t["targets"] if int(v_) == 0]
            leads = any(z in chain for z in zero_targets)
            if not (leads and vals and str(vals[-1]) in ("true", "const true")):
                infeasible = False
        if not infeasible:
            live.append(b)
    rep.ob("observes", not live, site(ri, live[0] if live else canc[0][0]), "the cancellation branch of the actor's select! is never disabled: it has no `, if <cond>` precondition (a precondition such as `queue.is_empty()` lets pending traffic keep a revoked connection served)", skey(F, ri, "shutdown-arm-unconditional"))
