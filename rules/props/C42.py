"""C42 Connection hooks and connect preconditions gate every connection."""
from ..lib import *

E = "iroh::endpoint::"
HK = E + "hooks::"
CONN = E + "connection::"


def enum_tests(F, f, locals_, adt_path, ok_variant):
    adt = F.adt(adt_path)
    okd = {int(v["discr"]) for v in adt["variants"] if v["name"] == ok_variant}
    ts, tags = value_tests(f, locals_, family="enum", enum_success=okd)
    return ts


def check(F, rep):
    rep.clause("an outgoing connection attempt reaches noq only if every before_connect hook accepted, the remote id is not our own and the ALPN is non-empty; a closed endpoint refuses first")
    rep.clause("a Connection value (HandshakeCompletedData) is only assembled in conn_from_noq_conn's future, and that future yields Ok(conn) only if every after_handshake hook accepted; a rejection closes the connection with the hook's code/reason and yields Err; all connection-producing paths go through conn_from_noq_conn")
    rep.clause("hook lists: Accept only after all hooks were consulted, the first Reject returns immediately")
    rep.undecided("what hooks themselves decide")
    cw = body_of(F, rep, E + "Endpoint::connect_with_opts")
    du = defuse(cw)
    cc = find_calls(cw, regex=r"^noq::endpoint::Endpoint::connect_with$")
    bc = find_calls(cw, HK + "EndpointHooksList::before_connect")
    rep.exact("preconditions", "noq connect_with calls", len(cc), 1)
    rep.exact("preconditions", "before_connect calls", len(bc), 1)
    if cc and bc:
        cb = cc[0][0]
        outs = await_output(cw, bc[0][1]["dest"]["l"])
        ts = enum_tests(F, cw, outs, HK + "BeforeConnectOutcome", "Accept")
        rep.ob("preconditions", requires(cw, cb, ts), site(cw, cb), "connect_with requires BeforeConnectOutcome::Accept", skey(F, cw, "requires-hook-accept"))
        a_addr = copy_sources(cw, op_base(bc[0][1]["args"][1]))
        rep.ob("preconditions", du.derives_from_arg(op_base(bc[0][1]["args"][2]), _arg(cw, "alpn")), site(cw, bc[0][0]), "hooks see the requested ALPN", skey(F, cw, "hook-alpn"))
        # self connect
        nes = [(b, t) for b, t in find_calls(cw, "core::cmp::PartialEq::ne", "core::cmp::PartialEq::eq") if any(du.derives_from_call(op_base(a), E + "Endpoint::id") for a in t["args"])]
        rep.exact("preconditions", "comparisons with self.id()", len(nes), 1)
        if nes:
            t_, _ = call_result_tests(cw, nes[0][0], family="bool")
            is_ne = is_call_to(nes[0][1], "core::cmp::PartialEq::ne")
            rep.ob("preconditions", requires(cw, cb, t_) if is_ne else requires_failure(cw, cb, t_), site(cw, cb), "connect_with requires endpoint_id != self.id()", skey(F, cw, "requires-not-self"))
            other = [a for a in nes[0][1]["args"] if not du.derives_from_call(op_base(a), E + "Endpoint::id")]
            s_ = copy_sources(cw, op_base(other[0])) if other else set()
            rep.ob("preconditions", bool(s_) and all(x[2][-1:] == ("id",) for x in s_ if len(x) == 3), site(cw, nes[0][0]), "the id compared is the dialed address's id; %s" % sorted(map(str, s_)), skey(F, cw, "compares-dialed-id"))
        em = [(b, t) for b, t in find_calls(cw, regex=r"is_empty$") if du.derives_from_arg(op_base(t["args"][0]), _arg(cw, "alpn"))]
        rep.exact("preconditions", "alpn.is_empty() tests", len(em), 1)
        if em:
            t_, _ = call_result_tests(cw, em[0][0], family="bool")
            rep.ob("preconditions", requires_failure(cw, cb, t_), site(cw, cb), "connect_with requires a non-empty ALPN", skey(F, cw, "requires-alpn"))
        ic = find_calls(cw, E + "Endpoint::is_closed")
        if ic:
            t_, _ = call_result_tests(cw, ic[0][0], family="bool")
            rep.ob("preconditions", requires_failure(cw, bc[0][0], t_) and requires_failure(cw, cb, t_), site(cw, ic[0][0]), "a closed endpoint refuses before consulting hooks", skey(F, cw, "closed-first"))
        else:
            rep.missing("preconditions", "is_closed test in connect_with_opts")
        callers = call_sites(F, regex=r"^noq::endpoint::Endpoint::(connect|connect_with)$", crates=["iroh"])
        for f, b, t, kind in callers:
            rep.ob("who_calls", source_fn(F, f) == E + "Endpoint::connect_with_opts", site(f, b), "noq connect called from %s" % source_fn(F, f), skey(F, f, "noq-connect-caller"))
    # ---- after handshake
    sites = ctor_sites(F, CONN + "HandshakeCompletedData", crates=["iroh"])
    rep.floor("after-handshake", "HandshakeCompletedData construction sites", len(sites), 1)
    for f, b, i, rv in sites:
        rep.fn(f)
        ok = source_fn(F, f) == CONN + "conn_from_noq_conn"
        rep.ob("ctor_sites", ok, site(f, b), "HandshakeCompletedData assembled in %s" % source_fn(F, f), skey(F, f, "hcd-ctor"))
        if not ok:
            continue
        ah = find_calls(f, HK + "EndpointHooksList::after_handshake")
        if not ah:
            # the hook check no longer sits in the one function every completed handshake goes
            # through: then every caller that hands out the connection must run it itself
            hookers = {source_fn(F, h) for h, b2, t2, k2 in call_sites(F, HK + "EndpointHooksList::after_handshake", crates=["iroh"])}
            missing = []
            for g_, b2, t2, k2 in call_sites(F, CONN + "conn_from_noq_conn", crates=["iroh"]):
                names = {callee_names(t3)[0] for h in tree_with_helpers(F, F.fns_named(source_fn(F, g_))[0] if F.fns_named(source_fn(F, g_)) else g_) for b3, t3 in h.calls()}
                if not (names & hookers) and HK + "EndpointHooksList::after_handshake" not in names:
                    missing.append(source_fn(F, g_))
            rep.ob("after-handshake", False, site(f, b),
                   "conn_from_noq_conn (the only constructor of a handshake-completed Connection) no longer runs EndpointHooksList::after_handshake; the hooks are run by %s, but these paths hand out a connection without them: %s" % (sorted(hookers) or "nobody", sorted(set(missing)) or "none found - moved check not verifiable by this rule"),
                   skey(F, f, "hooks-on-every-path"))
            continue
        rep.exact("after-handshake", "after_handshake calls in the future", len(ah), 1)
        outs = await_output(f, ah[0][1]["dest"]["l"])
        ts = enum_tests(F, f, outs, HK + "AfterHandshakeOutcome", "Accept")
        oks = [(bb, ii, r) for bb, ii, r in returns_of(f) if ii is not None and r["k"] == "agg" and r.get("variant") == "Ok"]
        rep.exact("after-handshake", "Ok(conn) returns", len(oks), 1)
        for bb, ii, r in oks:
            rep.ob("after-handshake", requires(f, bb, ts), site(f, bb), "Ok(conn) requires AfterHandshakeOutcome::Accept from the hooks", skey(F, f, "ok-requires-accept"))
            rep.ob("after-handshake", f.dominates(ah[0][0], bb), site(f, bb), "hooks run before the connection is handed out", skey(F, f, "hooks-before-ok"))
        cl = find_calls(f, CONN + "Connection::close")
        rep.exact("after-handshake", "conn.close(..) on rejection", len(cl), 1)
        if cl:
            fdu = defuse(f)
            rep.ob("after-handshake", requires_failure(f, cl[0][0], ts), site(f, cl[0][0]), "close only on the Reject arm", skey(F, f, "close-on-reject"))
            a1 = set(outs) & fdu.closure(op_base(cl[0][1]["args"][1]))
            a2 = set(outs) & fdu.closure(op_base(cl[0][1]["args"][2]))
            rep.ob("after-handshake", bool(a1) and bool(a2), site(f, cl[0][0]), "closed with the hook's error code and reason", skey(F, f, "close-args"))
            errs = [bb for bb, ii, r in returns_of(f) if ii is not None and r["k"] == "agg" and r.get("variant") == "Err" and bb in f.reachable(cl[0][0])]
            rep.ob("after-handshake", bool(errs) and not any(bb in f.reachable(cl[0][0]) for bb, ii, r in oks), site(f, cl[0][0]), "a rejected connection yields Err, never Ok", skey(F, f, "reject-errs"))
        # the hooks see the connection being returned
        s_ = arg_ref_target(f, ah[0][1]["args"][1])
        rep.ob("after-handshake", any(s_ in defuse(f).closure(op_base(r["ops"][0])) | {op_base(r["ops"][0])} for bb, ii, r in oks), site(f, ah[0][0]), "the hooks inspect the very connection that is handed out", skey(F, f, "hooks-see-conn"))
    # (Connection<State> is a typestate: a handshake-completed Connection needs HandshakeCompletedData,
    # whose only construction site was checked above; 0-RTT states carry other data)
    callers = call_sites(F, CONN + "conn_from_noq_conn", crates=["iroh"])
    rep.floor("who_calls", "callers of conn_from_noq_conn (Connecting, Accepting, 0-RTT paths)", len(callers), 3)
    # ---- hook lists
    for name, adt, rej in (("before_connect", "BeforeConnectOutcome", "Reject"), ("after_handshake", "AfterHandshakeOutcome", "Reject")):
        g = body_of(F, rep, HK + "EndpointHooksList::" + name)
        nx = find_calls(g, "core::iter::traits::iterator::Iterator::next")
        rep.exact("hook-list", "iterator next() in EndpointHooksList::" + name, len(nx), 1)
        if not nx:
            continue
        nt, _ = call_result_tests(g, nx[0][0])
        rets = returns_of(g)
        acc = [(b, i, rv) for b, i, rv in rets if i is not None and rv["k"] == "agg" and rv.get("variant") == "Accept"]
        rep.exact("hook-list", "Accept returns in " + name, len(acc), 1)
        for b, i, rv in acc:
            rep.ob("hook-list", requires_failure(g, b, nt), site(g, b), "Accept is returned only after the hook iterator is exhausted", skey(F, g, "accept-after-all"))
        others = [(b, i, rv) for b, i, rv in rets if (b, i, rv) not in acc]
        hk = [(b, t) for b, t in g.calls() if call_matches(t, r"hooks::DynEndpointHooks::%s$|hooks::EndpointHooks::%s$" % (name, name))]
        rep.exact("hook-list", "per-hook %s calls" % name, len(hk), 1)
        if hk and others:
            outs = await_output(g, hk[0][1]["dest"]["l"])
            ts = enum_tests(F, g, outs, HK + adt, "Accept")
            for b, i, rv in others:
                rep.ob("hook-list", requires_failure(g, b, ts) and nx[0][0] not in g.reachable(b), site(g, b), "a Reject is returned immediately (later hooks are not consulted) and only on a hook's Reject", skey(F, g, "reject-returns"))
            acc_t = {tg for t in ts for _, tg in t.success}
            rep.ob("hook-list", all(nx[0][0] in g.reachable(tg) for tg in acc_t) and bool(acc_t), site(g, hk[0][0]), "an accepting hook moves on to the next hook", skey(F, g, "accept-continues"))


def _arg(f, name):
    for n, pl in f.vars:
        if n == name and not pl.get("p"):
            return pl["l"]
        if n == name and pl.get("p"):
            return pl["l"]
    return -1


def _data_is_copy(f, rv):
    """A Connection rebuilt from an existing one (clone-like conversions) copies `data`."""
    try:
        o = rv["ops"][rv["fields"].index("data")]
    except ValueError:
        return True
    s = copy_sources(f, op_base(o), transparent=("core::clone::Clone::clone",))
    return bool(s) and all(x[0] in ("arg", "place") and x[2][-1:] == ("data",) for x in s)
