"""C33 Pkarr timestamps are strictly increasing across threads."""
from ..lib import *

TS = "iroh_dns::pkarr::Timestamp"
STATIC = "iroh_dns::pkarr::LAST_TIMESTAMP"
RMW_OK = r"^(core::sync::atomic::Atomic(U64)?|portable_atomic::AtomicU64)::(compare_exchange|compare_exchange_weak|fetch_update|fetch_max)$"
ANY_ATOMIC = r"^core::sync::atomic::Atomic(U64)?::"


def check(F, rep):
    rep.clause("LAST_TIMESTAMP is accessed only by loads and compare-exchange style read-modify-writes (no store/swap/fetch_add); Timestamp::now returns `next` only on the Ok edge of the RMW that installed exactly that `next`; `next` = max(clock, expected + 1) where `expected` is the RMW's expected operand; a failed RMW retries from the observed value")
    rep.clause("a single atomic variable: its modification order is total even under Relaxed, so every installed value exceeds every previously installed one")
    rep.undecided("u64 overflow of `last + 1` (584k years of microseconds)")
    # all uses of the static in the workspace
    users = []
    for f in F.all_fns(crates=["iroh_dns", "iroh_dns_server", "iroh"]):
        if f.kind != "AssocFn" and f.kind != "Fn" and f.kind != "Closure":
            continue
        for b, i, s in f.stmts():
            if s["k"] == "a" and s["rv"]["k"] in ("use", "cast") and s["rv"]["o"]["k"] == "const" and s["rv"]["o"].get("static") == STATIC:
                users.append((f, b, s["lhs"]["l"]))
    rep.floor("atomic-pattern", "references to LAST_TIMESTAMP", len(users), 1)
    ops = []
    for f, b, l in users:
        rep.fn(f)
        rep.ob("who_calls", f.npath == TS + "::now", site(f, b), "LAST_TIMESTAMP referenced in %s" % f.npath, skey(F, f, "static-user"))
        for cb, ct, ai in ref_consumers(f, l):
            ops.append((f, cb, ct, ai))
    names = sorted({callee_names(t)[0].rsplit("::", 1)[-1] for f, b, t, ai in ops})
    for f, b, t, ai in ops:
        n = callee_names(t)[0]
        ok = ai == 0 and (call_matches(t, RMW_OK) or call_matches(t, r"Atomic(U64)?::load$"))
        rep.ob("atomic-pattern", ok, site(f, b), "operation on LAST_TIMESTAMP: %s" % n.rsplit("::", 1)[-1], skey(F, f, "op-" + n.rsplit("::", 1)[-1]))
    now = get_fn(F, rep, TS + "::now")
    du = defuse(now)
    rmw = find_calls(now, regex=RMW_OK)
    loads = find_calls(now, regex=r"Atomic(U64)?::load$")
    rep.exact("atomic-pattern", "read-modify-write operations in Timestamp::now", len(rmw), 1)
    if rmw and call_matches(rmw[0][1], r"::fetch_update$"):
        fetch_update_idiom(F, rep, now, rmw[0])
        return
    rep.exact("atomic-pattern", "plain loads in Timestamp::now", len(loads), 1)
    if not rmw:
        return
    rb, rt = rmw[0]
    expected, new = rt["args"][1], rt["args"][2]
    ts, _ = call_result_tests(now, rb)
    # return value
    sites = [(b, i, rv) for b, i, rv in aggregates_in(now, now.reachable(0), TS)]
    rep.exact("returns", "Timestamp constructions in now()", len(sites), 1)
    for b, i, rv in sites:
        rep.ob("returns", requires(now, b, ts), site(now, b), "a timestamp is returned only on the Ok edge of the compare-exchange", skey(F, now, "return-on-ok"))
        s1 = operand_sources(now, rv["ops"][0])
        s2 = operand_sources(now, new)
        rep.ob("returns", s1 == s2 and bool(s1), site(now, b), "the returned value is exactly the value the RMW installed; %s vs %s" % (sorted(map(str, s1)), sorted(map(str, s2))), skey(F, now, "return-installed"))
    # next = max(micros, expected + 1)
    nl = op_base(new)
    mx = [(b, t) for b, t in du.origin_calls(nl) if call_matches(t, r"^core::cmp::(Ord::max|max)$")]
    # (the value may be computed at more than one site: once before the loop and again on retry)
    why = "no max() found"
    el = op_base(expected)
    exp_src = copy_sources(now, el)
    good = 0
    for mb, mt in mx:
        this = False
        for a in mt["args"]:
            l = op_base(a)
            if l is None:
                continue
            adds = [o for o in du.origin_facts(l, kinds=("bin",)) if o[4]["op"] in ("Add", "AddWithOverflow")]
            for o in adds:
                x, y = o[4]["a"], o[4]["b"]
                one = [z for z in (x, y) if z["k"] == "const" and str(z.get("v")).startswith("1_")]
                var = [z for z in (x, y) if z["k"] != "const"]
                if one and var and copy_sources(now, op_base(var[0])) == exp_src:
                    this = True
        good += this
    ok = bool(mx) and good == len(mx)
    if ok:
        why = "next = max(_, expected + 1) at %d site(s)" % len(mx)
    rep.ob("strictly-greater", ok and {x[:1] + x[2:] for x in copy_sources(now, nl)} == {("call", ())} and all(re.match(r"^core::cmp::(Ord::max|max)$", x[1]) for x in copy_sources(now, nl)), site(now, rb), "the installed value exceeds the expected (= last observed) value: %s" % why, skey(F, now, "next-gt-expected"))
    # the new value is recomputed on every retry (not hoisted out of the loop)
    if mx:
        mbs = {b for b, t in mx}
        ftg = {tg for t in ts for _, tg in t.failure if now.blocks[tg]["t"]["k"] != "unreachable"}
        stale = any(rb in now.reachable(tg, removed_blocks=mbs) for tg in ftg)
        rep.ob("strictly-greater", bool(ftg) and not stale, site(now, min(mbs)), "after a failed compare-exchange the value to install is recomputed from the freshly observed value before the next attempt (a value computed once from a stale read could repeat or undercut a timestamp another thread already handed out)", skey(F, now, "recompute-on-retry"))
    # retry: on Err the expected value is reloaded from the RMW's Err payload
    el = op_base(expected)
    srcs = copy_sources(now, el)
    ok = bool(srcs) and all(x[0] == "call" and (x[1].endswith("::load") or _re_rmw(x[1])) for x in srcs) and any(x[1].endswith("::load") for x in srcs) and any(_re_rmw(x[1]) for x in srcs)
    rep.ob("retry", ok, site(now, rb), "`expected` is initialised by the load and refreshed only from the failed RMW's observed value; sources %s" % sorted(map(str, srcs)), skey(F, now, "retry-from-observed"))
    fail_t = {tg for t in ts for _, tg in t.failure if now.blocks[tg]["t"]["k"] != "unreachable"}
    rep.ob("retry", all(rb in now.reachable(tg) for tg in fail_t) and bool(fail_t), site(now, rb), "a failed compare-exchange loops back to retry", skey(F, now, "retry-loops"))
    # who constructs Timestamp
    allowed = {TS + "::now", TS + "::from_micros", TS + "::from_be_bytes"}
    for f, b, i, rv in [x for x in ctor_sites(F, TS) if not x[0].derived]:
        rep.ob("ctor_sites", source_fn(F, f) in allowed, site(f, b), "Timestamp constructed in %s" % source_fn(F, f), skey(F, f, "ts-ctor"))
    # signing uses now()
    ft = get_fn(F, rep, "iroh_dns::pkarr::SignedPacket::from_txt_strings")
    fdu = defuse(ft)
    sg = find_calls(ft, "iroh_dns::pkarr::signable")
    rep.ob("signing", len(sg) == 1 and fdu.derives_from_call(op_base(sg[0][1]["args"][0]), TS + "::now"), site(ft), "packets are signed with a Timestamp::now() value", skey(F, ft, "signs-now"))


def _re_rmw(n):
    import re
    return re.search(RMW_OK, n) is not None


def fetch_update_idiom(F, rep, now, rmw):
    """`LAST.fetch_update(o, o, |last| Some(max(clock, last + 1)))` and the returned timestamp
    is the same function of the previous value fetch_update reports."""
    from ..inline import inlined
    now0 = now
    now = inlined(F, now0)      # `max(clock, last + 1)` may live in a small private helper
    rmw2 = find_calls(now, regex=RMW_OK)
    rb, rt = rmw2[0] if len(rmw2) == 1 else rmw
    du = defuse(now)
    # the update closure
    l = op_base(rt["args"][3])
    m = re.search(r"closure@[^:]+:(\d+):", str(now.locals[l])) if l is not None else None
    cl = [inlined(F, c) for c in F.tree(now0) if c is not now0 and c.kind == "Closure" and m and c.line == int(m.group(1))]
    okc, why = False, "update closure not found"

    def plus_one_of(g, o, is_base):
        ll = op_base(o)
        if ll is None:
            return False
        adds = [x for x in defuse(g).origin_facts(ll, kinds=("bin",)) if x[4]["op"] in ("Add", "AddWithOverflow")]
        for x in adds:
            a, b = x[4]["a"], x[4]["b"]
            for u, w in ((a, b), (b, a)):
                if w["k"] == "const" and str(w.get("v")).replace("const ", "").startswith("1_") and u["k"] != "const" and is_base(copy_sources(g, op_base(u))):
                    return True
        return False
    clock_src = None
    for c in cl:
        rep.fn(c)
        rets = [(b, i, rv) for b, i, rv in returns_of(c) if i is not None]
        mx = [(b, t) for b, t in c.calls() if call_matches(t, r"^core::cmp::(Ord::max|max)$")]
        if len(rets) == 1 and rets[0][2]["k"] == "agg" and rets[0][2].get("variant") == "Some" and len(mx) == 1:
            val = copy_sources(c, op_base(rets[0][2]["ops"][0]))
            from_max = bool(val) and all(x[0] == "call" and re.search(r"core::cmp::(Ord::max|max)$", x[1]) for x in val)
            a0, a1 = mx[0][1]["args"]
            is_param = lambda x: x == {("arg", 2, ())}
            p0, p1 = plus_one_of(c, a0, is_param), plus_one_of(c, a1, is_param)
            other = a1 if p0 else a0
            osrc = copy_sources(c, op_base(other)) if op_base(other) is not None else set()
            okc = from_max and (p0 or p1) and bool(osrc) and all(x[0] == "arg" and x[1] == 1 for x in osrc)
            why = "closure returns Some(max(<captured clock>, last + 1)): %s" % okc
            # what is captured
            cl_locals = {l}
            for _ in range(4):
                for b, i, st in now.stmts():
                    if st["k"] == "a" and st["lhs"].get("l") in cl_locals and not st["lhs"].get("p") and st["rv"]["k"] == "use" and st["rv"]["o"]["k"] in ("copy", "move") and not st["rv"]["o"]["p"].get("p"):
                        cl_locals.add(st["rv"]["o"]["p"]["l"])
            caps = [st["rv"]["ops"] for b, i, st in now.stmts() if st["k"] == "a" and st["lhs"].get("l") in cl_locals and not st["lhs"].get("p") and st["rv"]["k"] == "agg"]
            if caps and caps[0]:
                clock_src = copy_sources(now, op_base(caps[0][0]))
    rep.ob("strictly-greater", okc, site(now, rb), "the value installed by fetch_update exceeds the value it replaces: %s" % why, skey(F, now, "next-gt-expected"))
    # the returned timestamp
    sites = [(b, i, rv) for b, i, rv in aggregates_in(now, now.reachable(0), TS)]
    rep.exact("returns", "Timestamp constructions in now()", len(sites), 1)
    for b, i, rv in sites:
        dc = def_call(now, op_base(rv["ops"][0])) if op_base(rv["ops"][0]) is not None else None
        ok = dc is not None and call_matches(dc[1], r"^core::cmp::(Ord::max|max)$")
        if ok:
            a0, a1 = dc[1]["args"]
            is_prev = lambda x: bool(x) and all(y[0] == "call" and re.search(r"fetch_update$", y[1]) for y in x)
            tr = ("core::result::Result::expect", "core::result::Result::unwrap", "core::result::Result::unwrap_or_else", "core::result::Result::unwrap_or")
            pl0 = plus_one_of_prev(now, a0, is_prev, tr)
            pl1 = plus_one_of_prev(now, a1, is_prev, tr)
            other = a1 if pl0 else a0
            osrc = copy_sources(now, op_base(other)) if op_base(other) is not None else set()
            ok = (pl0 or pl1) and clock_src is not None and osrc == clock_src and f_dominates(now, rb, b)
        rep.ob("returns", ok, site(now, b), "the returned timestamp is max(clock, previous + 1) of the previous value fetch_update reported - the very value the closure installed", skey(F, now, "return-installed"))


def f_dominates(f, a, b):
    return f.dominates(a, b)


def plus_one_of_prev(f, o, is_base, transparent):
    ll = op_base(o)
    if ll is None:
        return False
    adds = [x for x in defuse(f).origin_facts(ll, kinds=("bin",)) if x[4]["op"] in ("Add", "AddWithOverflow")]
    for x in adds:
        a, b = x[4]["a"], x[4]["b"]
        for u, w in ((a, b), (b, a)):
            if w["k"] == "const" and str(w.get("v")).replace("const ", "").startswith("1_") and u["k"] != "const" and is_base(copy_sources(f, op_base(u), transparent=transparent)):
                return True
    return False
