"""C33 Pkarr timestamps are strictly increasing across threads."""
from ..lib import *

TS = "iroh_dns::pkarr::Timestamp"
STATIC = "iroh_dns::pkarr::LAST_TIMESTAMP"
RMW_OK = r"^(core::sync::atomic::Atomic(U64)?|portable_atomic::AtomicU64)::(compare_exchange|compare_exchange_weak|fetch_update|fetch_max)$"
ANY_ATOMIC = r"^core::sync::atomic::Atomic(U64)?::"


def check(F, rep):
    rep.clause("LAST_TIMESTAMP is accessed only by loads and compare-exchange style read-modify-writes (no store/swap/fetch_add); Timestamp::now returns `next` only on the Ok edge of the RMW that installed exactly that `next`; `next` = max(clock, expected + 1) where `expected` is the RMW's expected operand; a failed RMW retries from the observed value")
    rep.clause("a single atomic variable: its modification order is total even under Relaxed, so every installed value exceeds every previously installed one")
    rep.undecided("u64 overflow of `last + 1` (584k years of microseconds)")
    # all uses of the static in the workspace
    users = []
    for f in F.all_fns(crates=["iroh_dns", "iroh_dns_server", "iroh"]):
        if f.kind != "AssocFn" and f.kind != "Fn" and f.kind != "Closure":
            continue
        for b, i, s in f.stmts():
            if s["k"] == "a" and s["rv"]["k"] in ("use", "cast") and s["rv"]["o"]["k"] == "const" and s["rv"]["o"].get("static") == STATIC:
                users.append((f, b, s["lhs"]["l"]))
    rep.floor("atomic-pattern", "references to LAST_TIMESTAMP", len(users), 2)
    ops = []
    for f, b, l in users:
        rep.fn(f)
        rep.ob("who_calls", f.npath == TS + "::now", site(f, b), "LAST_TIMESTAMP referenced in %s" % f.npath, skey(F, f, "static-user"))
        for cb, ct, ai in ref_consumers(f, l):
            ops.append((f, cb, ct, ai))
    names = sorted({callee_names(t)[0].rsplit("::", 1)[-1] for f, b, t, ai in ops})
    for f, b, t, ai in ops:
        n = callee_names(t)[0]
        ok = ai == 0 and (call_matches(t, RMW_OK) or call_matches(t, r"Atomic(U64)?::load$"))
        rep.ob("atomic-pattern", ok, site(f, b), "operation on LAST_TIMESTAMP: %s" % n.rsplit("::", 1)[-1], skey(F, f, "op-" + n.rsplit("::", 1)[-1]))
    now = get_fn(F, rep, TS + "::now")
    du = defuse(now)
    rmw = find_calls(now, regex=RMW_OK)
    loads = find_calls(now, regex=r"Atomic(U64)?::load$")
    rep.exact("atomic-pattern", "read-modify-write operations in Timestamp::now", len(rmw), 1)
    rep.exact("atomic-pattern", "plain loads in Timestamp::now", len(loads), 1)
    if not rmw:
        return
    rb, rt = rmw[0]
    expected, new = rt["args"][1], rt["args"][2]
    ts, _ = call_result_tests(now, rb)
    # return value
    sites = [(b, i, rv) for b, i, rv in aggregates_in(now, now.reachable(0), TS)]
    rep.exact("returns", "Timestamp constructions in now()", len(sites), 1)
    for b, i, rv in sites:
        rep.ob("returns", requires(now, b, ts), site(now, b), "a timestamp is returned only on the Ok edge of the compare-exchange", skey(F, now, "return-on-ok"))
        s1 = operand_sources(now, rv["ops"][0])
        s2 = operand_sources(now, new)
        rep.ob("returns", s1 == s2 and bool(s1), site(now, b), "the returned value is exactly the value the RMW installed; %s vs %s" % (sorted(map(str, s1)), sorted(map(str, s2))), skey(F, now, "return-installed"))
    # next = max(micros, expected + 1)
    nl = op_base(new)
    mx = [(b, t) for b, t in du.origin_calls(nl) if call_matches(t, r"^core::cmp::(Ord::max|max)$")]
    ok = False
    why = "no max() found"
    if len(mx) == 1:
        mb, mt = mx[0]
        el = op_base(expected)
        exp_src = copy_sources(now, el)
        for a in mt["args"]:
            l = op_base(a)
            if l is None:
                continue
            adds = [o for o in du.origin_facts(l, kinds=("bin",)) if o[4]["op"] in ("Add", "AddWithOverflow")]
            for o in adds:
                x, y = o[4]["a"], o[4]["b"]
                one = [z for z in (x, y) if z["k"] == "const" and str(z.get("v")).startswith("1_")]
                var = [z for z in (x, y) if z["k"] != "const"]
                if one and var and copy_sources(now, op_base(var[0])) == exp_src:
                    ok = True
                    why = "next = max(_, expected + 1)"
    rep.ob("strictly-greater", ok and {x[:1] + x[2:] for x in copy_sources(now, nl)} == {("call", ())} and all(re.match(r"^core::cmp::(Ord::max|max)$", x[1]) for x in copy_sources(now, nl)), site(now, rb), "the installed value exceeds the expected (= last observed) value: %s" % why, skey(F, now, "next-gt-expected"))
    # the new value is recomputed on every retry (not hoisted out of the loop)
    if len(mx) == 1:
        mb = mx[0][0]
        ftg = {tg for t in ts for _, tg in t.failure if now.blocks[tg]["t"]["k"] != "unreachable"}
        stale = any(rb in now.reachable(tg, removed_blocks={mb}) for tg in ftg)
        rep.ob("strictly-greater", bool(ftg) and not stale, site(now, mb), "after a failed compare-exchange the value to install is recomputed from the freshly observed value before the next attempt (a value computed once from a stale read could repeat or undercut a timestamp another thread already handed out)", skey(F, now, "recompute-on-retry"))
    # retry: on Err the expected value is reloaded from the RMW's Err payload
    el = op_base(expected)
    srcs = copy_sources(now, el)
    ok = bool(srcs) and all(x[0] == "call" and (x[1].endswith("::load") or _re_rmw(x[1])) for x in srcs) and any(x[1].endswith("::load") for x in srcs) and any(_re_rmw(x[1]) for x in srcs)
    rep.ob("retry", ok, site(now, rb), "`expected` is initialised by the load and refreshed only from the failed RMW's observed value; sources %s" % sorted(map(str, srcs)), skey(F, now, "retry-from-observed"))
    fail_t = {tg for t in ts for _, tg in t.failure if now.blocks[tg]["t"]["k"] != "unreachable"}
    rep.ob("retry", all(rb in now.reachable(tg) for tg in fail_t) and bool(fail_t), site(now, rb), "a failed compare-exchange loops back to retry", skey(F, now, "retry-loops"))
    # who constructs Timestamp
    allowed = {TS + "::now", TS + "::from_micros", TS + "::from_be_bytes"}
    for f, b, i, rv in [x for x in ctor_sites(F, TS) if not x[0].derived]:
        rep.ob("ctor_sites", source_fn(F, f) in allowed, site(f, b), "Timestamp constructed in %s" % source_fn(F, f), skey(F, f, "ts-ctor"))
    # signing uses now()
    ft = get_fn(F, rep, "iroh_dns::pkarr::SignedPacket::from_txt_strings")
    fdu = defuse(ft)
    sg = find_calls(ft, "iroh_dns::pkarr::signable")
    rep.ob("signing", len(sg) == 1 and fdu.derives_from_call(op_base(sg[0][1]["args"][0]), TS + "::now"), site(ft), "packets are signed with a Timestamp::now() value", skey(F, ft, "signs-now"))


def _re_rmw(n):
    import re
    return re.search(RMW_OK, n) is not None
