"""C25 Requested network re-probes are never silently dropped (release before signal)."""
from ..lib import *

ST = "iroh::socket::DirectAddrUpdateState"


def check(F, rep):
    rep.clause("release-before-signal: the task spawned by DirectAddrUpdateState::run drops the OwnedMutexGuard on the net-report client on every path *before* it sends on run_done; the receiver of that signal reacts with try_run -> try_lock_owned, which does nothing while the guard is still alive and would leave want_update set with no further trigger")
    rep.clause("want_update is written only by schedule_run (lock busy) and try_run (take); run is only entered with a guard obtained by try_lock_owned (at most one report in flight)")
    rep.undecided("that the actor eventually receives run_done (channel liveness)")
    run = get_fn(F, rep, ST + "::run")
    # the spawned coroutine and its guard upvar
    body = None
    done_upvars = []
    guard_upvars = []
    for b, i, s in run.stmts():
        if s["k"] == "a" and s["rv"]["k"] == "agg" and s["rv"]["ak"] in ("coroutine", "closure"):
            g = F._get(s["rv"]["def"]) if s["rv"]["def"] in F.entries else None
            if g is None:
                continue
            gu = [name for o, name in zip(s["rv"]["ops"], g.upvars) if op_base(o) is not None and "OwnedMutexGuard" in run.locals[op_base(o)]]
            if gu:
                body, guard_upvars = g, gu
                # which captured value is (a clone of) self.run_done, whatever the local is called
                done_upvars = [name for o, name in zip(s["rv"]["ops"], g.upvars) if op_base(o) is not None and any(len(x) == 3 and tuple(x[2])[-1:] == ("run_done",) for x in copy_sources(run, op_base(o)))]
    if body is None:
        rep.missing("anchor", "spawned task of DirectAddrUpdateState::run capturing the OwnedMutexGuard")
        return
    rep.fn(body)
    sp = find_calls(run, regex=r"^tokio::task::spawn::spawn$|^n0_future::task::spawn$|task::spawn$")
    rep.floor("release-before-signal", "task::spawn calls in run", len(sp), 1)
    names = set(done_upvars) | {"run_done"}
    sends = [(b, t) for b, t in find_calls(body, regex=r"mpsc::bounded::Sender::send$") if recv_field(body, t["args"][0]) in names or any(x[2][-1:] and x[2][-1] in names for x in copy_sources(body, op_base(t["args"][0])) if len(x) == 3)]
    rep.exact("release-before-signal", "run_done.send(..) in the spawned task", len(sends), 1)
    if not sends:
        return
    sb, stt = sends[0]
    gname = guard_upvars[0]
    releases = []
    for b in sorted(body.reachable(0)):
        t = body.blocks[b]["t"]
        if t["k"] == "drop":
            names = place_field_names(t["p"])
            if t["p"]["l"] == 1 and names[-1:] == [gname]:
                releases.append(b)
        if t["k"] == "call" and is_call_to(t, "core::mem::drop") and t["args"]:
            src = operand_sources(body, t["args"][0], follow=True)
            if src and all(x[0] == "arg" and x[1] == 1 and x[2] == (gname,) for x in src):
                releases.append(b)
    before = [b for b in releases if body.dominates(b, sb)]
    rep.ob("release-before-signal", bool(before), site(body, sb),
           "the guard `%s` is released before run_done.send(()) (%d release point(s) in the task, %d dominate the send)%s"
           % (gname, len(releases), len(before), "" if before else ": it is only dropped with the task's state after the send completed, so the woken actor's try_run can still find the mutex locked, do nothing, and the requested update stays queued in want_update forever"),
           "DirectAddrUpdateState::run|spawned-task|guard-dropped-before-run_done")
    # guard is used by the report
    gr = find_calls(body, regex=r"net_report::Client::get_report$")
    rep.ob("release-before-signal", len(gr) == 1 and any(x[2][:1] == (gname,) for x in copy_sources(body, op_base(gr[0][1]["args"][0])) if len(x) == 3) and body.dominates(gr[0][0], sb), site(body),
           "the report runs under that guard and the signal is sent after it", skey(F, body, "report-under-guard"))
    # ---- want_update writers
    w = [x for x in field_accesses(F, ST, "want_update", crates=["iroh"]) if x[3] in ("write", "refmut")]
    rep.floor("who_writes", "writes to want_update", len(w), 2)
    allowed = {ST + "::schedule_run", ST + "::try_run", ST + "::new"}
    for f, b, i, kind, s in w:
        rep.fn(f)
        rep.ob("who_writes", source_fn(F, f) in allowed, site(f, b), "want_update written in %s" % source_fn(F, f), skey(F, f, "want_update-writer"))
    sr = get_fn(F, rep, ST + "::schedule_run")
    tl = find_calls(sr, regex=r"tokio::sync::mutex::Mutex::try_lock_owned$")
    ins = find_calls(sr, "core::option::Option::insert")
    rc = find_calls(sr, ST + "::run")
    rep.exact("schedule", "try_lock_owned in schedule_run", len(tl), 1)
    if tl and ins and rc:
        ts, _ = call_result_tests(sr, tl[0][0])
        rep.ob("schedule", requires_failure(sr, ins[0][0], ts) and recv_field(sr, ins[0][1]["args"][0]) == "want_update", site(sr, ins[0][0]), "a busy lock records the request in want_update", skey(F, sr, "busy-records"))
        rep.ob("schedule", requires(sr, rc[0][0], ts), site(sr, rc[0][0]), "run starts only with the acquired guard", skey(F, sr, "run-requires-guard"))
        # every path records or runs
        fail_t = {tg for t in ts for _, tg in t.failure if sr.blocks[tg]["t"]["k"] != "unreachable"}
        rets = [b for b in sr.exits()]
        byp = any(r in sr.reachable(tg, removed_blocks={ins[0][0]}) for tg in fail_t for r in rets)
        rep.ob("schedule", not byp, site(sr), "on a busy lock the request is always recorded", skey(F, sr, "busy-always-records"))
    tr = get_fn(F, rep, ST + "::try_run")
    tl2 = find_calls(tr, regex=r"tokio::sync::mutex::Mutex::try_lock_owned$")
    tk = find_calls(tr, "core::option::Option::take")
    rc2 = find_calls(tr, ST + "::run")
    if tl2 and tk and rc2:
        ts, _ = call_result_tests(tr, tl2[0][0])
        tt, _ = call_result_tests(tr, tk[0][0])
        rep.ob("schedule", requires(tr, tk[0][0], ts), site(tr, tk[0][0]), "want_update is taken only once the lock was acquired (a busy lock leaves the request queued)", skey(F, tr, "take-requires-guard"))
        rep.ob("schedule", requires(tr, rc2[0][0], tt) and requires(tr, rc2[0][0], ts), site(tr, rc2[0][0]), "a taken request is run", skey(F, tr, "taken-is-run"))
        s_ = copy_sources(tr, op_base(rc2[0][1]["args"][1]))
        rep.ob("schedule", bool(s_) and all((x[0] == "call" and x[1] == "core::option::Option::take") or (x[0] == "arg" and "want_update" in x[2]) for x in s_), site(tr, rc2[0][0]), "with the recorded reason; sources %s" % sorted(map(str, s_)), skey(F, tr, "reason"))
    else:
        rep.missing("schedule", "try_run shape (try_lock_owned/take/run)")
    callers = call_sites(F, ST + "::run", crates=["iroh"])
    for f, b, t, kind in callers:
        rep.ob("who_calls", source_fn(F, f) in (ST + "::schedule_run", ST + "::try_run"), site(f, b), "run called from %s" % source_fn(F, f), skey(F, f, "run-caller"))
