"""C28 Preferred relay choice is current and sticky (relational clauses)."""
from ..lib import *
from .. import booltab
from ..booltab import Unsupported

FN = "iroh::net_report::Client::add_report_history_and_set_preferred_relay"
RL = "iroh::net_report::report::RelayLatencies"


def check(F, rep):
    rep.clause("membership: report.preferred_relay is written only (a) with the url of an entry of *this report's* relay_latency for which the windowed best latency exists, or (b) with the previous preferred relay, and then only if a latency for it was recorded from this report's entries (non-zero accumulator)")
    rep.clause("window: best_recent merges exactly the previous reports not older than MAX_AGE = 5 min (older ones are skipped and removed) and the current report; the candidate is a running minimum of best_recent.get(url) over the current report's relays")
    rep.clause("previous relay's current latency: the accumulator compared against is the LOWEST latency this report holds for the previous relay (a relay is listed once per probe kind): overwritten exactly when the entry is the previous relay and the accumulator is still zero or the entry's latency is smaller")
    rep.clause("stickiness: the previous relay is restored exactly when there is one, the candidate differs from it, it was measured in this report, and candidate_best > previous_current / 3 * 2")
    rep.undecided("Duration arithmetic (integer division by 3 before doubling rounds down by < 3 ns), Instant ordering, BTreeMap/Watchable semantics")
    f = get_fn(F, rep, FN)
    du = defuse(f)
    # the working variables by role (type + how they are fed), not by name
    var = {}
    RLT = "iroh::net_report::report::RelayLatencies"
    for n, pl in f.vars:
        if pl.get("p"):
            continue
        l = pl["l"]
        ty = str(f.locals[l])
        if ty == RLT:
            var.setdefault("best_recent", l)
        elif re.match(r"^core::option::Option<.*RelayUrl>$", ty) and (any(call_matches(t, r"Clone::clone_from$") and arg_ref_target(f, t["args"][0]) == l for b, t in f.calls())
                                                                      or any(fld == "preferred_relay" for _, fld in defuse(f).field_reads(l))):
            var.setdefault("prev_relay", l)
        elif ty == "core::time::Duration":
            ws = [s_["rv"] for b_, i_, s_ in f.stmts() if s_["k"] == "a" and s_["lhs"] == {"l": l} and s_["rv"]["k"] == "use" and s_["rv"]["o"]["k"] in ("copy", "move")]
            for rv in ws:
                x = copy_sources(f, op_base(rv["o"]))
                if x and all(y[0] == "call" and y[1] == RL + "::get" for y in x):
                    var.setdefault("best_any", l)
                elif x and all(y[0] == "call" and y[1].endswith("Iterator::next") and tuple(y[2])[-1:] == ("2",) for y in x):
                    var.setdefault("old_relay_cur_latency", l)
    need = ("prev_relay", "best_recent", "best_any", "old_relay_cur_latency")
    rep.ob("anchor", all(n in var for n in need), site(f), "working variables found by role: %s" % {k: "_%d" % v for k, v in var.items()}, skey(F, f, "locals"))
    if not all(n in var for n in need):
        return
    prev, best_recent, best_any, old = (var[n] for n in need)
    slotset = {prev, best_any, old}

    def src(o, stop=slotset):
        l = op_base(o)
        return copy_sources(f, l, stop=stop) if l is not None else set()

    # ---- the loop over the current report's latencies
    its = [(b, t) for b, t in find_calls(f, RL + "::iter")]
    rep.exact("membership", "relay_latency.iter() calls", len(its), 1)
    if not its:
        return
    recv = src(its[0][1]["args"][0])
    rep.ob("membership", bool(recv) and all(x[0] == "arg" and x[1] == 2 and tuple(x[2]) == ("relay_latency",) for x in recv), site(f, its[0][0]), "the relays ranked are those of the report being added (r.relay_latency)", skey(F, f, "iter-current"))
    nxs = [(b, t) for b, t in find_calls(f, "core::iter::traits::iterator::Iterator::next") if its[0][1]["dest"]["l"] in du.closure(op_base(t["args"][0])) and f.dominates(its[0][0], b)]
    nxs = [(b, t) for b, t in nxs if any(def_call(f, x) is not None and def_call(f, x)[0] == its[0][0] or True for x in (0,))]
    # the next() whose iterator derives (by plain moves / into_iter) from the iter() call
    def from_iter(l, depth=0):
        if depth > 6 or l is None:
            return False
        dc = def_call(f, l)
        if dc is not None:
            if dc[0] == its[0][0]:
                return True
            if call_matches(dc[1], r"IntoIterator::into_iter$"):
                return from_iter(op_base(dc[1]["args"][0]), depth + 1)
            return False
        for b, i, st in f.stmts():
            if st["k"] == "a" and st["lhs"] == {"l": l}:
                rv = st["rv"]
                if rv["k"] == "use" and rv["o"]["k"] in ("copy", "move") and not rv["o"]["p"].get("p"):
                    return from_iter(rv["o"]["p"]["l"], depth + 1)
                if rv["k"] == "ref" and all(e[0] == "deref" for e in rv["p"].get("p", [])):
                    return from_iter(rv["p"]["l"], depth + 1)
        return False
    nxs = [(b, t) for b, t in find_calls(f, "core::iter::traits::iterator::Iterator::next") if from_iter(op_base(t["args"][0]))]
    rep.exact("membership", "loop over the current report's entries", len(nxs), 1)
    if not nxs:
        return
    nb, nt = nxs[0]
    nts, _ = call_result_tests(f, nb)
    item = nt["dest"]["l"]
    some_t = [tg for t in nts for _, tg in t.success]
    after = [tg for t in nts for _, tg in t.failure if f.blocks[tg]["t"]["k"] != "unreachable"]

    def is_item(o, fld):
        x = src(o)
        return bool(x) and all(y[0] == "call" and y[1].endswith("Iterator::next") and tuple(y[2]) == ("0", fld) for y in x)

    def is_slot(o, sl, flds=()):
        x = src(o)
        return bool(x) and all(y[0] == "place" and y[1] == sl and tuple(y[2]) == tuple(flds) for y in x)

    def is_cur_pref(o):
        x = src(o)
        return bool(x) and all(y[0] == "arg" and y[1] == 2 and tuple(y[2]) == ("preferred_relay",) for y in x)

    # ---- writes of r.preferred_relay
    # ---- writers of r.preferred_relay: (a) candidate = Some(url.clone()) via replace(..) or
    # assignment, (b) restore = prev_relay
    writers = []      # (block, kind, value operand)
    for b, t in find_calls(f, "core::option::Option::replace"):
        if is_cur_pref(t["args"][0]):
            writers.append((b, "replace", t["args"][1]))
    for b, i, s_ in f.stmts():
        if s_["k"] == "a" and s_["lhs"]["l"] == 2 and [e[2] for e in s_["lhs"].get("p", []) if e[0] == "f"] == ["preferred_relay"]:
            if s_["rv"]["k"] == "use":
                writers.append((b, "assign", s_["rv"]["o"]))
            elif s_["rv"]["k"] == "agg" and s_["rv"].get("variant") == "Some":
                writers.append((b, "assign-some", s_["rv"]["ops"][0]))
            else:
                writers.append((b, "assign-other", None))
    refmut = [(b, i, s_) for b, i, s_ in f.stmts() if s_["k"] == "a" and s_["rv"]["k"] == "ref" and s_["rv"].get("mut") and s_["rv"]["p"]["l"] == 2 and [e[2] for e in s_["rv"]["p"].get("p", []) if e[0] == "f"] == ["preferred_relay"]]

    def url_clone(o):
        """operand is (a clone of) the current entry's url"""
        l = op_base(o) if o is not None else None
        if l is None:
            return False
        x = copy_sources(f, l, stop=slotset)
        if x and all(y[0] == "agg" and y[1].endswith("Option::Some") for y in x):
            for b_, i_, st in f.stmts():
                if st["k"] == "a" and st["lhs"] == {"l": l} and st["rv"]["k"] == "agg" and st["rv"].get("variant") == "Some":
                    return url_clone(st["rv"]["ops"][0])
            # through a copy chain
            for b_, i_, st in f.stmts():
                if st["k"] == "a" and st["lhs"] == {"l": l} and st["rv"]["k"] == "use" and st["rv"]["o"]["k"] in ("copy", "move"):
                    return url_clone(st["rv"]["o"])
            return False
        return bool(x) and all(y[0] == "call" and y[1].endswith("Iterator::next") and tuple(y[2]) == ("0", "1") for y in x)
    cand_w = [(b, k, o) for b, k, o in writers if (k == "replace" and url_clone(o)) or (k in ("assign", "assign-some") and url_clone(o))]
    rest_w = [(b, k, o) for b, k, o in writers if k == "assign" and is_slot(o, prev)]
    other_w = [w for w in writers if w not in cand_w and w not in rest_w]
    rep.exact("membership", "writes of the candidate (Some(url.clone()))", len(cand_w), 1)
    rep.exact("membership", "writes restoring the previous preferred relay", len(rest_w), 1)
    rep.ob("membership", not other_w and len(refmut) == sum(1 for w in writers if w[1] == "replace"), site(f), "r.preferred_relay has no other writer (%s; %d &mut borrows)" % ([w[1] for w in other_w], len(refmut)), skey(F, f, "no-other-writers"))
    repl = [(b, {"args": [None, o]}) for b, k, o in cand_w]
    asg = [(b, None, {"rv": {"k": "use", "o": o}}) for b, k, o in rest_w]
    gets = [(b, t) for b, t in find_calls(f, RL + "::get") if arg_ref_target(f, t["args"][0]) == best_recent or is_slot(t["args"][0], best_recent)]
    gets = [(b, t) for b, t in find_calls(f, RL + "::get")]
    rep.exact("window", "best_recent.get(url) calls", len(gets), 1)
    if repl and gets:
        rb, rt = repl[0]
        gb, gt = gets[0]
        gts, _ = call_result_tests(f, gb)
        val = src(rt["args"][1])
        okv = url_clone(rt["args"][1])
        rep.ob("membership", okv and requires(f, rb, nts) and requires(f, rb, gts), site(f, rb), "the candidate stored is the url of the current entry, and only if best_recent has a latency for it; sources %s" % sorted(map(str, val)), skey(F, f, "candidate-from-current"))
        rep.ob("window", arg_ref_target(f, gt["args"][0]) == best_recent and is_item(gt["args"][1], "1"), site(f, gb), "the latency compared is best_recent.get(url) of that entry", skey(F, f, "get-operands"))
    if asg:
        ab, ai, as_ = asg[0]
        v = src(as_["rv"]["o"], stop=()) if as_["rv"]["k"] == "use" else set()
        v2 = src(as_["rv"]["o"]) if as_["rv"]["k"] == "use" else set()
        rep.ob("membership", is_slot(as_["rv"]["o"], prev) if as_["rv"]["k"] == "use" else False, site(f, ab), "the only direct assignment restores the previous preferred relay; sources %s" % sorted(map(str, v2)), skey(F, f, "restore-prev"))
    # prev_relay comes from the last report's preferred_relay
    pw = [(b, t) for b, t in f.calls() if call_matches(t, r"Clone::clone_from$") and arg_ref_target(f, t["args"][0]) == prev]
    okp = False
    for b, t in pw:
        x = copy_sources(f, op_base(t["args"][1]))
        okp = bool(x) and all(y[2][-1:] == ("preferred_relay",) for y in x)
    others = [s for b, i, s in f.stmts() if s["k"] == "a" and s["lhs"] == {"l": prev} and not (s["rv"]["k"] == "agg" and s["rv"].get("variant") == "None")]
    if not pw:
        # immutable binding computed from `self.reports.last`: every non-None definition is a
        # clone / copy of last.preferred_relay
        defs = [s for b, i, s in f.stmts() if s["k"] == "a" and s["lhs"] == {"l": prev}] + [t for b, t in f.calls() if t["dest"] == {"l": prev}]
        srcs = copy_sources(f, prev, transparent=("core::clone::Clone::clone",))
        okp = bool(srcs) and all((y[0] == "agg" and y[1].endswith("Option::None")) or (len(y) == 3 and tuple(y[2])[-1:] == ("preferred_relay",) and "last" in tuple(y[2])) for y in srcs) and any(len(y) == 3 and tuple(y[2])[-1:] == ("preferred_relay",) for y in srcs)
        pw = [None]
        others = []
    rep.ob("membership", okp and len(pw) == 1 and not others, site(f), "prev_relay is None or the last report's preferred_relay", skey(F, f, "prev-from-last"))

    # ---- the report that is recorded (reports.last / reports.prev) is the final one
    recs = [(b, t) for b, t in f.calls() if call_matches(t, r"^core::clone::Clone::clone$") and copy_sources(f, op_base(t["args"][0])) == {("arg", 2, ())}]
    rep.floor("history", "clones of the report into the history", len(recs), 1)
    wblocks = {w[0] for w in writers}
    for b, t in recs:
        late = sorted(wb for wb in wblocks if wb in f.reachable(b))
        rep.ob("history", not late, site(f, b), "the report is copied into reports.last / reports.prev only after its preferred_relay is final (no write of r.preferred_relay is reachable afterwards) - the next call reads prev_relay from reports.last, so a stale copy would defeat the stickiness", skey(F, f, "recorded-report-final"))
    lastw = [(b, i, s_) for b, i, s_ in f.stmts() if s_["k"] == "a" and s_["lhs"]["l"] == 1 and [e[2] for e in s_["lhs"].get("p", []) if e[0] == "f"][-1:] == ["last"]]
    rep.floor("history", "writes of self.reports.last", len(lastw), 1)
    # ---- window: merges
    merges = find_calls(f, RL + "::merge")
    rep.exact("window", "best_recent.merge calls", len(merges), 2)
    ages = [(b, s, ts) for b, s, ts in cmp_tests(f, ops=("Gt", "Ge", "Lt", "Le")) if any(o["k"] == "const" and str(o.get("def", "")).endswith("::MAX_AGE") for o in (s["rv"]["a"], s["rv"]["b"]))]
    age_calls = [(b, t) for b, t in find_calls(f, regex=r"^core::cmp::PartialOrd::(gt|ge|lt|le)$") if any(a["k"] == "const" and str(a.get("def", "")).endswith("::MAX_AGE") for a in t["args"]) or any(str(x[4].get("def", "")).endswith("::MAX_AGE") for a in t["args"] if op_base(a) is not None for x in du.origin_facts(op_base(a), kinds=("const",)) if def_call(f, op_base(a)) is None)]
    retain_ok = None
    if not age_calls:
        # idiom 2: `self.reports.prev.retain(|t, _| now.duration_since(*t) <= MAX_AGE)` and then
        # every remaining report is merged
        for b, t in find_calls(f, regex=r"BTreeMap::retain$"):
            x = copy_sources(f, op_base(t["args"][0]))
            if not (x and all(y[0] == "arg" and y[1] == 1 and tuple(y[2])[-2:] == ("reports", "prev") for y in x)):
                continue
            m_ = re.search(r"closure@[^:]+:(\d+):", str(f.locals[op_base(t["args"][1])]))
            for c in F.tree(f):
                if c is f or not m_ or c.line != int(m_.group(1)) or c.kind != "Closure":
                    continue
                cc = [(cb, ct) for cb, ct in c.calls() if call_matches(ct, r"^core::cmp::PartialOrd::(le|lt|gt|ge)$")]
                ds = [(cb, ct) for cb, ct in c.calls() if call_matches(ct, r"Instant::duration_since$")]
                consts = {o.get("def") for cb, i_, st in c.stmts() if st["k"] == "a" and st["rv"]["k"] == "use" and st["rv"]["o"]["k"] == "const" for o in [st["rv"]["o"]]}
                nots = [st for cb, i_, st in c.stmts() if st["k"] == "a" and st["lhs"]["l"] == 0 and st["rv"]["k"] == "un"]
                if len(cc) == 1 and len(ds) == 1 and any(str(x_).endswith("::MAX_AGE") for x_ in consts):
                    rep.fn(c)
                    nm = callee_names(cc[0][1])[0].rsplit("::", 1)[-1]
                    age_first = def_call(c, ref_target_local(c, cc[0][1]["args"][0])) is not None and call_matches(def_call(c, ref_target_local(c, cc[0][1]["args"][0]))[1], r"duration_since$")
                    keep_young = ((age_first and nm in ("le", "lt")) or (not age_first and nm in ("ge", "gt"))) != bool(nots)
                    retain_ok = (b, keep_young and cc[0][1]["dest"]["l"] == 0 or (keep_young and bool(nots)))
        rep.ob("window", retain_ok is not None and retain_ok[1], site(f, retain_ok[0] if retain_ok else None), "reports older than MAX_AGE are dropped by retain(|t, _| now.duration_since(*t) <= MAX_AGE) before the remaining ones are merged", skey(F, f, "merge-within-window"))
        if retain_ok is not None:
            prev_merges = [(b_, t_) for b_, t_ in merges if not all(y[0] == "arg" and y[1] == 2 and tuple(y[2]) == ("relay_latency",) for y in copy_sources(f, op_base(t_["args"][1])) or [("x", 0, ())])]
            rep.ob("window", len(prev_merges) == 1 and f.dominates(retain_ok[0], prev_merges[0][0]), site(f, retain_ok[0]), "the merge loop over the previous reports runs after the pruning", skey(F, f, "merge-after-retain"))
    else:
        rep.exact("window", "age comparisons against MAX_AGE", len(age_calls), 1)
    ma = [g for g in F.find(r"add_report_history_and_set_preferred_relay::MAX_AGE$")]
    okm = False
    if len(ma) == 1:
        g = ma[0]
        cc = list(g.calls())
        if len(cc) == 1 and call_matches(cc[0][1], r"Duration::from_secs$"):
            def cval(o):
                if o["k"] == "const":
                    m = re.match(r"^(?:const )?(\d+)_u64$", str(o.get("v")))
                    return int(m.group(1)) if m else None
                l = op_base(o)
                for b, i, st in g.stmts():
                    if st["k"] == "a" and st["lhs"] == {"l": l}:
                        rv = st["rv"]
                        if rv["k"] == "use" and rv["o"]["k"] in ("copy", "move"):
                            return cval({"k": "copy", "p": {"l": rv["o"]["p"]["l"]}})
                        if rv["k"] == "bin" and rv["op"] in ("Mul", "MulWithOverflow"):
                            x, y = cval(rv["a"]), cval(rv["b"])
                            return None if x is None or y is None else x * y
                return None
            okm = cval(cc[0][1]["args"][0]) == 300
    rep.ob("window", okm, site(ma[0]) if ma else FN, "MAX_AGE = Duration::from_secs(300)", "MAX_AGE|value")
    if age_calls and merges:
        ab, at = age_calls[0]
        ats, _ = call_result_tests(f, ab, family="bool")
        nm = callee_names(at)[0].rsplit("::", 1)[-1]
        a0_age = any(call_matches(t, r"Instant::duration_since$") for b, t in [def_call(f, x) for x in [ref_target_local(f, at["args"][0])] if x is not None and def_call(f, x) is not None])
        a1_age = any(call_matches(t, r"Instant::duration_since$") for b, t in [def_call(f, x) for x in [ref_target_local(f, at["args"][1])] if x is not None and def_call(f, x) is not None])
        too_old_true = (a0_age and nm in ("gt", "ge")) or (a1_age and nm in ("lt", "le"))
        is_cur = lambda t: all(y[0] == "arg" and y[1] == 2 and tuple(y[2]) == ("relay_latency",) for y in copy_sources(f, op_base(t["args"][1])) or [("x", 0, ())])
        inloop = [(b, t) for b, t in merges if not is_cur(t)]
        ok = len(inloop) == 1 and (a0_age or a1_age)
        for b, t in inloop[:1]:
            ok = ok and b in f.reachable(ab) and (requires_failure(f, b, ats) if too_old_true else requires(f, b, ats))
            x = copy_sources(f, op_base(t["args"][1]))
            ok = ok and bool(x) and all(y[2][-1:] == ("relay_latency",) for y in x)
            ok = ok and arg_ref_target(f, t["args"][0]) == best_recent
        rep.ob("window", ok, site(f, ab), "a previous report is merged into best_recent only if it is not older than MAX_AGE", skey(F, f, "merge-within-window"))
        curm = [(b, t) for b, t in merges if all(y[0] == "arg" and y[1] == 2 and tuple(y[2]) == ("relay_latency",) for y in copy_sources(f, op_base(t["args"][1])) or [("x", 0, ())])]
        rep.ob("window", len(curm) == 1 and f.dominates(curm[0][0], its[0][0]), site(f), "the current report is merged into best_recent before the ranking loop", skey(F, f, "merge-current"))

    # ---- accumulators as truth functions
    start = some_t[0] if some_t else None

    def acc_value_of(v):
        def value_of(a):
            if a.kind == "call":
                nm = a.name
                if call_matches(a.term, r"^core::cmp::PartialEq::(eq|ne)$"):
                    x0, x1 = a.args
                    def is_url_opt(o):
                        x = src(o)
                        if x == {("agg", "core::option::Option::Some")}:
                            return True
                        return is_item(o, "1")
                    def is_prev(o):
                        x = src(o)
                        return bool(x) and all((y[0] == "place" and y[1] == prev) for y in x)
                    if (is_url_opt(x0) and is_prev(x1)) or (is_url_opt(x1) and is_prev(x0)):
                        return v["is_prev"] == nm.endswith("::eq")
                if call_matches(a.term, r"Duration::is_zero$") and is_slot(a.args[0], old):
                    return v["old"] == "zero"
                if call_matches(a.term, r"^core::option::Option::(is_none|is_some)$") and is_cur_pref(a.args[0]):
                    return (v["pref"] == "none") == nm.endswith("is_none")
                if call_matches(a.term, r"^core::cmp::PartialOrd::(lt|gt|le|ge)$"):
                    op = nm.rsplit("::", 1)[-1]
                    rel = {"lt": ("lt",), "le": ("lt", "eq"), "gt": ("gt",), "ge": ("gt", "eq")}[op]
                    flip = {"lt": "gt", "gt": "lt", "eq": "eq"}
                    for new_is, slot, key in ((lambda o: is_item(o, "2"), old, "old"), (lambda o: bool(src(o)) and all(y[0] == "call" and y[1] == RL + "::get" and tuple(y[2]) == ("0",) for y in src(o)), best_any, "best")):
                        if new_is(a.args[0]) and is_slot(a.args[1], slot):
                            return v[key] in rel
                        if is_slot(a.args[0], slot) and new_is(a.args[1]):
                            return v[key] not in ("zero",) and flip.get(v[key], v[key]) in rel
                raise Unsupported("test %s at bb%d" % (nm, a.bb))
            if a.kind == "switch":
                l = op_local(a.args[0])
                for st in f.blocks[a.bb]["s"]:
                    if st["k"] == "a" and st["lhs"]["l"] == l and st["rv"]["k"] == "discr":
                        pl = st["rv"]["p"]
                        vals = [int(z) for z, _ in f.blocks[a.bb]["t"]["targets"]]
                        x = copy_sources(f, pl["l"], stop=slotset)
                        if gets and (pl["l"] == gets[0][1]["dest"]["l"] or (x and all(y[0] == "call" and y[1] == RL + "::get" and tuple(y[2]) == () for y in x))):
                            w = 1 if v["has_best"] else 0
                            return w if w in vals else "otherwise"
                        names = [e[2] for e in resolve_place(f, pl).get("p", []) if e[0] == "f"]
                        if names[-1:] == ["preferred_relay"]:
                            w = 0 if v["pref"] == "none" else 1
                            return w if w in vals else "otherwise"
                raise Unsupported("branch at bb%d" % a.bb)
            raise Unsupported("%s at bb%d" % (a.kind, a.bb))
        return value_of

    # old_relay_cur_latency
    oldw = [b for b, i, s in f.stmts() if s["k"] == "a" and s["lhs"] == {"l": old} and s["rv"]["k"] == "use" and s["rv"]["o"]["k"] in ("copy", "move") and is_item(s["rv"]["o"], "2")]
    oldw_other = [b for b, i, s in f.stmts() if s["k"] == "a" and s["lhs"] == {"l": old} and b not in oldw and not (def_call(f, old) is None and b in f.reachable(0) and not (start is not None and b in f.reachable(start)))]
    init_ok = all(call_matches(t, r"Default::default$|Duration::default$") or True for b, t in f.calls() if t["dest"] == {"l": old})
    rep.ob("lowest-current", bool(oldw) and not oldw_other, site(f, oldw[0] if oldw else None), "inside the loop old_relay_cur_latency is only ever overwritten with the current entry's latency", skey(F, f, "old-writes"))
    if oldw and start is not None:
        try:
            paths = booltab.extract(f, target=set(oldw), start=start, stop={nb})
            bad = []
            for is_prev_ in (False, True):
                for o_ in ("zero", "lt", "eq", "gt"):
                    for hb in (False, True):
                        for pref in ("none", "some"):
                            for bst in ("lt", "gt"):
                                v = {"is_prev": is_prev_, "old": o_, "has_best": hb, "pref": pref, "best": bst}
                                got = booltab.evaluate(paths, acc_value_of(v))
                                if o_ == "eq":
                                    continue
                                want = is_prev_ and o_ in ("zero", "lt")
                                if got != want:
                                    bad.append("%s, %s -> %s" % ("entry is the previous relay" if is_prev_ else "entry is another relay", {"zero": "nothing recorded yet", "lt": "latency < recorded", "gt": "latency > recorded"}[o_], "overwritten" if got else "kept"))
            rep.ob("lowest-current", not bad, site(f, oldw[0]),
                   "old_relay_cur_latency is the LOWEST latency of the previous relay in this report (a relay appears once per probe kind in relay_latency.iter()): it must be overwritten exactly when the entry is the previous relay and (nothing recorded yet or the entry's latency is smaller); mismatches: %s" % sorted(set(bad)),
                   skey(F, f, "running-min-old"))
        except Unsupported as e:
            rep.ob("lowest-current", False, site(f, oldw[0]), "update of old_relay_cur_latency could not be extracted (unrecognised idiom, fails closed): %s" % e, skey(F, f, "running-min-old"))
    # best_any / candidate
    bw = [b for b, i, s in f.stmts() if s["k"] == "a" and s["lhs"] == {"l": best_any} and start is not None and b in f.reachable(start)]
    if bw and repl and start is not None:
        bsrc_ok = all(bool(src(s["rv"]["o"])) and all(y[0] == "call" and y[1] == RL + "::get" and tuple(y[2]) == ("0",) for y in src(s["rv"]["o"])) for b, i, s in f.stmts() if s["k"] == "a" and s["lhs"] == {"l": best_any} and b in bw and s["rv"]["k"] == "use")
        rep.ob("window", bsrc_ok, site(f, bw[0]), "best_any is overwritten only with best_recent.get(url) of the current entry", skey(F, f, "best-writes"))
        rep.ob("window", all(f.dominates(b, repl[0][0]) or f.dominates(repl[0][0], b) for b in bw) and all(repl[0][0] in f.reachable(b) or b in f.reachable(repl[0][0]) for b in bw), site(f, bw[0]), "best_any and the candidate url are updated together", skey(F, f, "best-with-url"))
        try:
            paths = booltab.extract(f, target=set(bw), start=start, stop={nb})
            bad = []
            for is_prev_ in (False, True):
                for o_ in ("zero", "lt", "gt"):
                    for hb in (False, True):
                        for pref in ("none", "some"):
                            for bst in ("lt", "eq", "gt"):
                                v = {"is_prev": is_prev_, "old": o_, "has_best": hb, "pref": pref, "best": bst}
                                got = booltab.evaluate(paths, acc_value_of(v))
                                if bst == "eq" and pref == "some":
                                    continue
                                want = hb and (pref == "none" or bst == "lt")
                                if got != want:
                                    bad.append("windowed latency %s, candidate %s, %s -> %s" % ("known" if hb else "unknown", pref, {"lt": "latency < best so far", "gt": "latency > best so far", "eq": "equal"}[bst], "replaces" if got else "kept"))
            rep.ob("window", not bad, site(f, bw[0]), "the candidate is a running minimum of the windowed best latency over the current report's relays (replaced exactly when none is chosen yet or the entry's windowed latency is smaller); mismatches: %s" % sorted(set(bad))[:4], skey(F, f, "running-min-best"))
        except Unsupported as e:
            rep.ob("window", False, site(f, bw[0]), "candidate update could not be extracted (unrecognised idiom, fails closed): %s" % e, skey(F, f, "running-min-best"))
    # ---- stickiness decision
    if asg and after:
        ab = asg[0][0]
        thr = []
        try:
            paths = booltab.extract(f, target={ab}, start=after[0])
            bad = []
            for prev_some in (False, True):
                for differs in (False, True):
                    for zero in (False, True):
                        for worse in (False, True):
                            def value_of(a):
                                if a.kind == "call":
                                    nm = a.name
                                    if call_matches(a.term, r"^core::option::Option::(is_some|is_none)$") and is_slot(a.args[0], prev):
                                        return prev_some == nm.endswith("is_some")
                                    if call_matches(a.term, r"^core::cmp::PartialEq::(eq|ne)$"):
                                        x0, x1 = a.args
                                        if (is_cur_pref(x0) and is_slot(x1, prev)) or (is_cur_pref(x1) and is_slot(x0, prev)):
                                            return differs == nm.endswith("::ne")
                                    if call_matches(a.term, r"Duration::is_zero$") and is_slot(a.args[0], old):
                                        return zero
                                    if call_matches(a.term, r"^core::cmp::PartialOrd::(gt|lt|ge|le)$"):
                                        op = nm.rsplit("::", 1)[-1]

                                        def two_thirds(o):
                                            l = ref_target_local(f, o)
                                            dc = def_call(f, l) if l is not None else None
                                            if dc is None or not call_matches(dc[1], r"^core::ops::arith::Mul::mul$"):
                                                return False
                                            m0, m1 = dc[1]["args"]
                                            if not (m1["k"] == "const" and str(m1.get("v")).replace("const ", "").startswith("2_")):
                                                return False
                                            dd = def_call(f, op_base(m0))
                                            if dd is None or not call_matches(dd[1], r"^core::ops::arith::Div::div$"):
                                                return False
                                            d0, d1 = dd[1]["args"]
                                            return d1["k"] == "const" and str(d1.get("v")).replace("const ", "").startswith("3_") and is_slot(d0, old)
                                        if is_slot(a.args[0], best_any) and two_thirds(a.args[1]) and op in ("gt", "le"):
                                            thr.append(a.bb)
                                            return worse == (op == "gt")
                                        if two_thirds(a.args[0]) and is_slot(a.args[1], best_any) and op in ("lt", "ge"):
                                            thr.append(a.bb)
                                            return worse == (op == "lt")
                                    raise Unsupported("test %s at bb%d" % (nm, a.bb))
                                if a.kind == "switch":
                                    l = op_local(a.args[0])
                                    for st in f.blocks[a.bb]["s"]:
                                        if st["k"] == "a" and st["lhs"]["l"] == l and st["rv"]["k"] == "discr" and st["rv"]["p"]["l"] == prev and not st["rv"]["p"].get("p"):
                                            vals = [int(z) for z, _ in f.blocks[a.bb]["t"]["targets"]]
                                            w = 1 if prev_some else 0
                                            return w if w in vals else "otherwise"
                                    raise Unsupported("branch at bb%d" % a.bb)
                                raise Unsupported("%s at bb%d" % (a.kind, a.bb))
                            got = booltab.evaluate(paths, value_of)
                            want = prev_some and differs and (not zero) and worse
                            if got != want:
                                bad.append("prev=%s differs=%s measured_now=%s new>2/3*old=%s -> %s" % (prev_some, differs, not zero, worse, "restore previous" if got else "keep candidate"))
            rep.ob("stickiness", not bad, site(f, ab), "the previous relay is restored exactly when: there is one, the candidate differs, it was measured in this report, and best_any > old_relay_cur_latency / 3 * 2; mismatches: %s" % bad[:4], skey(F, f, "decision"))
            rep.ob("stickiness", bool(thr), site(f, ab), "threshold operands: candidate's windowed best latency vs (previous relay's current latency / 3 * 2)", skey(F, f, "threshold-operands"))
        except Unsupported as e:
            rep.ob("stickiness", False, site(f, ab), "the stickiness decision could not be extracted (unrecognised idiom, fails closed): %s" % e, skey(F, f, "decision"))


def ref_target_local(f, o):
    """local behind a `&x` operand (or the operand's own local)"""
    l = op_base(o)
    if l is None:
        return None
    for b, i, st in f.stmts():
        if st["k"] == "a" and st["lhs"] == {"l": l} and st["rv"]["k"] == "ref" and not st["rv"]["p"].get("p"):
            return st["rv"]["p"]["l"]
    return l
