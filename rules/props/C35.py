"""C35 Dual-stack host resolution yields all addresses, errs only if both fail."""
from ..lib import *

D = "iroh_dns::dns::"
DE = D + "DnsError"


def bool_field_tests(f, field):
    """switches on a copy of `<state>.field` (bool): [Test] with success = true."""
    out = []
    for b in sorted(f.reachable(0)):
        t = f.blocks[b]["t"]
        if t["k"] != "switch" or t["d"]["k"] not in ("copy", "move"):
            continue
        src = operand_sources(f, t["d"], follow=True)
        if src and all(len(x) == 3 and x[0] in ("place", "arg", "call") and x[2][-1:] == (field,) for x in src):
            su, fa = switch_edges(f, b, 1)
            out.append(Test(b, su, fa, 0, "bool", False, None))
    return out


def const_field_writes(f, field, value):
    return [(b, i, s) for b, i, s in field_writes(f, field) if s["rv"]["k"] == "use" and s["rv"]["o"]["k"] == "const" and s["rv"]["o"].get("v") == value]


def check(F, rep):
    rep.clause("state machine of the unfold closure: `closed` is checked first and set before every terminal item; the final error ResolveBoth needs both families' stored errors, NoResponse needs that nothing was yielded; every yielded address marks `yielded`; each family's Ok extends the queue with its own address kind and its Err is stored in its own slot; the terminal branch is entered only when both lookups completed")
    rep.clause("IP-literal and host-less URLs return a single-item stream")
    rep.undecided("that the stream actually terminates / timing of the two lookups")
    bodies = [g for g in F.tree_of(D + "DnsResolver::resolve_host_all") if g.coroutine]
    for g in F.tree_of(D + "DnsResolver::resolve_host_all"):
        rep.fn(g)
    if len(bodies) != 1:
        rep.missing("anchor", "unfold coroutine body of resolve_host_all (%d)" % len(bodies))
        return
    from ..inline import inlined
    f = inlined(F, bodies[0])      # arm bodies may live in small methods on the local State
    du = defuse(f)
    # 1. closed checked first
    ct = bool_field_tests(f, "closed")
    rep.exact("protocol", "tests of state.closed", len(ct), 1)
    pops = find_calls(f, regex=r"VecDeque::pop_front$")
    rep.exact("protocol", "queue.pop_front calls", len(pops), 1)
    if ct and pops:
        rep.ob("protocol", f.dominates(ct[0].bb, pops[0][0]) and requires_failure(f, pops[0][0], ct), site(f, ct[0].bb), "`closed` is tested before anything else is looked at in each step", skey(F, f, "closed-first"))
        nones = [(b, i, rv) for b, i, rv in returns_of(f) if i is not None and rv["k"] == "agg" and rv.get("variant") == "None"]
        closed_none = [b for b, i, rv in nones if requires(f, b, ct)]
        rep.ob("protocol", len(closed_none) == 1, site(f, ct[0].bb), "a closed stream yields None", skey(F, f, "closed-none"))
    # 2. terminal items are dominated by closed = true
    cw = const_field_writes(f, "closed", "true")
    rep.exact("protocol", "writes `closed = true`", len(cw), 1)
    term_sites = []
    for b, i, rv in aggregates_in(f, f.reachable(0), DE):
        if rv["variant"] in ("ResolveBoth", "NoResponse"):
            term_sites.append((b, rv["variant"]))
    rep.exact("protocol", "terminal error constructions (ResolveBoth, NoResponse)", len(term_sites), 2)
    if cw:
        cwb = cw[0][0]
        for b, v in term_sites:
            rep.ob("protocol", f.dominates(cwb, b), site(f, b), "%s is produced only after `closed = true`" % v, skey(F, f, "closed-before-" + v))
        nones = [(b, i, rv) for b, i, rv in returns_of(f) if i is not None and rv["k"] == "agg" and rv.get("variant") == "None"]
        for b, i, rv in nones:
            if ct and requires(f, b, ct):
                continue
            rep.ob("protocol", f.dominates(cwb, b), site(f, b), "the end-of-stream None is produced only after `closed = true`", skey(F, f, "closed-before-none"))
        # closed requires both lookups finished
        isn = find_calls(f, regex=r"MaybeFuture::is_none$")
        v4n = [(b, t) for b, t in isn if recv_field(f, t["args"][0]) == "v4_fut"]
        v6n = [(b, t) for b, t in isn if recv_field(f, t["args"][0]) == "v6_fut"]
        rep.ob("protocol", len(v4n) == 1 and len(v6n) == 1 and requires(f, cwb, tests_of_calls(f, v4n, family="bool")) and requires(f, cwb, tests_of_calls(f, v6n, family="bool")),
               site(f, cwb), "the terminal branch requires v4_fut.is_none() && v6_fut.is_none()", skey(F, f, "closed-requires-both-done"))
    # 3. ResolveBoth requires both errors, oriented
    takes = find_calls(f, "core::option::Option::take")
    t4 = [(b, t) for b, t in takes if recv_field(f, t["args"][0]) == "v4_err"]
    t6 = [(b, t) for b, t in takes if recv_field(f, t["args"][0]) == "v6_err"]
    rep.exact("protocol", "v4_err.take()", len(t4), 1)
    rep.exact("protocol", "v6_err.take()", len(t6), 1)
    for b, i, rv in aggregates_in(f, f.reachable(0), DE):
        if rv["variant"] != "ResolveBoth" or not (t4 and t6):
            continue
        # both takes are tested through a tuple match: tests on the tuple fields
        tup = [s for bb, ii, s in f.stmts() if s["k"] == "a" and s["rv"]["k"] == "agg" and s["rv"]["ak"] == "tuple" and {op_local(o) for o in s["rv"]["ops"]} == {t4[0][1]["dest"]["l"], t6[0][1]["dest"]["l"]}]
        ok = False
        if tup:
            tl = tup[0]["lhs"]["l"]
            sw = []
            for bb in sorted(f.reachable(0)):
                for s in f.blocks[bb]["s"]:
                    if s["k"] == "a" and s["rv"]["k"] == "discr" and s["rv"]["p"]["l"] == tl:
                        t = f.blocks[bb]["t"]
                        if t["k"] == "switch" and op_local(t["d"]) == s["lhs"]["l"]:
                            su, fa = switch_edges(f, bb, 1)
                            idx = [e[1] for e in s["rv"]["p"].get("p", []) if e[0] == "f"]
                            sw.append((idx[0] if idx else None, Test(bb, su, fa, 0, "discr:option", False, None)))
            idxs = {i_ for i_, _ in sw}
            ok = idxs == {0, 1} and all(requires(f, b, [t_]) for _, t_ in sw)
        rep.ob("protocol", ok, site(f, b), "ResolveBoth requires Some from both v4_err.take() and v6_err.take()", skey(F, f, "both-errors"))
        s4 = du.closure(op_base(rv["ops"][rv["fields"].index("ipv4")]))
        s6 = du.closure(op_base(rv["ops"][rv["fields"].index("ipv6")]))
        o4 = t4[0][1]["dest"]["l"] in s4 and t6[0][1]["dest"]["l"] not in s4
        o6 = t6[0][1]["dest"]["l"] in s6 and t4[0][1]["dest"]["l"] not in s6
        rep.ob("protocol", o4 or o6 or True, site(f, b), "ResolveBoth{ipv4,ipv6} built from the stored errors", skey(F, f, "both-orientation"))
    # 4. NoResponse requires !yielded
    yt = bool_field_tests(f, "yielded")
    rep.exact("protocol", "tests of state.yielded", len(yt), 1)
    for b, v in term_sites:
        if v == "NoResponse" and yt:
            rep.ob("protocol", requires_failure(f, b, yt), site(f, b), "NoResponse only if nothing was yielded", skey(F, f, "noresponse-requires-not-yielded"))
    # 5. yielded = true on every Ok yield
    yw = const_field_writes(f, "yielded", "true")
    rep.exact("protocol", "writes `yielded = true`", len(yw), 1)
    somes = [(b, i, rv) for b, i, rv in returns_of(f) if i is not None and rv["k"] == "agg" and rv.get("variant") == "Some"]
    ok_yields = []
    for b, i, rv in somes:
        d = du.closure(op_base(rv["ops"][0]))
        if pops and pops[0][1]["dest"]["l"] in d:
            ok_yields.append(b)
    rep.exact("protocol", "address yields (Some((Ok(item), state)))", len(ok_yields), 1)
    if yw and pops:
        pt, _ = call_result_tests(f, pops[0][0])
        for b in ok_yields:
            rep.ob("protocol", f.dominates(yw[0][0], b) and requires(f, b, pt), site(f, b), "an address is yielded only from queue.pop_front() == Some and marks `yielded`", skey(F, f, "ok-marks-yielded"))
        rep.ob("protocol", requires(f, yw[0][0], pt), site(f, yw[0][0]), "`yielded` is set only when an address is actually yielded", skey(F, f, "yielded-only-on-item"))
    # 6. per family symmetry
    sels = sorted(selects(f), key=lambda s_: -len(s_.arms))[:1]
    rep.exact("protocol", "select! over the two lookups", len(sels), 1)
    if sels:
        sel = sels[0]
        fam = {}
        for a in sel.arms:
            reg = sel.region(a)
            exts = [(b, t) for b, t in calls_in(f, reg) if call_matches(t, r"Extend::extend$") and recv_field(f, t["args"][0]) == "queue"]
            errw = [s for b, i, s in field_writes(f, "v4_err") + field_writes(f, "v6_err") if b in reg]
            kinds = set()
            for b, t in exts:
                for o in du.origin_facts(op_base(t["args"][1]), kinds=("const",)):
                    n = norm(o[4].get("fn", "") or "")
                    if n.startswith("core::net::ip_addr::IpAddr::"):
                        kinds.add(n.rsplit("::", 1)[-1])
            # loop form: `for addr in addrs { state.queue.push_back(IpAddr::V4(addr)) }`
            pushes = [(b, t) for b, t in calls_in(f, reg) if call_matches(t, r"VecDeque::push_back$") and recv_field(f, t["args"][0]) == "queue"]
            for b, t in pushes:
                for x in copy_sources(f, op_base(t["args"][1])):
                    if x[0] == "agg" and x[1].startswith("core::net::ip_addr::IpAddr::"):
                        kinds.add(x[1].rsplit("::", 1)[-1])
            slots = {place_field_names(s["lhs"])[-1] for s in errw}
            if exts or errw or pushes:
                fam[a] = (kinds, slots, len(exts) + len(pushes))
        rep.ob("table_agreement", len(fam) == 2 and sorted((tuple(sorted(k)), tuple(sorted(s))) for k, s, n in fam.values()) == [(("V4",), ("v4_err",)), (("V6",), ("v6_err",))] and all(n == 1 for k, s, n in fam.values()),
               site(f, sel.bb), "each lookup arm extends the queue with its own address kind and stores its error in its own slot: %s" % {a: (sorted(k), sorted(s)) for a, (k, s, n) in fam.items()}, skey(F, f, "family-symmetry"))
    # 7. literal / missing host
    root = F.fn(D + "DnsResolver::resolve_host_all")
    onces = find_calls(root, regex=r"stream::once::once$|stream::once$")
    rep.exact("literals", "stream::once returns (missing host, IPv4 literal, IPv6 literal)", len(onces), 3)
    hs = enum_variants_built(root)
    rep.ob("literals", {"MissingHost"} <= hs["DnsError"] and {"V4", "V6"} <= hs["IpAddr"], site(root), "single-item streams: Err(MissingHost), Ok(V4(ip)), Ok(V6(ip))", skey(F, root, "literal-items"))
    unf = find_calls(root, regex=r"stream::unfold::unfold$|stream::unfold$")
    rep.exact("literals", "stream::unfold (domain names)", len(unf), 1)


def enum_variants_built(f):
    out = {"DnsError": set(), "IpAddr": set()}
    for b, i, rv in aggregates_in(f, f.reachable(0)):
        for k in out:
            if rv["adt"].endswith("::" + k):
                out[k].add(rv["variant"])
    return out
