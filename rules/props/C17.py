"""C17 Relay receive path never wedges (progress and wake-up discipline)."""
from ..lib import *
from ..analysis import reachable_fs

RT = "iroh::socket::transports::relay::RelayTransport"
DG = "iroh_relay::protos::relay::Datagrams"


def check(F, rep):
    rep.clause("progress: the number of segments requested from Datagrams::take_segments for the stored pending item is proven >= 1 (a zero count takes nothing, leaves the item pending and the receive loop would hand out empty datagrams forever)")
    rep.clause("pending-item discipline: the stored item is cleared exactly when nothing deliverable remains; poll_recv_queue serves the stored item before polling the channel and returns Pending only when the channel's poll_recv did (waker registered)")
    rep.clause("wake-up: every way out of the receive loop other than the channel's Pending or iterator exhaustion either returns or re-arms the task's waker, so an undeliverable datagram that was dropped cannot leave the task parked without a wake-up")
    rep.undecided("exactly-once / in-order delivery of the bytes (values)")
    f = get_fn(F, rep, RT + "::poll_recv")
    du = defuse(f)
    ts_calls = find_calls(f, DG + "::take_segments")
    rep.exact("progress", "take_segments calls in poll_recv", len(ts_calls), 1)
    if not ts_calls:
        return
    tb, tt = ts_calls[0]
    ok, why = nonzero_guard(f, tb, tt["args"][1])
    # describe the count
    mo = [x for x in du.origin_calls(op_base(tt["args"][1])) if is_call_to(x[1], "core::option::Option::map_or")]
    descr = ""
    if mo:
        cl = [g for g in F.tree(f) if g is not f]
        divs = [(g, b) for g in cl for b, i, s in divisions(g)]
        descr = " (count = segment_size.map_or(%s, |ss| ..%d division(s)..): the quotient buf_len / segment_size is 0 whenever the sender's segment size exceeds the receive buffer)" % (mo[0][1]["args"][1].get("v"), len(divs))
    rep.ob("progress", ok, site(f, tb), "segment count passed to take_segments is >= 1: %s%s" % (why, descr), skey(F, f, "take_segments-count-nonzero"))
    # (b) pending item
    clears = [(b, i, s) for b, i, s in field_writes(f, "pending_item") if s["rv"]["k"] == "use" and operand_sources(f, s["rv"]["o"], follow=True) == {("agg", "core::option::Option::None")}]
    rep.floor("pending", "writes `pending_item = None`", len(clears), 1)
    ie = [(b, t) for b, t in find_calls(f, "bytes::bytes::Bytes::is_empty") if any(fld == "contents" for _, fld in du.field_reads(op_base(t["args"][0])))]
    rep.exact("pending", "contents.is_empty() after the take", len(ie), 1)
    zero_tests = []
    for cb, s, ts in cmp_tests(f, ops=("Eq", "Ne", "Gt", "Lt")):
        for o in (s["rv"]["a"], s["rv"]["b"]):
            if o["k"] != "const" and operand_sources(f, o, follow=True) == operand_sources(f, tt["args"][1], follow=True):
                zero_tests.extend(ts)
    if ie:
        it, _ = call_result_tests(f, ie[0][0], family="bool")
        rep.ob("pending", f.dominates(tb, ie[0][0]), site(f, ie[0][0]), "emptiness is checked after the take", skey(F, f, "is_empty-after-take"))
        for b, i, s in clears:
            ok = requires(f, b, it) or (bool(zero_tests) and (requires(f, b, zero_tests) or requires_failure(f, b, zero_tests)))
            rep.ob("pending", ok, site(f, b), "the stored item is cleared only when it is empty after the take (or undeliverable)", skey(F, f, "clear-requires-empty"))
        # converse: empty => cleared before the next iteration
        nx = find_calls(f, "core::iter::traits::iterator::Iterator::next")
        true_targets = [tg for t in it for _, tg in t.success]
        cb_ = {b for b, i, s in clears}
        byp = any(nx and nx[0][0] in f.reachable(tg, removed_blocks=cb_) for tg in true_targets)
        rep.ob("pending", bool(true_targets) and not byp, site(f, ie[0][0]), "an emptied item is always cleared before the loop continues", skey(F, f, "empty-always-cleared"))
    # (c) poll_recv_queue
    q = get_fn(F, rep, RT + "::poll_recv_queue")
    pr = find_calls(q, regex=r"mpsc::bounded::Receiver::poll_recv$")
    st, isome = presence_tests(q, "pending_item")
    rep.exact("queue", "channel polls in poll_recv_queue", len(pr), 1)
    rep.floor("queue", "tests of pending_item being stored", len(isome), 1)
    if pr and isome:
        rep.ob("queue", requires_failure(q, pr[0][0], st), site(q, pr[0][0]), "the channel is polled only when no item is stored (stored item is served first)", skey(F, q, "stored-first"))
        pt, _ = call_result_tests(q, pr[0][0], family="poll")
        for b, i, rv in returns_of(q):
            if i is not None and rv["k"] == "agg" and rv.get("variant") == "Pending":
                rep.ob("queue", requires_failure(q, b, [t for t in pt if t.level == 0]), site(q, b), "Pending is returned only when the channel returned Pending (its waker is registered)", skey(F, q, "pending-from-channel"))
        ins = [(b, "insert") for b, t in find_calls(q, "core::option::Option::insert") if recv_field(q, t["args"][0]) == "pending_item"]
        qdu = defuse(q)
        for b, i, s_ in field_writes(q, "pending_item"):
            vl = op_base(s_["rv"]["o"]) if s_["rv"]["k"] == "use" else None
            src = copy_sources(q, vl) if vl is not None else ({("agg", "Some")} if s_["rv"]["k"] == "agg" and s_["rv"].get("variant") == "Some" else set())
            if any(x[0] == "agg" and x[1].endswith("Some") for x in src) and (pr[0][1]["dest"]["l"] in qdu.closure(vl) if vl is not None else any(op_base(o) is not None and pr[0][1]["dest"]["l"] in qdu.closure(op_base(o)) for o in s_["rv"].get("ops", []))):
                ins.append((b, "assign"))
        rep.ob("queue", len(ins) == 1 and requires(q, ins[0][0], pt, levels=[0, 1]), site(q), "a received item is stored as the pending item (%s)" % [k for _, k in ins], skey(F, q, "store-received"))
    # (d) loop exits
    nx = find_calls(f, "core::iter::traits::iterator::Iterator::next")
    rep.exact("wake", "for-loop iterator next() in poll_recv", len(nx), 1)
    pq = find_calls(f, RT + "::poll_recv_queue")
    rep.exact("wake", "poll_recv_queue calls", len(pq), 1)
    if nx and pq:
        nb = nx[0][0]
        loop = {b for b in f.reachable(nb) if nb in f.reachable_after(b)} | {nb}
        qt, _ = call_result_tests(f, pq[0][0], family="poll")
        pending_edges = {e for t in qt if t.level == 0 for e in t.failure}
        wakes = {b for b, t in f.calls() if call_matches(t, r"^core::task::wake::Waker::(wake_by_ref|wake)$")}
        nt, _ = call_result_tests(f, nb)
        exhaust_edges = {e for t in nt for e in t.failure}
        pend_ret = [b for b, i, rv in returns_of(f) if i is not None and rv["k"] == "agg" and rv.get("variant") == "Pending"]
        rep.exact("wake", "Poll::Pending returns of poll_recv", len(pend_ret), 1)
        exits = []
        for b in sorted(loop):
            for s in f.succs()[b]:
                if s not in loop and (b, s) not in exhaust_edges and pend_ret and pend_ret[0] in f.reachable(s):
                    exits.append((b, s))
        rep.floor("wake", "ways out of the receive loop that can end in Poll::Pending (besides iterator exhaustion)", len(exits), 1)
        # blocks reachable within one iteration without taking the channel's Pending edge and
        # without passing a waker re-arm
        starts = [x for x in f.succs()[nb]]
        uncovered = f.reachable(starts, removed_edges=pending_edges, removed_blocks=wakes | {nb})
        for b, s in exits:
            rearmed_after = pend_ret[0] not in f.reachable(s, removed_blocks=wakes)
            covered = (b, s) in pending_edges or b not in uncovered or rearmed_after
            how = "follows the channel's Pending (waker registered)" if ((b, s) in pending_edges or b not in f.reachable(starts, removed_edges=pending_edges, removed_blocks={nb})) else "re-arms the waker before it can return Pending"
            rep.ob("wake", covered, site(f, b),
                   "leaving the receive loop here %s" % (how if covered else "drops an undeliverable datagram and can end in Poll::Pending although neither the channel registered the waker nor the task re-armed it (lost wake-up: queued datagrams stay unread until something else polls)"),
                   skey(F, f, "loop-exit-after:%s" % _exit_label(f, b)))


def _tail_blocks(f, loop, exhaust_edges):
    out = set()
    for (b, s) in exhaust_edges:
        out |= f.reachable(s)
    return out


def _exit_label(f, b):
    # a position-free label: the callee names of the last calls dominating the exit inside the loop
    names = []
    for cb, t in f.calls():
        if f.dominates(cb, b) and not f.is_tracing(cb):
            n = callee_names(t)[0].rsplit("::", 1)[-1]
            names.append(n)
    return names[-1] if names else "entry"
