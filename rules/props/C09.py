"""C09 Relay per-client receive rate stays within the configured bucket (gating shape)."""
from ..lib import *

ST = "iroh_relay::server::streams::"
BUCKET = ST + "Bucket"
PR = "<iroh_relay::server::streams::RateLimited as tokio::io::async_read::AsyncRead>::poll_read"
INNER_READ = "tokio::io::async_read::AsyncRead::poll_read"


def check(F, rep):
    rep.clause("with a bucket configured, the inner stream is polled only when no refill sleep is pending or the pending sleep was polled Ready")
    rep.clause("every successful inner read is charged to the bucket with the measured byte count before Ready(Ok) is returned; an over-draft stores a sleep_until(deadline) that the next poll waits on; a live limit change replaces the bucket and clears the pending sleep together")
    rep.clause("Bucket's divisors are non-zero by a constructor-established invariant (refill > 0, refill_period.as_millis() as u32 > 0; sole constructor, fields never written afterwards)")
    rep.undecided("the numeric bound bytes <= burst + refill + chunk; time of resumption; overflow for extreme public-constructor parameters")

    fs = [g for g in F.fns_named(PR)]
    if len(fs) != 1:
        rep.missing("anchor", PR)
        return
    f = rep.fn(fs[0])
    du = defuse(f)
    cons = find_calls(f, BUCKET + "::consume")
    rep.exact("gating", "Bucket::consume calls in poll_read", len(cons), 1)
    reads = calls_on_field_via_pin(f, "inner")
    rep.exact("gating", "inner.poll_read calls", len(reads), 2)
    if not cons or len(reads) != 2:
        return
    cb, ct = cons[0]
    limited = [(b, t) for b, t in reads if cb in f.reachable(b)]
    unlimited = [(b, t) for b, t in reads if cb not in f.reachable(b)]
    rep.exact("gating", "inner reads on the limited path", len(limited), 1)
    rb, rt = limited[0]
    # bucket test
    bt = field_tests(f, "bucket")
    rep.exact("gating", "tests of this.bucket", len(bt), 1)
    rep.ob("gating", requires(f, rb, bt), site(f, rb), "the charged read happens only with a bucket configured (Some)", skey(F, f, "limited-requires-bucket"))
    for b, t in unlimited:
        rep.ob("gating", requires_failure(f, b, bt), site(f, b), "the uncharged direct read happens only without a bucket (None)", skey(F, f, "direct-requires-none"))
    # pending sleep
    st = field_tests(f, "bucket_refilled")
    rep.exact("gating", "tests of this.bucket_refilled", len(st), 1)
    polls = [(b, t) for b, t in find_calls(f, regex=r"(FutureExt|Future)::poll$") if any(fld == "bucket_refilled" for _, fld in du.field_reads(op_base(t["args"][0])))]
    rep.exact("gating", "polls of the pending refill sleep", len(polls), 1)
    if st and polls:
        pt, _ = value_tests(f, [polls[0][1]["dest"]["l"]], family="poll")
        ready_edges = {e for t in pt for e in t.success}
        some_targets = [tg for t in st for _, tg in t.success]
        leak = any(rb in f.reachable(tg, removed_edges=ready_edges) for tg in some_targets)
        rep.ob("gating", bool(ready_edges) and not leak, site(f, rb), "with a sleep pending (Some) the inner read is reachable only through the sleep's Ready edge", skey(F, f, "read-after-ready"))
        rep.ob("gating", requires(f, polls[0][0], st), site(f, polls[0][0]), "the sleep is polled only when one is pending", skey(F, f, "poll-requires-some"))
        # Pending return right at the not-ready edge (waker registered by the sleep's poll)
        pend = [b for b, i, rv in returns_of(f) if i is not None and rv["k"] == "agg" and rv.get("variant") == "Pending"]
        rep.floor("gating", "Poll::Pending returns", len(pend), 2)
    # charging
    rets_ok = [b for b, i, rv in returns_of(f) if i is not None and rv["k"] == "agg" and rv.get("variant") == "Ready" and b in f.reachable(rb)]
    rep.floor("charging", "Ready returns after the limited read", len(rets_ok), 1)
    for b in rets_ok:
        rep.ob("charging", b not in f.reachable(rb, removed_blocks={cb}) , site(f, b), "no Ready(..) return after the limited read bypasses Bucket::consume", skey(F, f, "consume-before-ready"))
    rtests, _ = value_tests(f, [rt["dest"]["l"]], family="poll")
    rep.ob("charging", requires(f, cb, rtests, levels=[0]), site(f, cb), "consume only after the read completed (Ready)", skey(F, f, "consume-after-ready"))
    # measured byte count
    amt = op_base(ct["args"][1])
    subs = [o for o in du.origin_facts(amt, kinds=("bin",)) if o[4]["op"] in ("Sub", "SubWithOverflow")]
    ok = False
    if len(subs) == 1:
        a, b2 = subs[0][4]["a"], subs[0][4]["b"]
        ca = def_call(f, op_base(a)) if op_base(a) is not None else None
        cb2 = def_call(f, op_base(b2)) if op_base(b2) is not None else None
        ok = ca is not None and cb2 is not None and is_call_to(ca[1], "tokio::io::read_buf::ReadBuf::remaining") and is_call_to(cb2[1], "tokio::io::read_buf::ReadBuf::remaining") \
            and f.dominates(ca[0], rb) and f.dominates(rb, cb2[0]) and ca[0] != cb2[0]
    rep.ob("charging", ok, site(f, cb), "charged amount = remaining() before the read minus remaining() after it", skey(F, f, "measured-amount"))
    recv = ref_source_place(f, op_base(ct["args"][0]))
    rep.ob("charging", recv is not None and "bucket" in place_field_names(resolve_place(f, recv)) or any(fld == "bucket" for _, fld in du.field_reads(op_base(ct["args"][0]))), site(f, cb), "the bucket charged is this.bucket", skey(F, f, "own-bucket"))
    # over-draft stores the sleep
    ctests, _ = call_result_tests(f, cb)
    ws = [(b, i, s) for b, i, s in field_writes(f, "bucket_refilled")]
    stores = []
    for b, i, s in ws:
        src = copy_sources(f, op_base(s["rv"]["o"])) if s["rv"]["k"] == "use" and s["rv"]["o"]["k"] in ("copy", "move") else set()
        if any(x[0] == "agg" and x[1].endswith("Option::Some") for x in src):
            stores.append((b, i, s))
    rep.exact("overdraft", "stores of Some(sleep) into bucket_refilled", len(stores), 1)
    for b, i, s in stores:
        vl = op_base(s["rv"]["o"])
        sl = [x for x in du.origin_calls(vl) if call_matches(x[1], r"::sleep_until$")]
        ok = requires_failure(f, b, ctests) and len(sl) == 1 and ct["dest"]["l"] in du.closure(op_base(sl[0][1]["args"][0]))
        rep.ob("overdraft", ok, site(f, b), "on consume's Err(deadline) edge a sleep_until(deadline) is stored (next poll waits on it)", skey(F, f, "store-sleep"))
    # every path on which consume fails stores the sleep before returning
    if stores:
        fail_targets = [tg for t in ctests for _, tg in t.failure]
        byp = [r for r in rets_ok if any(r in f.reachable(tg, removed_blocks={stores[0][0]}) for tg in fail_targets)]
        rep.ob("overdraft", not byp, site(f, cb), "no return from the Err edge bypasses the store", skey(F, f, "err-always-stores"))
    # live update: wherever RateLimited.bucket is re-assigned (poll_read itself or a helper)
    RLT = ST + "RateLimited"
    bws = [x for x in field_accesses(F, RLT, "bucket", crates=["iroh_relay"]) if x[3] == "write"]
    rep.floor("live-update", "assignments to RateLimited.bucket", len(bws), 1)
    for g, b, i, kind, s in bws:
        rep.fn(g)
        fc = find_calls(g, BUCKET + "::from_config")
        ok = False
        src = set()
        if len(fc) == 1:
            fts, _ = call_result_tests(g, fc[0][0])
            src = copy_sources(g, op_base(s["rv"]["o"])) if s["rv"]["k"] == "use" and s["rv"]["o"]["k"] in ("copy", "move") else set()
            ok = requires(g, b, fts) and bool(src) and all(x[0] == "call" and x[1] == BUCKET + "::from_config" for x in src)
        rep.ob("live-update", ok, site(g, b),
               "the installed bucket is replaced only by a successfully validated configuration (an invalid live update keeps the current limit); sources %s" % sorted(map(str, src)), skey(F, g, "update-requires-valid"))
        gclears = []
        for cb_, ci, cs in field_writes(g, "bucket_refilled"):
            csrc = copy_sources(g, op_base(cs["rv"]["o"])) if cs["rv"]["k"] == "use" and cs["rv"]["o"]["k"] in ("copy", "move") else ({("agg", "None")} if cs["rv"]["k"] == "agg" and cs["rv"].get("variant") == "None" else set())
            if not any(x[0] == "agg" and x[1].endswith("Some") for x in csrc):
                gclears.append(cb_)
        ok = any((g.dominates(b, cb_) and g.postdominates(cb_, b)) or (g.dominates(cb_, b) and g.postdominates(b, cb_)) for cb_ in gclears)
        rep.ob("live-update", ok, site(g, b), "replacing the bucket clears the pending sleep on the same path", skey(F, g, "update-clears"))

    # ---- Bucket invariants
    sites = [x for x in ctor_sites(F, BUCKET) if not x[0].derived]
    rep.exact("nonzero", "Bucket construction sites", len(sites), 1)
    new = get_fn(F, rep, BUCKET + "::new")
    for g, b, i, rv in sites:
        rep.ob("nonzero", g is new, site(g, b), "Bucket constructed in %s" % g.npath, skey(F, g, "bucket-ctor"))
        if g is not new:
            continue
        refill_l = op_base(rv["ops"][rv["fields"].index("refill")])
        period_l = op_base(rv["ops"][rv["fields"].index("refill_period")])
        ndu = defuse(new)

        def is_zero(o):
            return o["k"] == "const" and str(o.get("v", "")).lstrip("const ").split("_")[0] == "0"

        gts = cmp_tests(new, ops=("Gt",), pred=lambda r: is_zero(r["b"]))
        ok_refill = ok_period = False
        for cb_, s, ts in gts:
            a = op_base(s["rv"]["a"])
            if a is None:
                continue
            if copy_sources(new, a) == copy_sources(new, refill_l) and requires(new, b, ts):
                ok_refill = True
            srcs = ndu.origin_calls(a)
            if any(is_call_to(x[1], "core::time::Duration::as_millis") for x in srcs) and s["rv"]["a"] and "u32" in new.locals[a] and requires(new, b, ts):
                per = [x for x in srcs if is_call_to(x[1], "core::time::Duration::as_millis")]
                if arg_ref_target(new, per[0][1]["args"][0]) in copy_source_locals(new, period_l):
                    ok_period = True
        rep.ob("nonzero", ok_refill, site(new, b), "construction requires `refill > 0` for the stored refill", skey(F, new, "inv-refill"))
        rep.ob("nonzero", ok_period, site(new, b), "construction requires `refill_period.as_millis() as u32 > 0` for the stored period", skey(F, new, "inv-period"))
    for fld in ("refill", "refill_period"):
        w = [x for x in field_accesses(F, BUCKET, fld, crates=["iroh_relay"]) if x[3] in ("write", "refmut")]
        rep.ob("nonzero", not w, BUCKET, "Bucket.%s never written after construction (%d writes)" % (fld, len(w)), "bucket|frozen-" + fld)
    # divisions
    ndiv = 0
    for name in ("update_state", "consume"):
        g = get_fn(F, rep, BUCKET + "::" + name)
        gdu = defuse(g)
        for b, i, s in g.stmts():
            if s["k"] == "a" and s["rv"]["k"] == "bin" and s["rv"]["op"] in ("Div", "Rem"):
                ndiv += 1
                dv = s["rv"]["b"]
                ok = False
                why = "?"
                if dv["k"] == "const":
                    ok = not str(dv.get("v", "0")).startswith("0")
                    why = "constant"
                else:
                    l = op_base(dv)
                    fr = gdu.field_reads(l)
                    src = copy_sources(g, l)
                    if src == {("arg", 1, ("refill",))}:
                        ok, why = True, "self.refill"
                    elif (BUCKET, "refill_period") in fr and any(is_call_to(x[1], "core::time::Duration::as_millis") for x in gdu.origin_calls(l)) and "u32" in g.locals[l] and len(gdu.closure(l) & {1}) == 1:
                        # only casts/as_millis of self.refill_period
                        ok, why = True, "self.refill_period.as_millis() as u32"
                rep.ob("nonzero", ok, site(g, b), "divisor is %s (non-zero by the constructor invariant)" % why, skey(F, g, "div-%d" % ndiv))
    rep.floor("nonzero", "divisions in update_state/consume", ndiv, 2)


def copy_source_locals(f, l):
    """Locals on the copy chain of l (including l)."""
    out = {l}
    for x in copy_sources(f, l):
        if x[0] in ("place", "arg"):
            out.add(x[1])
    return out


def calls_on_field_via_pin(f, field):
    """inner.poll_read calls: AsyncRead::poll_read whose receiver is Pin::new(&mut this.<field>)."""
    out = []
    du = defuse(f)
    for b, t in find_calls(f, INNER_READ):
        l = op_base(t["args"][0])
        if l is not None and any(fld == field for _, fld in du.field_reads(l)):
            out.append((b, t))
    return out
