"""C27 Net report aggregation is order-consistent (table agreement + monotone / write-once idioms)."""
from ..lib import *

R = "iroh::net_report::report::"
RL = R + "RelayLatencies"
REP = R + "Report"
PROBE = "iroh::net_report::probes::Probe"
WANT = {"Https": "https", "QadIpv4": "ipv4", "QadIpv6": "ipv6"}


def check(F, rep):
    rep.clause("Probe kind <-> latency map table: update_relay selects the map by probe kind (Https->https, QadIpv4->ipv4, QadIpv6->ipv6); merge / iter pair every map with its own kind; is_empty and get consult all three maps")
    rep.clause("monotone-min: the only store into an existing latency entry is guarded by `new < old` on those two values (so merging is insensitive to order)")
    rep.clause("write-once in Report::update: global_v4/v6 are assigned only when still None; mapping_varies gets Some(true) only when a later address differs, Some(false) only when it agrees and nothing was recorded yet; a wrong-family address returns before any of these writes; each QAD kind updates its own family's fields")
    rep.undecided("commutativity / min over whole report histories as values")
    ur = get_fn(F, rep, RL + "::update_relay")
    sw = enum_switches(F, ur, PROBE)
    rep.exact("table_agreement", "switch on Probe in update_relay", len(sw), 1)
    if sw:
        sb, pl, arms, other = sw[0]
        got = {}
        for v, tb in arms.items():
            reg = arm_region(ur, sb, tb)
            flds = set()
            for b in reg:
                for s in ur.blocks[b]["s"]:
                    if s["k"] == "a" and s["rv"]["k"] == "ref":
                        flds |= {e[2] for e in s["rv"]["p"].get("p", []) if e[0] == "f" and e[3] == RL}
            got[v] = flds
        rep.ob("table_agreement", got == {k: {v} for k, v in WANT.items()}, site(ur, sb), "update_relay: probe kind -> map: %s" % {k: sorted(v) for k, v in got.items()}, RL + "::update_relay|table")
        # monotone min
        du = defuse(ur)
        ent = find_calls(ur, regex=r"Entry::or_insert$")
        rep.exact("monotone", "entry(url).or_insert(latency) / get_mut(url)", len(ent) + len(find_calls(ur, regex=r"BTreeMap::get_mut$")), 1)
        ENTRY = r"(entry::Entry::or_insert|BTreeMap::get_mut)$"
        gm = find_calls(ur, regex=r"BTreeMap::get_mut$")
        is_entry_ref = lambda l: bool(copy_sources(ur, l)) and all(x[0] == "call" and re.search(ENTRY, x[1]) for x in copy_sources(ur, l))
        stores = [(b, i, s) for b, i, s in ur.stmts() if s["k"] == "a" and s["lhs"].get("p") and s["lhs"]["p"][0][0] == "deref" and (ent or gm) and is_entry_ref(s["lhs"]["l"])]
        if gm and not ent:
            # get_mut idiom: the absent case must insert the new latency
            ins = find_calls(ur, regex=r"BTreeMap::insert$")
            gts_, _ = call_result_tests(ur, gm[0][0])
            okins = len(ins) == 1 and copy_sources(ur, op_base(ins[0][1]["args"][2])) == {("arg", 3, ())} and requires_failure(ur, ins[0][0], gts_)
            rep.ob("monotone", okins, site(ur, gm[0][0]), "an unknown relay gets the new latency inserted (get_mut idiom: insert on the None edge)", RL + "::update_relay|insert-absent")
            ent = gm
        am = find_calls(ur, regex=r"Entry::and_modify$")
        if not stores and am:
            # idiom 2: entry(url).and_modify(|old| *old = (*old).min(latency)).or_insert(latency)
            ok = len(am) == 1 and len(ent) == 1
            why = "and_modify/or_insert chain"
            if ok:
                cl = str(ur.locals[op_base(am[0][1]["args"][1])])
                m = re.search(r"closure@[^:]+:(\d+):(\d+)", cl)
                gs = [c for c in F.tree(ur) if c is not ur and c.kind == "Closure" and m and c.line == int(m.group(1))]
                caps = [st["rv"] for b, i, st in ur.stmts() if st["k"] == "a" and st["lhs"]["l"] == op_base(am[0][1]["args"][1]) and st["rv"]["k"] == "agg"]
                cap_ok = bool(caps) and all(len(rv["ops"]) == 1 and copy_sources(ur, op_base(rv["ops"][0])) == {("arg", 3, ())} for rv in caps)
                body_ok = False
                for g in gs:
                    rep.fn(g)
                    st_ = [(b, i, x) for b, i, x in g.stmts() if x["k"] == "a" and x["lhs"].get("p") and x["lhs"]["p"][0][0] == "deref" and copy_sources(g, x["lhs"]["l"]) == {("arg", 2, ())}]
                    mins = [(b, t) for b, t in g.calls() if call_matches(t, r"^core::cmp::(Ord::min|min)$")]
                    if len(st_) == 1 and len(mins) == 1:
                        a0 = copy_sources(g, op_base(mins[0][1]["args"][0]))
                        a1 = copy_sources(g, op_base(mins[0][1]["args"][1]))
                        olds, news = {("arg", 2, ())}, {("arg", 1, ("latency",))}
                        val = copy_sources(g, op_base(st_[0][2]["rv"]["o"])) if st_[0][2]["rv"]["k"] == "use" else set()
                        body_ok = ((a0 == olds and a1 == news) or (a0 == news and a1 == olds)) and bool(val) and all(x[0] == "call" and re.search(r"core::cmp::(Ord::min|min)$", x[1]) for x in val)
                ins_ok = copy_sources(ur, op_base(ent[0][1]["args"][1])) == {("arg", 3, ())}
                chain_ok = am[0][1]["dest"]["l"] in du.closure(op_base(ent[0][1]["args"][0]))
                ok = cap_ok and body_ok and ins_ok and chain_ok
                why = "closure captures the new latency: %s; stores min(*old, latency) into *old: %s; or_insert(latency): %s" % (cap_ok, body_ok, ins_ok)
            rep.ob("monotone", ok, site(ur, am[0][0]), "an existing latency is replaced by min(old, new) (and_modify idiom): %s" % why, RL + "::update_relay|min-guard")
        else:
            rep.exact("monotone", "stores into the existing entry", len(stores), 1)
        lts = [(b, t) for b, t in find_calls(ur, "core::cmp::PartialOrd::lt", "core::cmp::PartialOrd::gt", "core::cmp::PartialOrd::le", "core::cmp::PartialOrd::ge")]
        for b, i, s in stores:
            ok = False
            for cb, ct in lts:
                n = callee_names(ct)[0].rsplit("::", 1)[-1]
                a0 = copy_sources(ur, op_base(ct["args"][0]))
                a1 = copy_sources(ur, op_base(ct["args"][1]))
                new_first = a0 == {("arg", 3, ())} and all(x[0] == "call" and re.search(ENTRY, x[1]) for x in a1) and bool(a1)
                old_first = a1 == {("arg", 3, ())} and all(x[0] == "call" and re.search(ENTRY, x[1]) for x in a0) and bool(a0)
                ts, _ = call_result_tests(ur, cb, family="bool")
                if ((new_first and n == "lt") or (old_first and n == "gt")) and requires(ur, b, ts):
                    ok = True
            val = operand_sources(ur, s["rv"]["o"], follow=True) if s["rv"]["k"] == "use" else set()
            rep.ob("monotone", ok and val == {("arg", 3, ())}, site(ur, b), "an existing latency is overwritten only under `latency < *old` and with that new latency", RL + "::update_relay|min-guard")
    # merge / iter pair maps with their kinds
    mg = get_fn(F, rep, RL + "::merge")
    mdu = defuse(mg)
    pairs = {}
    for b, t in find_calls(mg, RL + "::update_relay"):
        kinds = {x[1].rsplit("::", 1)[-1] for x in operand_sources(mg, t["args"][3], follow=True) if x[0] == "agg"}
        fr = {fld for owner, fld in mdu.field_reads(op_base(t["args"][1])) if owner == RL}
        for k in kinds:
            pairs[k] = fr
    # alternative idiom: `for (probe, url, latency) in other.iter() { self.update_relay(url, latency, probe) }`
    # - every record keeps the kind that RelayLatencies::iter labelled it with (iter's own table is decided below)
    urs = find_calls(mg, RL + "::update_relay")
    via_iter = bool(urs) and not pairs and all(
        all(mdu.derives_from_call(op_base(t["args"][k]), RL + "::iter") for k in (1, 2, 3) if op_base(t["args"][k]) is not None)
        and all(x[0] == "call" and x[1].endswith("Iterator::next") for x in copy_sources(mg, op_base(t["args"][3])))
        for b, t in urs) and all(copy_sources(mg, op_base(t["args"][0])) == {("arg", 2, ())} or arg_ref_target(mg, t["args"][0]) == 2 for b, t in find_calls(mg, RL + "::iter"))
    # any other helper that is handed one map of self and one map of other: name the pairing in the report
    direct = {}
    for b, t in mg.calls():
        if t["k"] == "call" and not call_matches(t, re.escape(RL) + r"::(update_relay|iter)$") and len(t["args"]) >= 2:
            flds = [[e[2] for e in (ref_source_place(mg, op_base(a)) or {}).get("p", []) if e[0] == "f"] if op_base(a) is not None else [] for a in t["args"][:2]]
            if all(len(x) == 1 and x[0] in WANT.values() for x in flds):
                direct[flds[0][0]] = flds[1][0]
    mism = {k: v for k, v in direct.items() if k != v}
    rep.ob("table_agreement", via_iter or pairs == {k: {v} for k, v in WANT.items()}, site(mg), "merge: each map of `other` is merged with its own probe kind: %s" % ("every record of other.iter() is merged with the kind iter() labelled it with" if via_iter else ({k: sorted(v) for k, v in pairs.items()} if pairs or not direct else "maps handed to a helper as (self.%s) <- (other.%s)%s; merging without update_relay is not a recognised idiom (fails closed)" % ("/".join(sorted(direct)), "/".join(direct[k] for k in sorted(direct)), " - MISMATCHED: %s" % mism if mism else ""))), RL + "::merge|table")
    its = F.fns_named(RL + "::iter")
    if len(its) == 1:
        it = rep.fn(its[0])
        ipairs = {}
        for g in F.tree(it):
            if g is it:
                continue
            ks = {rv["variant"] for b, i, rv in aggregates_in(g, g.reachable(0), PROBE)}
            # which map feeds this closure: the map(..) call in `it` taking this closure
            for b, i, s in it.stmts():
                if s["k"] == "a" and s["rv"]["k"] == "agg" and s["rv"]["ak"] == "closure" and s["rv"]["def"] == g.path:
                    for cb, ct in it.calls():
                        if len(ct["args"]) >= 2 and op_local(ct["args"][1]) == s["lhs"]["l"]:
                            fr = {fld for owner, fld in defuse(it).field_reads(op_base(ct["args"][0])) if owner == RL}
                            for k in ks:
                                ipairs[k] = fr
        rep.ob("table_agreement", ipairs == {k: {v} for k, v in WANT.items()}, site(it), "iter: each map is labelled with its own probe kind: %s" % {k: sorted(v) for k, v in ipairs.items()}, RL + "::iter|table")
    else:
        rep.missing("table_agreement", RL + "::iter")
    for name in ("is_empty", "get"):
        g = get_fn(F, rep, RL + "::" + name)
        flds = {recv_field(g, t["args"][0]) for b, t in g.calls() if call_matches(t, r"BTreeMap::(is_empty|get)$")}
        if name == "get" and not flds - {None}:
            # table-array idiom: the maps are collected by reference and queried in a closure
            flds = {e[2] for b, i, s_ in g.stmts() if s_["k"] == "a" and s_["rv"]["k"] == "ref" and resolve_place(g, s_["rv"]["p"])["l"] == 1 for e in resolve_place(g, s_["rv"]["p"]).get("p", []) if e[0] == "f" and e[3] == RL}
            if not any(call_matches(t, r"BTreeMap::get$") for h in F.tree(g) for b, t in h.calls()):
                flds = set()
        rep.ob("table_agreement", flds == set(WANT.values()), site(g), "%s consults all three maps: %s" % (name, sorted(x or "?" for x in flds)), RL + "::%s|all-maps" % name)
    gt = get_fn(F, rep, RL + "::get")
    rep.ob("monotone", any(call_matches(t, r"Iterator::min$") for b, t in gt.calls()), site(gt), "get() returns the minimum over the maps", RL + "::get|min")
    # ---- Report::update
    up = get_fn(F, rep, REP + "::update")
    sw = enum_switches(F, up, "iroh::net_report::reportgen::ProbeReport")
    rep.exact("write-once", "switch on ProbeReport", len(sw), 1)
    if not sw:
        return
    sb, pl, arms, other = sw[0]
    fam = {"QadIpv4": ("v4", "V4"), "QadIpv6": ("v6", "V6")}
    for v, (sfx, sav) in fam.items():
        if v not in arms:
            rep.missing("write-once", "arm " + v)
            continue
        reg = arm_region(up, sb, arms[v])
        gl, mv, udp = "global_" + sfx, "mapping_varies_by_dest_ip" + sfx, "udp_" + sfx
        writes = {}
        for b, i, s in up.stmts():
            if b in reg and s["k"] == "a":
                names = place_field_names(s["lhs"])
                if names and names[0] in (gl, mv, udp, "global_v4", "global_v6", "mapping_varies_by_dest_ipv4", "mapping_varies_by_dest_ipv6", "udp_v4", "udp_v6") and s["lhs"]["l"] == 1 or (names and names[-1] in (gl, mv, udp) and len(names) == 1):
                    writes.setdefault(names[0], []).append((b, i, s))
        rep.ob("table_agreement", set(writes) == {gl, mv, udp}, site(up, arms[v]), "%s reports touch exactly their own family's fields: %s" % (v, sorted(writes)), REP + "::update|fields:" + v)
        # kind passed to update_relay
        urc = [(b, t) for b, t in calls_in(up, reg) if is_call_to(t, RL + "::update_relay")]
        kinds = {x[1].rsplit("::", 1)[-1] for b, t in urc for x in operand_sources(up, t["args"][3], follow=True) if x[0] == "agg"}
        rep.ob("table_agreement", kinds == {v}, site(up, arms[v]), "latency recorded under Probe::%s (got %s)" % (v, sorted(kinds)), REP + "::update|probe:" + v)
        # wrong family returns before the writes: writes require the address discriminant test
        fam_t = []
        for b in sorted(reg):
            t = up.blocks[b]["t"]
            if t["k"] == "switch":
                for s in up.blocks[b]["s"]:
                    if s["k"] == "a" and s["rv"]["k"] == "discr" and op_local(t["d"]) == s["lhs"]["l"] and (place_ty(F, up, s["rv"]["p"]) or "").endswith("SocketAddr"):
                        su, fa = switch_edges(up, b, 0 if sav == "V4" else 1)
                        fam_t.append(Test(b, su, fa, 0, "discr:enum", False, None))
        allw = [w for ws in writes.values() for w in ws]
        rep.ob("write-once", bool(fam_t) and all(requires(up, b, fam_t) for b, i, s in allw), site(up, arms[v]), "a wrong-family address returns before udp/global/mapping fields are touched", REP + "::update|family-guard:" + v)
        # global: assigned only when None
        gt_ = [t for t in field_tests(up, gl) if t.bb in reg]
        rep.ob("write-once", len(gt_) == 1, site(up, arms[v]), "one test of self.%s" % gl, REP + "::update|global-test:" + v)
        if gt_:
            for b, i, s in writes.get(gl, []):
                rep.ob("write-once", requires_failure(up, b, gt_), site(up, b), "%s is assigned only while it is still None (first observation wins)" % gl, REP + "::update|global-write-once:" + v)
            eqs = [(b, t) for b, t in calls_in(up, reg) if is_call_to(t, "core::cmp::PartialEq::eq", "core::cmp::PartialEq::ne")]
            et = []
            for b, t in eqs:
                ts, _ = call_result_tests(up, b, family="bool")
                if is_call_to(t, "core::cmp::PartialEq::ne"):
                    for x in ts:
                        x.success, x.failure = x.failure, x.success
                et += ts
            mt = [t for t in [*tests_of_calls(up, [(b, t) for b, t in calls_in(up, reg) if is_call_to(t, "core::option::Option::is_none") and recv_field(up, t["args"][0]) == mv], family="bool")]]
            for b, i, s in writes.get(mv, []):
                val = agg_shape(up, s["rv"], 2) if s["rv"]["k"] == "agg" else agg_shape(up, {"k": "use", "o": s["rv"]["o"]}, 2)
                if "true" in val:
                    ok = bool(et) and requires_failure(up, b, et) and requires(up, b, gt_)
                    rep.ob("write-once", ok, site(up, b), "%s = Some(true) only when a recorded address exists and the new one differs" % mv, REP + "::update|varies-true:" + v)
                elif "false" in val:
                    ok = bool(et) and requires(up, b, et) and requires(up, b, gt_) and bool(mt) and requires(up, b, mt)
                    rep.ob("write-once", ok, site(up, b), "%s = Some(false) only when the address agrees and nothing was recorded yet (never downgrades true)" % mv, REP + "::update|varies-false:" + v)
                else:
                    rep.ob("write-once", False, site(up, b), "unexpected value written to %s: %s" % (mv, val), REP + "::update|varies-other:" + v)
