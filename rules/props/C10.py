"""C10 Relay frames encode and decode exactly (table agreement), limits agree."""
import re as _re
from ..lib import *

P = "iroh_relay::protos::"
R2C = P + "relay::RelayToClientMsg"
C2R = P + "relay::ClientToRelayMsg"
DG = P + "relay::Datagrams"
FT = P + "common::FrameType"
MAXP = P + "relay::MAX_PACKET_SIZE"
MAXF = P + "relay::MAX_FRAME_SIZE"
PV = "iroh_relay::http::ProtocolVersion"


def int_const(op):
    if op["k"] != "const":
        return None
    v = str(op.get("v", ""))
    m = _re.match(r"^(?:const )?(-?\d+)_", v)
    return int(m.group(1)) if m else None


def typ_relation(F, rep, enum):
    """message variant -> set of FrameType variants returned by typ()."""
    f = get_fn(F, rep, enum + "::typ")
    sw = enum_switches(F, f, enum)
    rel = {}
    if len(sw) != 1:
        rep.missing("table_agreement", "%s::typ: switch on self" % enum)
        return rel
    b, pl, arms, other = sw[0]
    for vs, region in arm_regions(f, b, arms).items():
        fts = {rv["variant"] for _, _, rv in aggregates_in(f, region | {arms[next(iter(vs))]}, FT)}
        for v in vs:
            rel[v] = fts
    return rel


def decode_relation(F, rep, enum):
    """FrameType variant -> set of message variants constructed in that arm of from_bytes."""
    f = get_fn(F, rep, enum + "::from_bytes")
    sw = enum_switches(F, f, FT)
    rel = {}
    if len(sw) != 1:
        rep.missing("table_agreement", "%s::from_bytes: switch on frame type (%d found)" % (enum, len(sw)))
        return rel, f, None
    b, pl, arms, other = sw[0]
    regions = arm_regions(f, b, arms)
    for vs, region in regions.items():
        ms = {rv["variant"] for _, _, rv in aggregates_in(f, region, enum)}
        for v in vs:
            rel[v] = ms
    # the fall-through arm must not construct a message
    oth = arm_region(f, b, other)
    rel["_"] = {rv["variant"] for _, _, rv in aggregates_in(f, oth, enum)}
    return rel, f, (b, arms, regions)


def size_of_type(F, ty):
    if ty is None:
        return None
    ty = ty.lstrip("&")
    m = _re.match(r"^\[u8; (\d+)(?:_usize)?\]$", ty)
    if m:
        return int(m.group(1))
    if ty == "iroh_base::key::PublicKey":
        v = const_value(F, "iroh_base::key::PublicKey::LENGTH")
        m = _re.match(r"^(?:const )?(\d+)_", v)
        return int(m.group(1)) if m else None
    return None


def variant_field_of(f, local, self_arg=1):
    """The variant field of `self` a reference/copy chain ends in: ('Variant', 'field')."""
    srcs = copy_sources(f, local, transparent=("core::ops::index::Index::index",))
    out = set()
    for x in srcs:
        if x[0] == "arg" and x[1] == self_arg and x[2]:
            out.add(x[2])
        else:
            out.add(("?",) + tuple(map(str, x)))
    return out


def write_terms(F, f, region):
    """Static size contribution of the writes in an arm of write_to: (const bytes, [terms])."""
    total, terms = 0, []
    for b, t in calls_in(f, region):
        names = callee_names(t)
        n0 = names[0]
        m = _re.match(r"^bytes::buf::buf_mut::BufMut::put_(u|i)(8|16|32|64|128)$", n0)
        if m:
            total += int(m.group(2)) // 8
        elif n0 == "bytes::buf::buf_mut::BufMut::put" or n0 == "bytes::buf::buf_mut::BufMut::put_slice":
            src = t["args"][1]
            pl = ref_source_place(f, op_base(src))
            # resolve through as_ref/index to the field of self
            flds = variant_field_of(f, op_base(src))
            sz = None
            if len(flds) == 1:
                fl = next(iter(flds))
                # find the declared type of that field
                owner_pl = None
                for bb, i, s in f.stmts():
                    if bb not in region:
                        continue
                    if s["k"] == "a" and s["rv"]["k"] == "ref":
                        pr = s["rv"]["p"].get("p", [])
                        if pr and pr[-1][0] == "f" and pr[-1][2] == fl[-1]:
                            owner_pl = s["rv"]["p"]
                sz = size_of_type(F, place_ty(F, f, owner_pl)) if owner_pl else None
                if sz is None:
                    terms.append("len(%s)" % ".".join(fl))
            if sz is not None:
                total += sz
            elif len(flds) != 1:
                terms.append("put(?)")
        elif n0.endswith("::write_to") and n0.startswith("iroh_relay::"):
            terms.append(n0.rsplit("::", 2)[-2])
    return total, sorted(terms)


def len_terms(F, f, region, payload_local):
    """Symbolic value of `payload_local` as assigned inside an arm of encoded_len."""
    total, terms = 0, []

    def ev(op):
        nonlocal total
        c = int_const(op)
        if c is not None:
            total += c
            return
        l = op_base(op)
        if l is None:
            terms.append("?")
            return
        ev_local(l)

    seen = set()

    def ev_local(l):
        nonlocal total
        if l in seen:
            return
        seen.add(l)
        found = False
        for b in sorted(region):
            for s in f.blocks[b]["s"]:
                if s["k"] == "a" and s["lhs"]["l"] == l and not s["lhs"].get("p"):
                    found = True
                    rv = s["rv"]
                    if rv["k"] == "use":
                        if rv["o"]["k"] == "const":
                            ev(rv["o"])
                        else:
                            ev_local(rv["o"]["p"]["l"])
                    elif rv["k"] == "bin" and rv["op"] in ("Add", "AddWithOverflow"):
                        ev(rv["a"]); ev(rv["b"])
                    else:
                        terms.append("?" + rv["k"])
            t = f.blocks[b]["t"]
            if t["k"] == "call" and t["dest"]["l"] == l:
                found = True
                n0 = callee_names(t)[0]
                if n0.endswith("::encoded_len") and n0.startswith("iroh_relay::"):
                    terms.append(n0.rsplit("::", 2)[-2])
                elif n0 in ("alloc::string::String::len", "bytes::bytes::Bytes::len", "core::str::len", "alloc::vec::Vec::len"):
                    fl = variant_field_of(f, op_base(t["args"][0]))
                    terms.append("len(%s)" % ".".join(next(iter(fl))) if len(fl) == 1 else "len(?)")
                else:
                    terms.append("?call:" + n0)
        if not found:
            terms.append("?undef")

    ev_local(payload_local)
    return total, sorted(terms)


def check(F, rep):
    rep.clause("per message enum, the variant<->FrameType relation of typ() equals the inverse of the decoder's arm->constructed-variant relation, and the decoder's fall-through constructs nothing")
    rep.clause("per variant, the bytes written by write_to and the length computed by encoded_len are the same symbolic sum (constants + per-field terms)")
    rep.clause("batch <=> segment size present, consistently in typ/write_to/encoded_len/from_bytes")
    rep.clause("Health only under V1, Status only from V2 on; all four size checks bound the same quantity class by the same const MAX_PACKET_SIZE (senders: encoded_len() incl. tag, decoders: length after the tag) so sender-accepted is a subset of receiver-accepted; both websocket limits use MAX_FRAME_SIZE; FrameType tags are distinct single-byte varints")
    rep.undecided("byte-exact round trip and panic-freedom of the decoders (fuzzed by the existing proptests)")

    # ---- typ <-> from_bytes
    for enum in (R2C, C2R):
        tr = typ_relation(F, rep, enum)
        dr, df, info = decode_relation(F, rep, enum)
        adt = F.adt(enum)
        vnames = [v["name"] for v in adt["variants"]]
        rep.ob("table_agreement", set(tr) == set(vnames), enum + "::typ", "typ() has an arm for every variant: %s" % sorted(set(vnames) - set(tr)), enum + "|typ-total")
        for v in vnames:
            for ft in sorted(tr.get(v, ())):
                ok = dr.get(ft) == {v}
                rep.ob("table_agreement", ok, "%s::%s <-> FrameType::%s" % (enum.rsplit("::", 1)[-1], v, ft),
                       "typ() maps %s to %s; the decoder's %s arm constructs %s" % (v, ft, ft, sorted(dr.get(ft, ()))), "%s|%s|%s" % (enum, v, ft))
            rep.ob("table_agreement", bool(tr.get(v)), enum + "::" + v, "typ() assigns at least one frame type", "%s|%s|typed" % (enum, v))
        for ft, ms in dr.items():
            if ft == "_":
                rep.ob("table_agreement", not ms, enum + "::from_bytes", "fall-through arm constructs no message (got %s)" % sorted(ms), enum + "|fallthrough")
                continue
            for m in ms:
                rep.ob("table_agreement", ft in tr.get(m, ()), "%s decoder arm %s" % (enum.rsplit("::", 1)[-1], ft), "decoder arm %s builds %s, typ(%s) = %s" % (ft, m, m, sorted(tr.get(m, ()))), "%s|dec|%s|%s" % (enum, ft, m))

    # ---- write_to vs encoded_len
    for enum in (R2C, C2R):
        w = get_fn(F, rep, enum + "::write_to")
        e = get_fn(F, rep, enum + "::encoded_len")
        sw_w = enum_switches(F, w, enum)
        sw_e = enum_switches(F, e, enum)
        if len(sw_w) != 1 or len(sw_e) != 1:
            rep.missing("size_agreement", "%s write_to/encoded_len switch on self" % enum)
            continue
        wb, _, warms, _ = sw_w[0]
        eb, _, earms, _ = sw_e[0]
        # payload local of encoded_len: the local added to typ().encoded_len() at the end
        payload = None
        arm_blocks = set().union(*[arm_region(e, eb, tb) for tb in set(earms.values())])
        edu = defuse(e)
        for b, i, s in e.stmts():
            if s["k"] == "a" and s["rv"]["k"] == "bin" and s["rv"]["op"] in ("Add", "AddWithOverflow") and e.dominates(eb, b) and b not in arm_blocks:
                for o in (s["rv"]["a"], s["rv"]["b"]):
                    l = op_base(o)
                    if l is None or edu.derives_from_call(l, regex=r"FrameType::encoded_len$"):
                        continue
                    # follow single-definition copies back to the local assigned in the arms
                    for _ in range(6):
                        ds = [st for bb, ii, st in e.stmts() if st["k"] == "a" and st["lhs"]["l"] == l and not st["lhs"].get("p")]
                        cs = [t for bb, t in e.calls() if t["k"] == "call" and t["dest"]["l"] == l]
                        if len(ds) == 1 and not cs and ds[0]["rv"]["k"] == "use" and op_local(ds[0]["rv"]["o"]) is not None:
                            l = op_local(ds[0]["rv"]["o"])
                        else:
                            break
                    payload = l
        if payload is None:
            rep.missing("size_agreement", "%s::encoded_len payload local" % enum)
            continue
        wreg = arm_regions(w, wb, warms)
        ereg = arm_regions(e, eb, earms)
        for v in warms:
            wr = next(r for vs, r in wreg.items() if v in vs)
            er = next((r for vs, r in ereg.items() if v in vs), None)
            if er is None:
                rep.ob("size_agreement", False, enum + "::" + v, "encoded_len has no arm for the variant", "%s|size|%s" % (enum, v))
                continue
            wt = write_terms(F, w, wr)
            et = len_terms(F, e, er, payload)
            rep.ob("size_agreement", wt == et and not any("?" in t for t in wt[1] + et[1]), "%s::%s" % (enum.rsplit("::", 1)[-1], v),
                   "write_to writes %s, encoded_len computes %s" % (wt, et), "%s|size|%s" % (enum, v))
    # Datagrams / Status / FrameType sub-encoders
    dw = get_fn(F, rep, DG + "::write_to")
    de = get_fn(F, rep, DG + "::encoded_len")
    dfb = get_fn(F, rep, DG + "::from_bytes")
    # write_to: put_u16 iff segment_size is Some
    t_w = field_tests(dw, "segment_size")
    p16 = find_calls(dw, regex=r"BufMut::put_u16$")
    p8 = find_calls(dw, regex=r"BufMut::put_u8$")
    rep.ob("batch", len(t_w) == 1 and len(p16) == 1 and requires(dw, p16[0][0], t_w) and len(p8) == 1 and dw.dominates(p8[0][0], p16[0][0]),
           site(dw), "Datagrams::write_to: one ECN byte, then a u16 segment size iff segment_size is Some", DG + "|write-seg")
    puts = find_calls(dw, "bytes::buf::buf_mut::BufMut::put")
    ok = len(puts) == 1 and ("contents",) in {x[2][-1:] for x in copy_sources(dw, op_base(puts[0][1]["args"][1])) if x[0] == "arg"} and dw.postdominates(puts[0][0], 0)
    rep.ob("batch", ok, site(dw), "Datagrams::write_to ends with the contents", DG + "|write-contents")
    # encoded_len as an affine value per path: 1 + (2 iff segment_size Some) + contents.len()
    from .. import booltab

    def sym(t):
        if call_matches(t, r"^bytes::bytes::Bytes::len$") and {x[2][-1:] for x in copy_sources(de, op_base(t["args"][0])) if x[0] == "arg" and x[1] == 1} == {("contents",)}:
            return "contents.len"
        return None

    def const_closure(o):
        l = op_base(o)
        if l is None:
            return None
        m = re.search(r"closure@[^:]+:(\d+):(\d+)", str(de.locals[l]))
        for g in F.tree(de):
            if g is not de and m and g.line == int(m.group(1)):
                vals = {int_const(rv["o"]) for b_, i_, rv in returns_of(g) if i_ is not None and rv["k"] == "use"}
                if len(vals) == 1 and None not in vals and not list(g.calls()):
                    return next(iter(vals))
        return None

    def seg_atom(a, some):
        """value of a test of self.segment_size"""
        if a.kind == "call" and a.name in ("Option::is_some", "core::option::Option::is_some", "core::option::Option::is_none"):
            x = copy_sources(de, op_base(a.args[0]))
            if x and all(y[0] == "arg" and y[1] == 1 and y[2][-1:] == ("segment_size",) for y in x):
                return some != a.name.endswith("is_none")
        if a.kind == "switch":
            l = op_local(a.args[0])
            for st in de.blocks[a.bb]["s"]:
                if st["k"] == "a" and st["lhs"]["l"] == l and st["rv"]["k"] == "discr":
                    names = [e[2] for e in resolve_place(de, st["rv"]["p"]).get("p", []) if e[0] == "f"]
                    if names[-1:] == ["segment_size"]:
                        vals = [int(z) for z, _ in de.blocks[a.bb]["t"]["targets"]]
                        w = 1 if some else 0
                        return w if w in vals else "otherwise"
        raise booltab.Unsupported("test at bb%d is not on self.segment_size" % a.bb)
    ok = False
    why = ""
    try:
        lp = booltab.extract_lin(de, sym, const_closure)
        got = {some: booltab.evaluate_lin(lp, lambda a, some=some: seg_atom(a, some)) for some in (False, True)}
        ok = got[False] == {1: 1, "contents.len": 1} and got[True] == {1: 3, "contents.len": 1}
        why = "without segment size %s, with %s" % (got[False], got[True])
    except booltab.Unsupported as e:
        why = "not extractable (fails closed): %s" % e
    rep.ob("batch", ok, site(de), "Datagrams::encoded_len = 1 + (2 iff segment_size Some) + contents.len(): %s" % why, DG + "|len")
    # from_bytes: reads u16 iff is_batch
    g16 = find_calls(dfb, regex=r"Buf::get_u16$")
    g8 = find_calls(dfb, regex=r"Buf::get_u8$")
    sw = [b for b in sorted(dfb.reachable(0)) if dfb.blocks[b]["t"]["k"] == "switch" and op_local(dfb.blocks[b]["t"]["d"]) is not None and copy_sources(dfb, op_local(dfb.blocks[b]["t"]["d"])) == {("arg", 2, ())}]
    okb = False
    if len(g16) == 1 and sw:
        tests = []
        for b in sw:
            su, fa = switch_edges(dfb, b, 1)
            tests.append(Test(b, su, fa, 0, "bool", False, None))
        okb = any(requires(dfb, g16[0][0], [t]) for t in tests) and len(g8) == 1 and dfb.dominates(g8[0][0], g16[0][0])
    rep.ob("batch", okb, site(dfb), "Datagrams::from_bytes: ECN byte first, u16 segment size read iff is_batch", DG + "|read-seg")
    decoder_totality(F, rep, dfb)
    for enum in (R2C, C2R):
        f = get_fn(F, rep, enum + "::from_bytes")
        c = find_calls(f, DG + "::from_bytes")
        ok = False
        if len(c) == 1:
            du = defuse(f)
            a = op_base(c[0][1]["args"][1])
            eqs = [x for x in du.origin_calls(a) if is_call_to(x[1], "core::cmp::PartialEq::eq")]
            if len(eqs) == 1:
                consts = set()
                for arg in eqs[0][1]["args"]:
                    for o in du.origin_facts(op_base(arg), kinds=("agg",)):
                        consts.add(o[4]["variant"])
                    for o in du.origin_facts(op_base(arg), kinds=("const",)):
                        consts.add(str(o[4].get("v") or o[4].get("def")))
                ok = any(str(x).endswith("DatagramBatch") or "DatagramBatch" in str(x) for x in consts)
        rep.ob("batch", ok, site(f), "is_batch passed to Datagrams::from_bytes is `frame_type == ..DatagramBatch`", enum + "|is_batch")
        t = get_fn(F, rep, enum + "::typ")
        ts = find_calls(t, "core::option::Option::is_some")
        ok = False
        if len(ts) == 1:
            tt, _ = call_result_tests(t, ts[0][0], family="bool")
            batch = [b for b, i, rv in aggregates_in(t, t.reachable(0), FT) if rv["variant"].endswith("DatagramBatch")]
            single = [b for b, i, rv in aggregates_in(t, t.reachable(0), FT) if rv["variant"].endswith("Datagram")]
            recv = resolve_place(t, ref_source_place(t, op_base(ts[0][1]["args"][0])) or {})
            ok = len(batch) == 1 and len(single) == 1 and requires(t, batch[0], tt) and requires_failure(t, single[0], tt) and place_field_names(recv)[-1:] == ["segment_size"]
        rep.ob("batch", ok, site(t), "typ(): the Batch frame type iff datagrams.segment_size.is_some()", enum + "|typ-batch")

    # ---- version gating
    f = get_fn(F, rep, R2C + "::from_bytes")
    pv = F.adt(PV)
    for variant, op, ver in (("Health", "eq", "V1"), ("Status", "ge", "V2")):
        sites = [(b, i, rv) for b, i, rv in aggregates_in(f, f.reachable(0), R2C) if rv["variant"] == variant]
        rep.exact("version", "constructions of RelayToClientMsg::%s in from_bytes" % variant, len(sites), 1)
        for b, i, rv in sites:
            ok = False
            for cb, ct in find_calls(f, "core::cmp::PartialEq::eq" if op == "eq" else "core::cmp::PartialOrd::ge"):
                s0 = copy_sources(f, op_base(ct["args"][0]))
                s1 = copy_sources(f, op_base(ct["args"][1]))
                if s0 == {("arg", 3, ())} and s1 == {("agg", PV + "::" + ver)}:
                    tt, _ = call_result_tests(f, cb, family="bool")
                    if requires(f, b, tt):
                        ok = True
            rep.ob("version", ok, site(f, b), "%s is decoded only if protocol_version %s %s" % (variant, "==" if op == "eq" else ">=", ver), R2C + "|version|" + variant)
    order = [v["name"] for v in pv["variants"]]
    rep.ob("version", order.index("V1") < order.index("V2"), PV, "ProtocolVersion declaration order V1 < V2 (derived PartialOrd)", PV + "|order")

    # ---- limits
    senders = [("<iroh_relay::client::conn::Conn as futures_sink::Sink>::start_send", C2R),
               ("<iroh_relay::server::streams::RelayedStream as futures_sink::Sink>::start_send", R2C)]
    for npath, enum in senders:
        fs = F.fns_named(npath)
        if len(fs) != 1:
            rep.missing("limits", npath)
            continue
        g = rep.fn(fs[0])
        ok, why = size_check(F, g, "encoded_len", enum + "::encoded_len")
        rep.ob("limits", ok, site(g), "sender bounds item.encoded_len() (tag + payload) by MAX_PACKET_SIZE before forwarding to the inner sink: %s" % why, npath + "|limit")
    for enum in (R2C, C2R):
        g = get_fn(F, rep, enum + "::from_bytes")
        ok, why = size_check(F, g, "len_after_tag", None)
        rep.ob("limits", ok, site(g), "decoder bounds content.len() after the type tag by MAX_PACKET_SIZE: %s" % why, enum + "|limit")
    # websocket limits
    users = call_sites(F, regex=r"tokio_websockets::.*Limits::max_payload_len$", crates=["iroh_relay"])
    rep.floor("limits", "websocket max_payload_len settings", len(users), 2)
    for g, b, t, kind in users:
        rep.fn(g)
        du = defuse(g)
        cs = {o[4].get("def") for o in du.origin_facts(op_base(t["args"][1]), kinds=("const",)) if o[4].get("def")}
        rep.ob("limits", cs == {MAXF}, site(g, b), "websocket payload limit is MAX_FRAME_SIZE (got %s)" % sorted(cs), skey(F, g, "ws-limit"))
    try:
        mp = int(_re.match(r"^(?:const )?(\d+)_", F.const(MAXP)["val"]).group(1))
        mf = int(_re.match(r"^(?:const )?(\d+)_", F.const(MAXF)["val"]).group(1))
        rep.ob("limits", mf >= mp + 1 + 32 + 3, MAXF, "MAX_FRAME_SIZE (%d) leaves room for every frame the packet limit (%d) admits" % (mf, mp), "limits|frame>=packet")
    except Exception as e:
        rep.missing("limits", "MAX_PACKET_SIZE / MAX_FRAME_SIZE const values (%s)" % e)
    # FrameType tags
    ft = F.adt(FT)
    ds = [int(v["discr"]) for v in ft["variants"]]
    rep.ob("tags", len(set(ds)) == len(ds) and all(0 <= d < 64 for d in ds), FT, "FrameType discriminants pairwise distinct and < 2^6 (single-byte varint): %s" % ds, FT + "|tags")


def size_check(F, g, kind, len_fn):
    """A comparison `X <= MAX_PACKET_SIZE` (or `>`), X of the requested kind, that guards the
    success continuation."""
    du = defuse(g)
    found = []
    for b, s, ts in cmp_tests(g, ops=("Le", "Lt", "Gt", "Ge")):
        a, bop = s["rv"]["a"], s["rv"]["b"]
        sides = []
        for o in (a, bop):
            if o["k"] == "const":
                sides.append(("const", o.get("def")))
            else:
                l = op_base(o)
                cs = {x[4].get("def") for x in du.origin_facts(l, kinds=("const",)) if x[4].get("def")}
                if MAXP in cs and len(du.origin_calls(l)) == 0:
                    sides.append(("const", MAXP))
                else:
                    sides.append(("val", l))
        consts = [x for x in sides if x[0] == "const" and x[1] == MAXP]
        vals = [x for x in sides if x[0] == "val"]
        if len(consts) != 1 or len(vals) != 1:
            continue
        l = vals[0][1]
        calls = du.origin_calls(l)
        if kind == "encoded_len":
            if any(is_call_to(t, len_fn) for _, t in calls) and copy_sources(g, l) == {("call", len_fn, ())}:
                found.append((b, s, ts))
        else:
            # Bytes::len of the content *after* FrameType::from_bytes consumed the tag
            lens = [(cb, t) for cb, t in calls if is_call_to(t, "bytes::bytes::Bytes::len")]
            tag = find_calls(g, FT + "::from_bytes")
            if len(lens) == 1 and len(tag) == 1 and g.dominates(tag[0][0], lens[0][0]) and copy_sources(g, l) == {("call", "bytes::bytes::Bytes::len", ())}:
                if arg_ref_target(g, lens[0][1]["args"][0]) == arg_ref_target(g, tag[0][1]["args"][0]):
                    found.append((b, s, ts))
    if len(found) != 1:
        return False, "%d matching comparisons against MAX_PACKET_SIZE" % len(found)
    b, s, ts = found[0]
    op = s["rv"]["op"]
    val_first = s["rv"]["a"]["k"] != "const" and not (op_base(s["rv"]["a"]) is not None and MAXP in {x[4].get("def") for x in du.origin_facts(op_base(s["rv"]["a"]), kinds=("const",))} and not du.origin_calls(op_base(s["rv"]["a"])))
    # orientation: size <= MAX  (or MAX >= size); reject `<` / wrong direction
    good = (op == "Le" and val_first) or (op == "Ge" and not val_first)
    if not good:
        return False, "comparison is `%s` with value %s: not `size <= MAX_PACKET_SIZE`" % (op, "first" if val_first else "second")
    # all Ok returns / inner start_send require the true edge
    sinks = [cb for cb, t in g.calls() if call_matches(t, r"futures_sink::Sink::start_send$")] or [bb for bb, i, rv in returns_of(g) if i is not None and rv["k"] == "agg" and rv.get("variant") == "Ok"]
    if not sinks:
        return False, "no success continuation found"
    if not all(requires(g, sb, ts) for sb in sinks):
        return False, "success continuation not guarded by the size check"
    return True, "ok"


def decoder_totality(F, rep, f):
    """Datagrams::from_bytes never reads past the end: `get_u8` needs 1 byte, the batch's
    `get_u16` 2 more.  For every (is_batch, len) with len in 0..=4 the blocks reachable are
    computed with the `is_batch` branches and every `bytes.len() <op> <number>` test resolved
    (the number may be a constant or a small expression of constants and is_batch); the reads
    must be unreachable whenever the buffer is too short - whatever idiom performs the check."""
    from ..analysis import reachable_fs
    OPS = {"Eq": lambda a, b: a == b, "Ne": lambda a, b: a != b, "Lt": lambda a, b: a < b,
           "Le": lambda a, b: a <= b, "Gt": lambda a, b: a > b, "Ge": lambda a, b: a >= b}
    g8 = find_calls(f, regex=r"Buf::get_u8$")
    g16 = find_calls(f, regex=r"Buf::get_u16$")
    rep.exact("totality", "get_u8 / get_u16 reads in Datagrams::from_bytes", (len(g8), len(g16)), (1, 1))
    if not (g8 and g16):
        return

    def is_len(o):
        l = op_base(o)
        dc = def_call(f, l) if l is not None else None
        if dc is None or not call_matches(dc[1], r"Bytes::len$"):
            return False
        # the length is taken before anything was consumed
        return not any(dc[0] in f.reachable(b) for b, t in g8 + g16) and arg_ref_target(f, dc[1]["args"][0]) == 1

    def batch_edges(is_batch):
        rem = set()
        for b in sorted(f.reachable(0)):
            t = f.blocks[b]["t"]
            if t["k"] == "switch" and t["d"]["k"] in ("copy", "move") and not t["d"]["p"].get("p"):
                x = copy_sources(f, t["d"]["p"]["l"])
                if x == {("arg", 2, ())}:
                    explicit = {int(v): tb for v, tb in t["targets"]}
                    hit = explicit.get(1 if is_batch else 0, t["otherwise"])
                    for tb in list(explicit.values()) + [t["otherwise"]]:
                        if tb != hit:
                            rem.add((b, tb))
        return rem

    def num(o, is_batch, base_reach, depth=0):
        if depth > 8:
            return None
        c = const_int(F, o)
        if c is not None:
            return c
        if o["k"] == "const":
            return None
        pl = o["p"]
        l = pl["l"]
        if copy_sources(f, l) == {("arg", 2, ())} and not pl.get("p"):
            return 1 if is_batch else 0
        vals = set()
        for b, i, st in f.stmts():
            if st["k"] != "a" or st["lhs"] != {"l": l} or b not in base_reach:
                continue
            rv = st["rv"]
            if rv["k"] in ("use", "cast"):
                src = rv["o"]
                if pl.get("p") and src["k"] in ("copy", "move"):
                    return None
                vals.add(num(src, is_batch, base_reach, depth + 1))
            elif rv["k"] == "bin" and rv["op"] in ("Add", "AddWithOverflow", "AddUnchecked"):
                x, y = num(rv["a"], is_batch, base_reach, depth + 1), num(rv["b"], is_batch, base_reach, depth + 1)
                vals.add(None if x is None or y is None else x + y)
            else:
                vals.add(None)
        for b, t in f.calls():
            if t["dest"] == {"l": l} and b in base_reach:
                if call_matches(t, r"convert::(From::from|Into::into)$") and len(t["args"]) == 1:
                    vals.add(num(t["args"][0], is_batch, base_reach, depth + 1))
                else:
                    vals.add(None)
        if pl.get("p") and [e[0] for e in pl["p"]] == ["f"] and pl["p"][0][1] == 0:
            pass            # `(x, overflow).0` of a checked add: same number
        return next(iter(vals)) if len(vals) == 1 else None
    bad, ntests = [], 0
    for is_batch in (False, True):
        rem0 = batch_edges(is_batch)
        base_reach = reachable_fs(f, 0, removed_edges=rem0)
        for length in range(0, 5):
            rem = set(rem0)
            for cb, st, ts in cmp_tests(f):
                a, b_ = st["rv"]["a"], st["rv"]["b"]
                if is_len(a):
                    v = num(b_, is_batch, base_reach)
                    truth = None if v is None else OPS[st["rv"]["op"]](length, v)
                elif is_len(b_):
                    v = num(a, is_batch, base_reach)
                    truth = None if v is None else OPS[st["rv"]["op"]](v, length)
                else:
                    continue
                if truth is None:
                    continue
                ntests += 1
                for t in ts:
                    rem.update(t.failure if truth else t.success)
            reach = reachable_fs(f, 0, removed_edges=rem)
            if length < 1 and g8[0][0] in reach:
                bad.append("is_batch=%s len=%d: get_u8 reachable" % (is_batch, length))
            if is_batch and length < 3 and g16[0][0] in reach:
                bad.append("is_batch=true len=%d: get_u16 reachable (panics: only %d byte(s) left after the ECN byte)" % (length, max(length - 1, 0)))
            if is_batch and length >= 3 and g16[0][0] not in reach:
                bad.append("is_batch=true len=%d: get_u16 not reachable" % length)
    rep.ob("totality", not bad and ntests > 0, site(f, g16[0][0]), "Datagrams::from_bytes never reads past the end of the frame for any (is_batch, length 0..=4) - decoding stays total (no panic on short input); %d length tests evaluated; problems: %s" % (ntests, bad[:3]), DG + "|no-short-read")
