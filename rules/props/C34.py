"""C34 Staggered DNS lookups never panic and return the first success."""
from ..lib import *

D = "iroh_dns::dns::"


def check(F, rep):
    rep.clause("no division/remainder in the stagger path has a divisor that can be zero (jitter computation)")
    rep.clause("stagger_call returns Ok with the first successful call's value, returns Err only after the set of calls is exhausted, and that Err carries the vector every failed call was pushed to")
    rep.undecided("the +/-20% jitter bounds and timing of the staggered starts")
    # ---- (a) partial arithmetic
    j = get_fn(F, rep, D + "add_jitter")
    ds = divisions(j)
    rep.floor("nonzero", "Div/Rem statements in add_jitter", len(ds), 2)
    for n, (b, i, s) in enumerate(ds):
        ok, why = nonzero_guard(j, b, s["rv"]["b"])
        rep.ob("nonzero", ok, site(j, b), "%s by %s: %s%s" % (s["rv"]["op"], "divisor", why,
               "" if ok else " -- max_jitter = delay*40/100 is 0 for delay 1 and 2 ms => `rand % 0` panics (delays come from the public lookup_*_staggered API)"),
               skey(F, j, "%s-%d" % (s["rv"]["op"].lower(), n)))
    callers = call_sites(F, D + "add_jitter", crates=["iroh_dns"])
    rep.floor("nonzero", "callers of add_jitter", len(callers), 1)
    # ---- (b) stagger_call
    sc = body_of(F, rep, D + "stagger_call")
    du = defuse(sc)
    nx = find_calls(sc, regex=r"StreamExt::next$")
    rep.exact("first-success", "calls.next() in stagger_call", len(nx), 1)
    if not nx:
        return
    nb, nt = nx[0]
    outs = await_output(sc, nt["dest"]["l"])
    ts, tags = value_tests(sc, outs, family="option")
    oks = [(b, i, rv) for b, i, rv in returns_of(sc) if i is not None and rv["k"] == "agg" and rv.get("variant") == "Ok"]
    errs = [(b, i, rv) for b, i, rv in returns_of(sc) if i is not None and rv["k"] == "agg" and rv.get("variant") == "Err"]
    rep.exact("first-success", "Ok returns", len(oks), 1)
    rep.exact("first-success", "Err returns", len(errs), 1)
    for b, i, rv in oks:
        src = copy_sources(sc, op_base(rv["ops"][0]), stop=tuple(outs))
        rep.ob("first-success", requires(sc, b, ts, levels=[0, 1]) and bool(src) and all(x[0] == "place" and x[1] in outs for x in src), site(sc, b),
               "Ok(t) is returned straight from a completed call's Some(Ok(t)); sources %s" % sorted(map(str, src)), skey(F, sc, "ok-first"))
        rep.ob("first-success", nb not in sc.reachable(b), site(sc, b), "the first success returns without polling further calls", skey(F, sc, "ok-returns-now"))
    lvl0 = [t for t in ts if t.level == 0]
    for b, i, rv in errs:
        rep.ob("first-success", requires_failure(sc, b, lvl0), site(sc, b), "Err is returned only when the set of calls is exhausted (next() == None)", skey(F, sc, "err-after-exhaustion"))
    # errors vector
    pushes = [(b, t) for b, t in find_calls(sc, "alloc::vec::Vec::push")]
    errv = None
    for b, t in pushes:
        tgt = arg_ref_target(sc, t["args"][0])
        src = copy_sources(sc, op_base(t["args"][1]), stop=tuple(outs))
        if all(x[0] == "place" and x[1] in outs for x in src) and src:
            errv = tgt
            lvl1 = [x for x in ts if x.level == 1]
            rep.ob("first-success", requires(sc, b, lvl0) and requires_failure(sc, b, lvl1), site(sc, b), "each failed call's error is pushed onto the error list", skey(F, sc, "push-err"))
            # every Err edge reaches the push
            ft = {tg for x in lvl1 for _, tg in x.failure if sc.blocks[tg]["t"]["k"] != "unreachable"}
            rep.ob("first-success", bool(ft) and all(nb not in sc.reachable(tg, removed_blocks={b}) for tg in ft), site(sc, b), "no failed call is dropped without being recorded", skey(F, sc, "err-always-pushed"))
    rep.ob("first-success", errv is not None, site(sc), "an error list collecting failed calls exists", skey(F, sc, "has-error-list"))
    if errv is not None:
        for b, i, rv in errs:
            rep.ob("first-success", errv in du.closure(op_base(rv["ops"][0])), site(sc, b), "the returned StaggeredError carries that list", skey(F, sc, "err-carries-list"))
    # one call per delay plus the immediate one
    ch = find_calls(sc, "core::iter::traits::iterator::Iterator::chain")
    on = find_calls(sc, "core::iter::sources::once::once")
    ok = len(ch) == 1 and len(on) == 1 and du.derives_from_arg(op_base(ch[0][1]["args"][1]), _delays_arg(sc)) if ch and on else False
    rep.ob("first-success", bool(ok), site(sc), "calls are started for once(&0) chained with every configured delay", skey(F, sc, "one-per-delay"))


def _delays_arg(sc):
    for n, pl in sc.vars:
        if n == "delays_ms":
            return pl["l"]
    return 2
