"""C14 Relay keep-alive pings: only the latest ping counts."""
from ..lib import *

PT = "iroh_relay::ping_tracker::PingTracker"


def check(F, rep):
    rep.clause("the tracker's state (inner, last_rtt) is written only by new / new_ping_with_timeout / pong_received / timeout; a pong changes state only if its payload equals the outstanding ping's; a new ping unconditionally replaces the outstanding one; the timeout waits on the outstanding ping's own deadline")
    rep.undecided("the 3x RTT clamp (values) and timing")
    allowed = {PT + "::new", PT + "::new_ping_with_timeout", PT + "::pong_received", PT + "::timeout"}
    for fld in ("inner", "last_rtt"):
        w = [x for x in field_accesses(F, PT, fld) if x[3] in ("write", "refmut")]
        rep.floor("who_writes", "writes to PingTracker." + fld, len(w), 1)
        for f, b, i, kind, s in w:
            rep.fn(f)
            rep.ob("who_writes", source_fn(F, f) in allowed, site(f, b), "PingTracker.%s written in %s" % (fld, source_fn(F, f)), skey(F, f, "writes-" + fld))
    for f, b, i, rv in ctor_sites(F, PT):
        rep.ob("ctor_sites", source_fn(F, f) == PT + "::new", site(f, b), "PingTracker constructed in %s" % source_fn(F, f), skey(F, f, "ctor"))
    # pong_received
    p = get_fn(F, rep, PT + "::pong_received")
    eqs = []
    for b, t in find_calls(p, "core::cmp::PartialEq::eq", "core::cmp::PartialEq::ne"):
        s = copy_sources(p, op_base(t["args"][0])) | copy_sources(p, op_base(t["args"][1]))
        if any(x[0] == "arg" and x[1] == 2 for x in s) and any(x[0] == "arg" and x[1] == 1 and x[2][-1:] == ("data",) and "inner" in x[2] for x in s):
            eqs.append((b, t))
    rep.exact("pong", "comparisons of inner.data with the pong payload", len(eqs), 1)
    it = field_tests(p, "inner")
    rep.floor("pong", "tests of self.inner", len(it), 1)
    if eqs:
        et, _ = call_result_tests(p, eqs[0][0], family="bool")
        if is_call_to(eqs[0][1], "core::cmp::PartialEq::ne"):
            for t in et:
                t.success, t.failure = t.failure, t.success
        ws = field_writes(p, "inner") + field_writes(p, "last_rtt")
        rep.floor("pong", "state writes in pong_received", len(ws), 2)
        for b, i, s in ws:
            rep.ob("pong", requires(p, b, et) and requires(p, b, it), site(p, b), "state changes only when a ping is outstanding and the payload matches it", skey(F, p, "write-guard-" + place_field_names(s["lhs"])[-1]))
        # inner is cleared
        iw = field_writes(p, "inner")
        ok = all(copy_sources(p, op_base(s["rv"]["o"])) == {("agg", "core::option::Option::None")} for b, i, s in iw if s["rv"]["k"] == "use") and bool(iw)
        rep.ob("pong", ok, site(p), "a matching pong clears the outstanding ping", skey(F, p, "clears"))
        # rtt derives from the outstanding ping's sent_at
        rw = field_writes(p, "last_rtt")
        du = defuse(p)
        okr = bool(rw) and all(any(fld == "sent_at" for _, fld in du.field_reads(op_base(s["rv"]["o"]))) for b, i, s in rw if s["rv"]["k"] == "use")
        rep.ob("pong", okr, site(p), "the recorded RTT is measured from the outstanding ping's sent_at", skey(F, p, "rtt-from-sent_at"))
    # new_ping_with_timeout: unconditional overwrite, returns the stored payload
    n = get_fn(F, rep, PT + "::new_ping_with_timeout")
    iw = field_writes(n, "inner")
    rep.exact("new_ping", "writes to self.inner", len(iw), 1)
    for b, i, s in iw:
        rep.ob("new_ping", n.postdominates(b, 0) and not controlling_switches(n, b), site(n, b), "the outstanding ping is replaced unconditionally (older pings are forgotten)", skey(F, n, "unconditional"))
    aggs = [(b, i, rv) for b, i, rv in aggregates_in(n, n.reachable(0), "iroh_relay::ping_tracker::PingInner")]
    rep.exact("new_ping", "PingInner constructions", len(aggs), 1)
    if aggs:
        b, i, rv = aggs[0]
        d = copy_sources(n, op_base(rv["ops"][rv["fields"].index("data")]))
        r = copy_sources(n, 0)
        rep.ob("new_ping", d == r and bool(d) and all(x[0] == "call" and x[1].startswith("rand::") for x in d), site(n, b), "the returned payload is the stored one and comes from rand::random(); sources %s / %s" % (sorted(map(str, d)), sorted(map(str, r))), skey(F, n, "payload"))
        ndu = defuse(n)
        dl = op_base(rv["ops"][rv["fields"].index("deadline")])
        rep.ob("new_ping", 2 in ndu.closure(dl) and ndu.derives_from_call(dl, regex=r"Instant::now$"), site(n, b), "deadline = now + timeout", skey(F, n, "deadline"))
    # timeout: sleeps on inner.deadline
    t = body_of(F, rep, PT + "::timeout")
    sl = find_calls(t, regex=r"::sleep_until$")
    rep.exact("timeout", "sleep_until calls", len(sl), 1)
    if sl:
        src = copy_sources(t, op_base(sl[0][1]["args"][0]))
        rep.ob("timeout", bool(src) and all(x[2][-1:] == ("deadline",) and "inner" in x[2] for x in src), site(t, sl[0][0]), "sleeps until the outstanding ping's deadline; sources %s" % sorted(map(str, src)), skey(F, t, "deadline-of-inner"))
        itt = field_tests(t, "inner")
        rep.ob("timeout", bool(itt) and requires(t, sl[0][0], itt), site(t, sl[0][0]), "only with a ping outstanding", skey(F, t, "requires-inner"))
        pend = find_calls(t, regex=r"core::future::pending::pending$|core::future::pending$")
        rep.ob("timeout", bool(pend) and bool(itt) and requires_failure(t, pend[0][0], itt), site(t), "without an outstanding ping it never completes (future::pending)", skey(F, t, "pending-when-none"))
