"""C43 Relay maps behave as maps and never deadlock (lock discipline)."""
from ..lib import *
from ..lockset import guards

RM = "iroh_relay::relay_map::RelayMap"


def check(F, rep):
    rep.clause("no RelayMap method acquires the map's RwLock a second time (through another RelayMap value that may share the same Arc) while holding a guard on it with at least one side exclusive, unless it first excluded aliasing with Arc::ptr_eq; all other methods take exactly one guard")
    rep.undecided("map semantics as values; read/read nesting in PartialEq::eq blocks only with a concurrent writer queued (outside the property's sequential histories) and is reported as a note")
    is_clone = any(i["trait_path"] == "core::clone::Clone" for i in F.impls_of(adt=RM))
    fld = F.adt(RM)["variants"][0]["fields"]
    shares = any(f["name"] == "relays" and f["ty"].startswith("alloc::sync::Arc<") for f in fld)
    rep.ob("aliasing", True, RM, "RelayMap: Clone=%s over Arc-shared lock=%s (two values may denote the same lock)" % (is_clone, shares), RM + "|may-alias")
    fns = [g for g in F.find(r"^(iroh_relay::relay_map::RelayMap::|<iroh_relay::relay_map::RelayMap as )") if not g.derived]
    rep.floor("lockset", "RelayMap methods analysed", len(fns), 12)
    nacq = 0
    from ..inline import inlined
    for g0 in fns:
        rep.fn(g0)
        # helpers (e.g. an extracted aliasing test) are analysed in line; a helper that is
        # itself a RelayMap method keeps its own entry in this loop as well
        g = inlined(F, g0, select=lambda f_, h_: h_.crate == f_.crate and h_.file == f_.file and h_.kind in ("Fn", "AssocFn") and not h_.coroutine and not h_.derived and h_.vis != "pub" and h_.path != f_.path and len(h_.blocks) <= 60)
        gs = [x for x in guards(g) if any(d[-1][-1:] == ("relays",) for d in x.lock if len(d) == 3)]
        nacq += len(gs)
        for second in gs:
            for first in gs:
                if first is second or second.bb not in first.held_blocks():
                    continue
                same_value = first.lock == second.lock
                excl = "exclusive" in (first.mode, second.mode)
                # aliasing excluded by a dominating Arc::ptr_eq false edge?
                pe = find_calls(g, "alloc::sync::Arc::ptr_eq")
                excluded = False
                for pb, pt in pe:
                    ts, _ = call_result_tests(g, pb, family="bool")
                    if requires_failure(g, second.bb, ts):
                        excluded = True
                name = g.npath.rsplit("::", 1)[-1]
                if excl:
                    ok = (not (is_clone and shares)) or excluded
                    if same_value:
                        ok = False
                    rep.ob("nested-acquire", ok, site(g, second.bb),
                           "%s: acquires `relays` (%s) on %s while holding a %s guard on %s of the same abstract lock; a clone shares the Arc<RwLock>, so `a.%s(&a.clone())` blocks forever%s"
                           % (name, second.mode, sorted(second.lock), first.mode, sorted(first.lock), name, " [excluded by Arc::ptr_eq]" if excluded else ""),
                           "%s|%s-then-%s" % (g.npath, first.mode, second.mode))
                else:
                    rep.note("%s: nested shared/shared acquisition of `relays` at %s (blocks only with a writer queued in between)" % (g.npath, g.loc(second.bb)))
    rep.floor("lockset", "acquisitions of RelayMap.relays", nacq, 10)
