"""C39 DNS packet store consistency (pairing of table and index, commit on all exits)."""
import re as _re
from ..lib import *

S = "iroh_dns_server::store::signed_packets::"
SP = "iroh_dns::pkarr::SignedPacket"
MSG = S + "Message"
TBL_MUT = r"^redb::.*(Table|MultimapTable)::(insert|remove|remove_all|retain|retain_in|drain|pop_first|pop_last|extract_if|extract_from_if)$"


def tbl_calls(f, blocks, field, op):
    out = []
    for b, t in calls_in(f, blocks):
        if call_matches(t, r"^redb::.*(Table|MultimapTable)::%s$" % op) and recv_field(f, t["args"][0]) == field:
            out.append((b, t))
    return out


def check(F, rep):
    rep.clause("only Actor::handle_message (called only from run0 with the batch's open transaction) mutates the two tables")
    rep.clause("pairing on every path of a message: a row insert is followed by the index insert for (timestamp(packet), key); replacing a row first removes the old row's index entry; eviction removes the row only if the *stored* packet's timestamp is older than the cut-off, together with its index entry; every CheckExpired outcome removes the stale index entry")
    rep.clause("every non-error exit of the batch loop commits the open transaction after the tables were dropped; serialize/deserialize agree on the 8-byte prefix with a legacy fallback")
    rep.undecided("crash durability (redb's contract); the eviction cut-off arithmetic and timing as values")

    from ..inline import inlined
    hm0 = get_fn(F, rep, S + "Actor::handle_message")
    hm = inlined(F, hm0, keep={S + "get_packet", S + "serialize", S + "deserialize"})      # table operations may be wrapped in small private helpers
    # ---- who mutates
    muts = call_sites(F, regex=TBL_MUT, crates=["iroh_dns_server"])
    rep.floor("who_writes", "redb table mutations in iroh-dns-server", len(muts), 4)
    for f, b, t, kind in muts:
        rep.fn(f)
        src_ = source_fn(F, f)
        okw = src_ == S + "Actor::handle_message"
        if not okw and f.vis != "pub" and f.file == hm0.file:
            # a private helper is fine if handle_message is its only caller
            callers = {source_fn(F, g) for g, b2, t2, k2 in call_sites(F, f.npath, crates=["iroh_dns_server"])}
            okw = bool(callers) and callers <= {S + "Actor::handle_message"}
        rep.ob("who_writes", okw, site(f, b), "%s on a table in %s" % (callee_names(t)[0].rsplit("::", 1)[-1], src_), skey(F, f, "table-mutator"))
    cs = call_sites(F, S + "Actor::handle_message", crates=["iroh_dns_server"])
    for f, b, t, kind in cs:
        rep.ob("who_calls", source_fn(F, f) == S + "Actor::run0", site(f, b), "handle_message called from %s" % source_fn(F, f), skey(F, f, "hm-caller"))
    rep.floor("who_calls", "handle_message call sites", len(cs), 1)

    sw = enum_switches(F, hm, MSG)
    if len(sw) != 1:
        rep.missing("pairing", "switch on Message in handle_message")
        return
    sb, pl, arms, other = sw[0]
    du = defuse(hm)

    # ---- Upsert
    up = arm_region(hm, sb, arms["Upsert"])
    rows = tbl_calls(hm, up, "signed_packets", "insert")
    idx_i = tbl_calls(hm, up, "update_time", "insert")
    idx_r = tbl_calls(hm, up, "update_time", "remove")
    rep.exact("pairing", "Upsert: row inserts", len(rows), 1)
    rep.exact("pairing", "Upsert: index inserts", len(idx_i), 1)
    rep.exact("pairing", "Upsert: index removes", len(idx_r), 1)
    if rows and idx_i and idx_r:
        rb, rt = rows[0]
        ib, it = idx_i[0]
        xb, xt = idx_r[0]
        # every path from the row insert to the end of the message passes the index insert (or is an error exit)
        rets_ok = [b for b, i, rv in returns_of(hm) if i is not None and rv["k"] == "agg" and rv.get("variant") == "Ok"]
        byp = [b for b in rets_ok if b in hm.reachable(rb, removed_blocks={ib})]
        rep.ob("pairing", hm.dominates(rb, ib) and not byp, site(hm, ib), "row insert is followed by the index insert on every non-error path", skey(F, hm, "upsert-insert-paired"))
        k1 = copy_sources(hm, op_base(rt["args"][1]))
        k2 = copy_sources(hm, op_base(it["args"][2]))
        k3 = copy_sources(hm, op_base(xt["args"][2]))
        rep.ob("pairing", k1 == k2 == k3 and bool(k1), site(hm, ib), "row, index insert and index remove use the same key; %s" % sorted(map(str, k1)), skey(F, hm, "upsert-same-key"))
        tsl = op_base(it["args"][1])
        tcalls = [x for x in du.origin_calls(tsl) if is_call_to(x[1], SP + "::timestamp")]
        ok = len(tcalls) == 1 and all(x[0] == "arg" and x[2][-1:] == ("packet",) for x in copy_sources(hm, op_base(tcalls[0][1]["args"][0])))
        rep.ob("pairing", ok, site(hm, ib), "index entry is keyed by the offered packet's timestamp", skey(F, hm, "upsert-index-ts"))
        # remove of the old entry: timestamp of the existing (table read) packet, before the insert
        xl = op_base(xt["args"][1])
        xcalls = [x for x in du.origin_calls(xl) if is_call_to(x[1], SP + "::timestamp")]
        ok = len(xcalls) == 1 and du.derives_from_call(op_base(xcalls[0][1]["args"][0]), S + "get_packet") and not any(x[0] == "arg" and x[2][-1:] == ("packet",) for x in copy_sources(hm, op_base(xcalls[0][1]["args"][0])))
        rep.ob("pairing", ok and hm.dominates(xb, rb) is False or (ok and rb in hm.reachable(xb)), site(hm, xb), "replacing a row first removes the index entry of the *existing* row's timestamp", skey(F, hm, "upsert-remove-old-index"))
        gp = [(b, t) for b, t in calls_in(hm, up) if is_call_to(t, S + "get_packet")]
        if gp:
            gts, _ = call_result_tests(hm, gp[0][0])
            rep.ob("pairing", requires(hm, xb, gts, levels=[0, 1]), site(hm, xb), "old index entry removed only when a row existed", skey(F, hm, "upsert-remove-requires-existing"))
            # all paths with an existing row that reach the row insert pass the index remove
            some_targets = [tg for t in gts if t.level == 1 for _, tg in t.success]
            byp = any(rb in hm.reachable(tg, removed_blocks={xb}) for tg in some_targets)
            rep.ob("pairing", not byp and bool(some_targets), site(hm, rb), "with an existing row the insert is never reached without removing its old index entry", skey(F, hm, "upsert-replace-always-unindexes"))

    # ---- CheckExpired
    ce = arm_region(hm, sb, arms["CheckExpired"])
    rrem = tbl_calls(hm, ce, "signed_packets", "remove")
    irem = tbl_calls(hm, ce, "update_time", "remove")
    rep.exact("eviction", "CheckExpired: row removes", len(rrem), 1)
    rep.exact("eviction", "CheckExpired: index removes", len(irem), 3)
    gp = [(b, t) for b, t in calls_in(hm, ce) if is_call_to(t, S + "get_packet")]
    rep.exact("eviction", "CheckExpired: table reads", len(gp), 1)
    if rrem and gp:
        rb, rt = rrem[0]
        gts, _ = call_result_tests(hm, gp[0][0])
        rep.ob("eviction", requires(hm, rb, gts, levels=[0, 1]), site(hm, rb), "a row is evicted only if it exists", skey(F, hm, "evict-requires-row"))
        # the comparison guarding the removal
        guards_ = []
        for cb, ct in calls_in(hm, ce):
            if is_call_to(ct, "core::cmp::PartialOrd::lt", "core::cmp::PartialOrd::le", "core::cmp::PartialOrd::gt", "core::cmp::PartialOrd::ge"):
                ts, _ = call_result_tests(hm, cb, family="bool")
                if requires(hm, rb, ts) or requires_failure(hm, rb, ts):
                    guards_.append((cb, ct, ts))
        rep.exact("eviction", "comparison guarding the row removal", len(guards_), 1)
        for cb, ct, ts in guards_:
            a0, a1 = op_base(ct["args"][0]), op_base(ct["args"][1])
            n = callee_names(ct)[0].rsplit("::", 1)[-1]
            stored0 = [x for x in du.origin_calls(a0) if is_call_to(x[1], SP + "::timestamp") and du.derives_from_call(op_base(x[1]["args"][0]), S + "get_packet")]
            stored1 = [x for x in du.origin_calls(a1) if is_call_to(x[1], SP + "::timestamp") and du.derives_from_call(op_base(x[1]["args"][0]), S + "get_packet")]
            now0 = du.derives_from_call(a0, "iroh_dns::pkarr::Timestamp::now")
            now1 = du.derives_from_call(a1, "iroh_dns::pkarr::Timestamp::now")
            ok = (bool(stored0) and now1 and not now0 and n in ("lt", "le") and requires(hm, rb, ts)) or (bool(stored1) and now0 and not now1 and n in ("gt", "ge") and requires(hm, rb, ts))
            rep.ob("eviction", ok, site(hm, cb),
                   "eviction decision compares the *stored packet's* timestamp (table read) against now - retention: `%s` with stored-on-left=%s stored-on-right=%s (the index timestamp in the message may be stale: a newer packet may have been stored since the evictor's snapshot)" % (n, bool(stored0), bool(stored1)),
                   skey(F, hm, "evict-compares-stored-ts"))
            ev = {x[4].get("def") for x in du.origin_facts(a1 if stored0 else a0, kinds=("const",))}
            fr = du.field_reads(a1 if stored0 else a0)
            rep.ob("eviction", any(fld == "eviction" for _, fld in fr), site(hm, cb), "cut-off derives from options.eviction", skey(F, hm, "evict-cutoff-option"))
        # row remove paired with index remove on its path
        paired = [ib for ib, it in irem if hm.dominates(ib, rb) or hm.dominates(rb, ib)]
        rep.ob("eviction", bool(paired), site(hm, rb), "row removal is paired with the removal of its index entry on the same path", skey(F, hm, "evict-paired"))
        # every outcome removes the stale index entry: no Ok exit of the arm bypasses all index removes
        rets_ok = [b for b, i, rv in returns_of(hm) if i is not None and rv["k"] == "agg" and rv.get("variant") == "Ok"]
        entry = arms["CheckExpired"]
        byp = [b for b in rets_ok if b in hm.reachable(entry, removed_blocks={ib for ib, _ in irem})]
        rep.ob("eviction", not byp, site(hm, entry), "every CheckExpired outcome removes the (time, key) index entry", skey(F, hm, "checkexpired-always-unindexes"))
        for ib, it in irem:
            t_src = copy_sources(hm, op_base(it["args"][1]))
            k_src = copy_sources(hm, op_base(it["args"][2]))
            ok = du.derives_from_call(op_base(it["args"][1]), "iroh_dns::pkarr::Timestamp::to_be_bytes") and any(x[0] == "arg" and x[2][-1:] == ("time",) for x in copy_sources(hm, op_base([x for x in du.origin_calls(op_base(it["args"][1])) if is_call_to(x[1], "iroh_dns::pkarr::Timestamp::to_be_bytes")][0][1]["args"][0])))
            rep.ob("eviction", ok, site(hm, ib), "index entry removed is the message's (time, key)", skey(F, hm, "checkexpired-index-key"))

    # ---- run0: commit on all non-error exits
    r0 = body_of(F, rep, S + "Actor::run0")
    bw = find_calls(r0, regex=r"redb::.*Database::begin_write$")
    cm = find_calls(r0, regex=r"redb::.*WriteTransaction::commit$")
    rep.exact("commit", "begin_write calls in run0", len(bw), 1)
    rep.floor("commit", "commit calls in run0", len(cm), 2)
    if bw and cm:
        rets_ok = [b for b, i, rv in returns_of(r0) if i is not None and rv["k"] == "agg" and rv.get("variant") == "Ok"]
        cblocks = {b for b, t in cm}
        byp = [b for b in rets_ok if b in r0.reachable_after(bw[0][0], removed_blocks=cblocks)]
        rep.ob("commit", not byp, site(r0, bw[0][0]), "no Ok exit is reachable from begin_write without passing transaction.commit()", skey(F, r0, "ok-exits-commit"))
        # next begin_write (next batch) only after commit
        rep.ob("commit", bw[0][0] not in r0.reachable_after(bw[0][0], removed_blocks=cblocks), site(r0, bw[0][0]), "a new batch transaction is begun only after the previous one was committed", skey(F, r0, "batch-commit-before-next"))
        # tables dropped before commit
        tl = None
        for b, t in find_calls(r0, S + "Tables::new"):
            outs = copy_sources(r0, t["dest"]["l"])
            tl = t["dest"]["l"]
        drops = []
        for b in r0.reachable(0):
            t = r0.blocks[b]["t"]
            if t["k"] == "drop" and "signed_packets::Tables" in t["ty"] and "Result" not in t["ty"] and "ControlFlow" not in t["ty"]:
                drops.append(b)
            if t["k"] == "call" and is_call_to(t, "core::mem::drop") and t["args"] and "signed_packets::Tables" in r0.locals[op_base(t["args"][0])]:
                drops.append(b)
        for b, t in cm:
            rep.ob("commit", any(r0.dominates(d, b) for d in drops), site(r0, b), "tables are dropped before the commit", skey(F, r0, "drop-before-commit"))
        hmc = find_calls(r0, S + "Actor::handle_message")
        rep.ob("commit", bool(hmc) and all(r0.dominates(bw[0][0], b) for b, t in hmc), site(r0), "messages are handled only inside an open transaction", skey(F, r0, "handle-inside-tx"))

    # ---- serialize / deserialize
    se = get_fn(F, rep, S + "serialize")
    de = get_fn(F, rep, S + "deserialize")
    sdu = defuse(se)
    ext = sorted(find_calls(se, "alloc::vec::Vec::extend_from_slice"), key=lambda x: sum(1 for y in find_calls(se, "alloc::vec::Vec::extend_from_slice") if se.dominates(y[0], x[0])))
    ok = len(ext) == 2 and sdu.derives_from_call(op_base(ext[0][1]["args"][1]), "iroh_dns::pkarr::Timestamp::to_be_bytes") and sdu.derives_from_call(op_base(ext[1][1]["args"][1]), SP + "::as_bytes")
    pre = None
    for l, ty in enumerate(se.locals):
        m = _re.match(r"^\[u8; (\d+)(?:_usize)?\]$", ty)
        if m:
            pre = int(m.group(1))
    rep.ob("format", ok and pre is not None, site(se), "serialize = to_be_bytes prefix (%s bytes) ++ packet bytes" % pre, skey(F, se, "prefix"))
    # deserialize: slice start constant
    starts = set()
    for b, i, rv in aggregates_in(de, de.reachable(0)):
        if rv["adt"].endswith("RangeFrom"):
            for o in rv["ops"]:
                if o["k"] == "const":
                    m = _re.match(r"^(?:const )?(\d+)_", str(o.get("v")))
                    if m:
                        starts.add(int(m.group(1)))
    fbu = find_calls(de, SP + "::from_bytes_unchecked")
    rep.ob("format", starts == {pre} and len(fbu) == 2, site(de), "deserialize skips the same %s-byte prefix (slices from %s) and falls back to the raw legacy format" % (pre, sorted(starts)), skey(F, de, "prefix-agrees"))
