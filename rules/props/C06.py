"""C06 Relay connection registry: newest connection wins, older ones resume."""
from ..lib import *

S = "iroh_relay::server::"
CL = S + "clients::Clients::"
INNER = S + "clients::Inner"
STATE = S + "clients::ClientState"
MUTATORS = r"^dashmap::DashMap::(insert|remove|remove_if|remove_if_mut|entry|clear|retain|alter|alter_all|get_mut|try_entry|iter_mut|shrink_to_fit|try_get_mut)$"
STATUS = "iroh_relay::protos::relay::Status"


def check(F, rep):
    rep.clause("only register / unregister / shutdown mutate the registry map; only register / unregister write the active slot")
    rep.clause("register: the new connection becomes active, the replaced one is told SameEndpointIdConnected and parked")
    rep.clause("unregister(active): promotion takes from the same end of the parked list that register pushes to, the promoted one is told Healthy, the entry stays; the entry (and the sent-to set) is removed only when nothing is parked; unregister(inactive) only drops that connection")
    rep.clause("peer-gone notifications are sent after the map closure returned (no shard guard held)")
    rep.undecided("full three-connection histories as values (needs state exploration)")

    # ---- who mutates the map
    allowed = {CL + "register", CL + "unregister", CL + "shutdown"}
    users = [x for x in field_accesses(F, INNER, "clients", crates=["iroh_relay"]) if x[3] in ("ref", "refmut")]
    rep.floor("who_writes", "references to Inner.clients", len(users), 5)
    nmut = 0
    for f, b, i, kind, s in users:
        rep.fn(f)
        for cb, ct, ai in ref_consumers(f, s["lhs"]["l"]):
            if ai == 0 and call_matches(ct, MUTATORS):
                nmut += 1
                rep.ob("who_writes", source_fn(F, f) in allowed, site(f, cb), "%s on Inner.clients in %s" % (callee_names(ct)[0].rsplit("::", 1)[-1], source_fn(F, f)),
                       skey(F, f, "mutates-clients:" + callee_names(ct)[0].rsplit("::", 1)[-1]))
    rep.floor("who_writes", "mutating calls on Inner.clients", nmut, 3)
    wr = [x for x in field_accesses(F, STATE, "active", crates=["iroh_relay"]) if x[3] in ("write", "refmut")]
    rep.floor("who_writes", "writes to ClientState.active", len(wr), 2)
    for f, b, i, kind, s in wr:
        rep.fn(f)
        rep.ob("who_writes", source_fn(F, f) in (CL + "register", CL + "unregister"), site(f, b), "ClientState.active written in %s" % source_fn(F, f), skey(F, f, "writes-active"))
    for f, b, i, rv in ctor_sites(F, STATE, crates=["iroh_relay"]):
        rep.ob("ctor_sites", source_fn(F, f) == CL + "register", site(f, b), "ClientState constructed in %s" % source_fn(F, f), skey(F, f, "state-ctor"))

    # ---- register
    r = get_fn(F, rep, CL + "register")
    du = defuse(r)
    new = find_calls(r, S + "client::Client::new")
    rep.exact("register", "Client::new calls", len(new), 1)
    rp = find_calls(r, "core::mem::replace")
    rep.exact("register", "mem::replace calls", len(rp), 1)
    entry = calls_on_field(r, "clients", "dashmap::DashMap::entry")
    rep.exact("register", "clients.entry(..) calls", len(entry), 1)
    if new and rp and entry:
        nl = new[0][1]["dest"]["l"]
        b, t = rp[0]
        tgt = ref_source_place(r, op_base(t["args"][0]))
        rep.ob("register", tgt is not None and place_field_names(tgt)[-1:] == ["active"], site(r, b), "mem::replace targets state.active", skey(F, r, "replace-active"))
        rep.ob("register", copy_sources(r, op_base(t["args"][1])) == {("call", S + "client::Client::new", ())}, site(r, b), "the value installed as active is the new Client", skey(F, r, "new-becomes-active"))
        old = t["dest"]["l"]
        key = copy_sources(r, op_base(entry[0][1]["args"][1]))
        rep.ob("register", all(x[0] == "arg" and x[2][-2:] == ("guard", "endpoint_id") for x in key) and bool(key), site(r, entry[0][0]),
               "registry key is config.guard.endpoint_id; sources %s" % sorted(map(str, key)), skey(F, r, "entry-key"))
        th = find_calls(r, S + "client::Client::try_send_health")
        rep.exact("register", "try_send_health calls", len(th), 1)
        if th:
            hb, ht = th[0]
            rep.ob("register", arg_ref_target(r, ht["args"][0]) == old, site(r, hb), "health notice goes to the replaced connection", skey(F, r, "health-to-old"))
            st = copy_sources(r, op_base(ht["args"][1]))
            rep.ob("register", st == {("agg", STATUS + "::SameEndpointIdConnected")}, site(r, hb), "status is SameEndpointIdConnected; got %s" % sorted(map(str, st)), skey(F, r, "health-status"))
        push = calls_on_field(r, "inactive", regex=r"^alloc::(vec::Vec|collections::vec_deque::VecDeque)::(push|push_back|push_front)$")
        rep.exact("register", "push onto state.inactive", len(push), 1)
        if push:
            pb, pt = push[0]
            rep.ob("register", copy_sources(r, op_base(pt["args"][1])) == {("call", "core::mem::replace", ())}, site(r, pb), "the replaced connection is parked", skey(F, r, "old-parked"))
            rep.ob("register", r.dominates(b, pb), site(r, pb), "park after replace", skey(F, r, "park-after-replace"))
        # vacant arm: inserts the new client as active with nothing parked
        for f2, b2, i2, rv in ctor_sites(F, STATE, crates=["iroh_relay"]):
            if f2 is r:
                a = copy_sources(r, op_base(rv["ops"][rv["fields"].index("active")]))
                ina = copy_sources(r, op_base(rv["ops"][rv["fields"].index("inactive")]))
                rep.ob("register", a == {("call", S + "client::Client::new", ())} and ina == {("call", "alloc::vec::Vec::new", ())}, site(r, b2),
                       "vacant entry: new client active, empty parked list", skey(F, r, "vacant-state"))

    # ---- unregister
    u = get_fn(F, rep, CL + "unregister")
    rim = calls_on_field(u, "clients", "dashmap::DashMap::remove_if_mut")
    rep.exact("unregister", "clients.remove_if_mut calls", len(rim), 1)
    closure = None
    if rim:
        cl = copy_sources(u, op_base(rim[0][1]["args"][2]))
        names = [x[1] for x in cl if x[0] == "agg"]
        for g in F.tree(u):
            if g is not u and g.argc == 3 and "ClientState" in g.locals[3]:
                closure = g
        k = copy_sources(u, op_base(rim[0][1]["args"][1]))
        rep.ob("unregister", bool(k) and all(x[0] == "arg" and x[1] == 2 and x[2][-1:] == ("endpoint_id",) for x in k), site(u, rim[0][0]),
               "removal key is guard.endpoint_id", skey(F, u, "key"))
    if closure is None:
        rep.missing("unregister", "remove_if_mut closure")
        return
    c = rep.fn(closure)
    # the active-match test
    eqs = [(b, t) for b, t in find_calls(c, "core::cmp::PartialEq::eq", "core::cmp::PartialEq::ne")]
    eq = []
    for b, t in eqs:
        s0 = copy_sources(c, op_base(t["args"][0]), F=F)
        s1 = copy_sources(c, op_base(t["args"][1]), F=F)
        srcs = s0 | s1
        has_active = any(x[0] == "arg" and x[1] == 3 and x[2][:1] == ("active",) and x[2][-1:] == ("connection_id",) for x in srcs)
        has_param = any(x[0] == "arg" and x[1] == 1 and x[2][:1] == ("connection_id",) for x in srcs)
        if has_active and has_param:
            eq.append((b, t))
    rep.exact("unregister", "state.active.connection_id() == connection_id tests", len(eq), 1)
    if not eq:
        return
    neg = is_call_to(eq[0][1], "core::cmp::PartialEq::ne")
    t_eq, _ = value_tests(c, [eq[0][1]["dest"]["l"]], family="bool")
    if neg:
        for t in t_eq:
            t.success, t.failure = t.failure, t.success
    pop = calls_on_field(c, "inactive", regex=r"^alloc::(vec::Vec|collections::vec_deque::VecDeque)::(pop|pop_back|pop_front)$")
    rep.exact("unregister", "pop from state.inactive", len(pop), 1)
    push_name = None
    if push:
        push_name = callee_names(push[0][1])[0].rsplit("::", 1)[-1]
    if pop:
        pop_name = callee_names(pop[0][1])[0].rsplit("::", 1)[-1]
        LIFO = {("push", "pop"), ("push_back", "pop_back"), ("push_front", "pop_front")}
        rep.ob("table_agreement", (push_name, pop_name) in LIFO, site(c, pop[0][0]),
               "register parks with `%s`, unregister promotes with `%s`: most recently displaced connection resumes first" % (push_name, pop_name),
               "register/unregister|lifo")
        rep.ob("unregister", requires(c, pop[0][0], t_eq), site(c, pop[0][0]), "promotion only when the unregistering connection is the active one", skey(F, c, "pop-requires-active"))
        t_pop, _ = call_result_tests(c, pop[0][0])
        # writes to state.active
        aw = [(b, i, s) for b, i, s in c.stmts() if s["k"] == "a" and place_field_names(s["lhs"])[-1:] == ["active"] and s["lhs"]["l"] == 3]
        rep.exact("unregister", "assignments to state.active", len(aw), 1)
        for b, i, s in aw:
            rep.ob("unregister", requires(c, b, t_eq) and requires(c, b, t_pop), site(c, b), "active overwritten only on (active unregisters && a parked connection exists)", skey(F, c, "promote-guard"))
            src = copy_sources(c, op_base(s["rv"]["o"])) if s["rv"]["k"] == "use" else set()
            rep.ob("unregister", bool(src) and all(x[0] == "call" and x[1].endswith(pop_name) for x in src), site(c, b), "promoted value is the popped connection; sources %s" % sorted(map(str, src)), skey(F, c, "promote-value"))
        th = find_calls(c, S + "client::Client::try_send_health")
        rep.exact("unregister", "try_send_health calls", len(th), 1)
        if th and aw:
            hb, ht = th[0]
            recv = ref_source_place(c, op_base(ht["args"][0]))
            st = copy_sources(c, op_base(ht["args"][1]))
            rep.ob("unregister", recv is not None and recv["l"] == 3 and place_field_names(recv) == ["active"] and c.dominates(aw[0][0], hb) and st == {("agg", STATUS + "::Healthy")},
                   site(c, hb), "the promoted (now active) connection is told Healthy", skey(F, c, "healthy-to-promoted"))
        # return values
        for b, v in const_returns(c):
            if v == "true":
                rep.ob("unregister", requires(c, b, t_eq) and requires_failure(c, b, t_pop), site(c, b), "entry removed only when the active connection unregisters and nothing is parked", skey(F, c, "remove-guard"))
        trues = [b for b, v in const_returns(c) if v == "true"]
        falses = [b for b, v in const_returns(c) if v == "false"]
        rep.exact("unregister", "`true` (remove entry) returns", len(trues), 1)
        rep.floor("unregister", "`false` (keep entry) returns", len(falses), 2)
        nonconst = [b for b, i, rv in returns_of(c) if not (i is not None and rv["k"] == "use" and rv["o"]["k"] == "const")]
        rep.ob("unregister", not nonconst, site(c), "closure returns literal booleans only", skey(F, c, "literal-returns"))
        for b in falses:
            pass
        # promotion path returns false
        if aw:
            reach = c.reachable(aw[0][0])
            rep.ob("unregister", not (set(trues) & reach), site(c, aw[0][0]), "after a promotion the entry is kept (no `true` return reachable)", skey(F, c, "promote-keeps-entry"))
    # sent_to removal
    st_users = [x for x in field_accesses(F, INNER, "sent_to", crates=["iroh_relay"]) if x[3] in ("ref", "refmut")]
    nrem = 0
    for f, b, i, kind, s in st_users:
        for cb, ct, ai in ref_consumers(f, s["lhs"]["l"]):
            if ai == 0 and call_matches(ct, r"^dashmap::DashMap::(remove|remove_if|remove_if_mut|clear|retain)$"):
                nrem += 1
                ok = f is c and pop and requires(c, cb, t_eq) and requires_failure(c, cb, t_pop)
                rep.ob("unregister", bool(ok), site(f, cb), "sent_to entry dropped only together with the registry entry (active unregisters, nothing parked)", skey(F, f, "sent_to-remove"))
    rep.exact("unregister", "removals from Inner.sent_to", nrem, 1)
    # inactive arm
    ret = calls_on_field(c, "inactive", regex=r"::(retain|retain_mut)$")
    rep.exact("unregister", "retain on state.inactive", len(ret), 1)
    if ret:
        rep.ob("unregister", requires_failure(c, ret[0][0], t_eq), site(c, ret[0][0]), "retain only when the unregistering connection is not the active one", skey(F, c, "retain-guard"))
        # retain predicate compares connection ids with `!=`
        preds = [g for g in F.tree(c) if g is not c]
        okp = False
        for g in preds:
            for b, t in find_calls(g, "core::cmp::PartialEq::ne"):
                s = copy_sources(g, op_base(t["args"][0]), F=F) | copy_sources(g, op_base(t["args"][1]), F=F)
                if any(x[2][-1:] == ("connection_id",) for x in s):
                    okp = True
        rep.ob("unregister", okp, site(c, ret[0][0]), "retain keeps connections whose id differs from the unregistering one", skey(F, c, "retain-pred"))
    # ---- lock hygiene: notifications after the closure, outside of it
    from ..inline import inlined
    u_src = u
    u = inlined(F, u)       # the notification loop may live in a private helper
    gets = calls_on_field(u, "clients", "dashmap::DashMap::get")
    rep.floor("guard-across", "clients.get in the notification loop", len(gets), 1)
    for b, t in gets:
        rep.ob("guard-across", rim and u.dominates(rim[0][0], b), site(u, b), "peer lookup happens after remove_if_mut returned (its shard guard is released)", skey(F, u, "notify-after-remove"))
    inner_gets = [1 for g in F.tree(u_src) if g is not u_src for _ in calls_on_field(g, "clients", regex=r"^dashmap::DashMap::")]
    rep.ob("guard-across", not inner_gets, site(u), "no access to the registry map from inside the remove_if_mut closure", skey(F, u, "no-nested-map-access"))
    pg = find_calls(u, S + "client::Client::try_send_peer_gone")
    rep.exact("unregister", "try_send_peer_gone calls", len(pg), 1)
    if pg:
        src = copy_sources(u, op_base(pg[0][1]["args"][1]))
        rep.ob("unregister", bool(src) and all(x[0] == "arg" and x[1] == 2 and x[2][-1:] == ("endpoint_id",) for x in src), site(u, pg[0][0]), "peer-gone names the unregistering endpoint", skey(F, u, "gone-id"))
