"""Fact loading: fact files written by the irohlint driver -> Python objects.

One Fn object per MIR body (functions, methods, closures, async bodies).  All paths are
fully qualified with the crate name; `norm()` strips generic argument lists so that rules
can name functions/types independent of generic parameter spelling.
"""
import json, os, re, sys
from functools import lru_cache

_TRACING_MACROS = {"trace", "debug", "info", "warn", "error", "event", "$crate::event",
                   "$crate::level_enabled", "trace_span", "debug_span", "info_span",
                   "warn_span", "error_span", "span", "$crate::span", "event!", "tracing::event",
                   "$crate::valueset", "$crate::fieldset", "$crate::callsite2",
                   "tracing::trace", "tracing::debug", "tracing::info", "tracing::warn",
                   "tracing::error", "$crate::enabled", "inc", "inc_by"}
_TRACING_LEAF = {"trace", "debug", "info", "warn", "error", "event", "trace_span", "debug_span",
                 "info_span", "warn_span", "error_span", "tracing::trace", "tracing::debug",
                 "tracing::info", "tracing::warn", "tracing::error", "tracing::event",
                 "tracing::trace_span", "tracing::debug_span", "tracing::info_span",
                 "tracing::warn_span", "tracing::error_span", "event_enabled", "enabled"}


@lru_cache(maxsize=None)
def norm(path):
    """Strip generic argument lists: `a::B::<T>::c` -> `a::B::c`,
    `<a::B<S> as t::T<X>>::m` -> `<a::B as t::T>::m`."""
    if path is None:
        return None
    out = []
    depth = 0
    i = 0
    n = len(path)
    while i < n:
        c = path[i]
        if c == '<':
            # leading '<' of a qualified path `<X as Y>` is kept: it is at start or follows
            # a non-identifier char; generic lists follow an identifier or '::'
            prev = path[i - 1] if i > 0 else ''
            prev2 = path[i - 2:i] if i > 1 else ''
            is_generic = (prev.isalnum() or prev == '_' or prev2 == '::')
            if depth > 0 or is_generic:
                depth += 1
                i += 1
                continue
            out.append(c)
        elif c == '>':
            if depth > 0:
                # careful with '->' inside fn types
                if i > 0 and path[i - 1] == '-':
                    i += 1
                    continue
                depth -= 1
                i += 1
                continue
            out.append(c)
        else:
            if depth == 0:
                out.append(c)
        i += 1
    s = ''.join(out)
    s = s.replace('::::', '::')
    if s.endswith('::'):
        s = s[:-2]
    return s


class Fn:
    __slots__ = ("d", "path", "npath", "crate", "blocks", "locals", "argc", "file", "line",
                 "parent", "kind", "_succ", "_pred", "_dom", "_pdom", "_defs", "impl_of",
                 "impl_trait", "derived", "vis", "coroutine", "upvars", "vars", "_uses")

    def __init__(self, d, crate):
        self.d = d
        self.path = d["path"]
        self.npath = norm(d["path"])
        self.crate = crate
        self.blocks = d["blocks"]
        self.locals = d["locals"]
        self.argc = d["argc"]
        self.file = d["file"]
        self.line = d["line"]
        self.parent = d["parent"]
        self.kind = d["kind"]
        self.impl_of = d["impl_of"]
        self.impl_trait = d["impl_trait"]
        self.derived = d["derived"]
        self.vis = d["vis"]
        self.coroutine = d["coroutine"]
        self.upvars = d["upvars"]
        self.vars = d["vars"]
        self._succ = None
        self._pred = None
        self._dom = None
        self._pdom = None
        self._defs = None
        self._uses = None

    def __repr__(self):
        return "Fn(%s)" % self.path

    # ---------------------------------------------------------------- CFG
    def term(self, bb):
        return self.blocks[bb]["t"]

    def succ(self, bb, unwind=False, yield_drop=False):
        t = self.blocks[bb]["t"]
        k = t["k"]
        out = []
        if k in ("goto", "drop", "assert", "yield"):
            out.append(t["t"])
        elif k == "call":
            if t["t"] is not None:
                out.append(t["t"])
        elif k == "switch":
            for _, b in t["targets"]:
                out.append(b)
            out.append(t["otherwise"])
        if unwind and t.get("unwind") is not None:
            out.append(t["unwind"])
        if yield_drop and k == "yield" and t.get("drop") is not None:
            out.append(t["drop"])
        return out

    def succs(self):
        if self._succ is None:
            self._succ = [list(dict.fromkeys(self.succ(b))) for b in range(len(self.blocks))]
        return self._succ

    def preds(self):
        if self._pred is None:
            p = [[] for _ in self.blocks]
            for b, ss in enumerate(self.succs()):
                for s in ss:
                    p[s].append(b)
            self._pred = p
        return self._pred

    def reachable(self, start=0, removed_edges=(), removed_blocks=(), succ=None):
        """Blocks reachable from `start` (inclusive) on normal edges."""
        removed_edges = set(removed_edges)
        removed_blocks = set(removed_blocks)
        succ = succ or self.succs()
        seen = set()
        starts = [start] if isinstance(start, int) else list(start)
        stack = [s for s in starts if s not in removed_blocks]
        while stack:
            b = stack.pop()
            if b in seen:
                continue
            seen.add(b)
            for s in succ[b]:
                if (b, s) in removed_edges or s in removed_blocks or s in seen:
                    continue
                stack.append(s)
        return seen

    def reachable_after(self, bb, removed_edges=(), removed_blocks=()):
        """Blocks reachable strictly after leaving `bb` (bb itself only if on a cycle)."""
        removed_edges = set(removed_edges)
        starts = [s for s in self.succs()[bb] if (bb, s) not in removed_edges]
        return self.reachable(starts, removed_edges, removed_blocks)

    def dominators(self):
        """idom-free dominator sets via iterative bitset algorithm (functions are small)."""
        if self._dom is None:
            self._dom = _dominators(len(self.blocks), [0], self.preds(), self.reachable(0))
        return self._dom

    def dominates(self, a, b):
        d = self.dominators()
        return b in d and a in d[b]

    def exits(self):
        return [b for b in self.reachable(0) if self.blocks[b]["t"]["k"] == "return"]

    def postdominators(self):
        if self._pdom is None:
            reach = self.reachable(0)
            exits = [b for b in reach if self.blocks[b]["t"]["k"] == "return"]
            # reverse graph
            self._pdom = _dominators(len(self.blocks), exits, self.succs(), reach, multi=True)
        return self._pdom

    def postdominates(self, a, b):
        """a post-dominates b on normal paths that reach a return."""
        d = self.postdominators()
        return b in d and a in d[b]

    # ---------------------------------------------------------------- iteration helpers
    def calls(self, live_only=True):
        reach = self.reachable(0) if live_only else range(len(self.blocks))
        for b in sorted(reach):
            t = self.blocks[b]["t"]
            if t["k"] in ("call", "tailcall"):
                yield b, t

    def stmts(self, live_only=True):
        reach = self.reachable(0) if live_only else range(len(self.blocks))
        for b in sorted(reach):
            for i, s in enumerate(self.blocks[b]["s"]):
                yield b, i, s

    def is_tracing(self, bb):
        t = self.blocks[bb]["t"]
        mac = t.get("mac") or []
        return any(m in _TRACING_LEAF for m in mac)

    def local_ty(self, l):
        return self.locals[l]

    def var_name(self, local):
        for name, pl in self.vars:
            if pl["l"] == local and not pl.get("p"):
                return name
        return None

    def var_locals(self, name):
        return [pl for n, pl in self.vars if n == name]

    def loc(self, bb=None):
        if bb is None:
            return "%s:%d" % (self.file, self.line)
        return "%s:%d" % (self.file, self.blocks[bb]["t"].get("l", self.line))


def _dominators(n, roots, preds, reach, multi=False):
    """Returns dict block -> set of dominators (including itself), for blocks in `reach`
    that are reachable from roots in the graph whose predecessor relation is `preds`."""
    # compute nodes reachable from roots following reverse of preds (i.e. succ of this graph)
    succ = [[] for _ in range(n)]
    for b in range(n):
        for p in preds[b]:
            succ[p].append(b)
    seen = set()
    order = []
    stack = [r for r in roots]
    while stack:
        b = stack.pop()
        if b in seen or b not in reach:
            continue
        seen.add(b)
        order.append(b)
        stack.extend(succ[b])
    allset = frozenset(seen)
    dom = {b: allset for b in seen}
    rootset = set(roots)
    for r in roots:
        if r in seen:
            dom[r] = frozenset([r])
    changed = True
    while changed:
        changed = False
        for b in order:
            if b in rootset:
                continue
            ps = [p for p in preds[b] if p in seen]
            if not ps:
                new = frozenset([b])
            else:
                it = iter(ps)
                acc = set(dom[next(it)])
                for p in it:
                    acc &= dom[p]
                acc.add(b)
                new = frozenset(acc)
            if new != dom[b]:
                dom[b] = new
                changed = True
    return dom


class Crate:
    def __init__(self, header, file):
        self.header = header
        self.name = header["crate"]
        self.file = file
        self.adts = {a["path"]: a for a in header["adts"]}
        self.impls = header["impls"]
        self.consts = {c["path"]: c for c in header["consts"]}
        self.entries = {}     # key -> index entry


def _scan(d):
    """Summarise one function for the index: callee names, constructed ADTs, fields, fn
    mentions."""
    callees, adts, fields, mentions = set(), set(), set(), set()

    def place(p):
        for e in p.get("p", ()):
            if e[0] == "f" and e[2]:
                fields.add((e[3], e[2]))

    def operand(o):
        if o["k"] in ("copy", "move"):
            place(o["p"])
        elif o["k"] == "const" and "fn" in o:
            mentions.add(norm(o["fn"]))

    for blk in d["blocks"]:
        for s in blk["s"]:
            if s["k"] != "a":
                continue
            place(s["lhs"])
            rv = s["rv"]
            k = rv["k"]
            if k in ("use", "cast", "repeat"):
                operand(rv["o"])
            elif k == "un":
                operand(rv["a"])
            elif k == "bin":
                operand(rv["a"]); operand(rv["b"])
            elif k in ("ref", "rawptr", "discr"):
                place(rv["p"])
            elif k == "agg":
                if rv["ak"] == "adt":
                    adts.add(rv["adt"])
                for o in rv["ops"]:
                    operand(o)
        t = blk["t"]
        if t["k"] in ("call", "tailcall"):
            if t.get("callee"):
                callees.add(norm(t["callee"]))
            if t.get("resolved"):
                callees.add(norm(t["resolved"]))
            for a in t["args"]:
                operand(a)
        elif t["k"] == "drop":
            place(t["p"])
        elif t["k"] == "switch":
            operand(t["d"])
    return frozenset(callees), frozenset(adts), frozenset(fields), frozenset(mentions)


def build_index(facts_dir):
    """Parse every fact file once and write <facts_dir>/index.pkl."""
    import pickle
    idx = {}
    for fname in sorted(os.listdir(facts_dir)):
        if not fname.endswith(".jsonl"):
            continue
        path = os.path.join(facts_dir, fname)
        header = None
        entries = []
        with open(path, "rb") as fh:
            off = 0
            for line in fh:
                ln = len(line)
                d = json.loads(line)
                if d.get("header"):
                    header = d
                else:
                    c, a, fl, m = _scan(d)
                    entries.append((d["path"], off, ln, c, a, fl, m, d["derived"]))
                off += ln
        if header is None or header["functions"] != len(entries):
            raise RuntimeError("fact file incomplete: %s" % path)
        idx[fname] = (header, entries)
    with open(os.path.join(facts_dir, "index.pkl.tmp"), "wb") as fh:
        pickle.dump(idx, fh, protocol=4)
    os.replace(os.path.join(facts_dir, "index.pkl.tmp"), os.path.join(facts_dir, "index.pkl"))
    return idx


class Facts:
    """Facts of one extraction (one cargo configuration).  Functions are parsed lazily;
    an index (callees, constructed ADTs, fields touched per function) lets the who-calls /
    who-constructs / who-writes queries parse only the candidates."""

    def __init__(self, facts_dir, crates=None, tag="rlib-lib"):
        import pickle
        self.dir = facts_dir
        self.crates = {}
        self.entries = {}      # key -> (crate, file, entry)
        self.by_norm = {}      # npath -> [key]
        self._fn = {}
        self._fh = {}
        self.parsed = 0
        ip = os.path.join(facts_dir, "index.pkl")
        if not os.path.exists(ip):
            build_index(facts_dir)
        with open(ip, "rb") as fh:
            idx = pickle.load(fh)
        for fname, (header, entries) in sorted(idx.items()):
            cname = header["crate"]
            if crates is not None and cname not in crates:
                continue
            if tag and ("-%s" % tag) not in fname:
                continue
            path = os.path.join(facts_dir, fname)
            c = Crate(header, path)
            self.crates[c.name] = c
            for e in entries:
                key = e[0]
                n = 1
                while key in self.entries:   # macro-generated local items may share a path
                    n += 1
                    key = "%s#%d" % (e[0], n)
                self.entries[key] = (cname, path, e)
                c.entries[key] = e
                self.by_norm.setdefault(norm(e[0]), []).append(key)

    def _get(self, key):
        f = self._fn.get(key)
        if f is None:
            cname, path, e = self.entries[key]
            fh = self._fh.get(path)
            if fh is None:
                fh = open(path, "rb")
                self._fh[path] = fh
            fh.seek(e[1])
            d = json.loads(fh.read(e[2]))
            f = Fn(d, cname)
            self._fn[key] = f
            self.parsed += 1
        return f

    @property
    def fns(self):
        return {k: self._get(k) for k in self.entries}

    # ------------------------------------------------------------ lookup
    def fn(self, npath):
        """Exactly one function with this normalised path, else KeyError."""
        ks = self.by_norm.get(npath, [])
        if len(ks) != 1:
            raise KeyError("%s: %d matches" % (npath, len(ks)))
        return self._get(ks[0])

    def has_fn(self, npath):
        return len(self.by_norm.get(npath, [])) >= 1

    def fns_named(self, npath):
        return [self._get(k) for k in self.by_norm.get(npath, [])]

    def find(self, regex):
        r = re.compile(regex)
        return [self._get(k) for n, ks in self.by_norm.items() if r.search(n) for k in ks]

    def tree(self, f):
        """The closure tree of a source-level function: f and every nested closure /
        async body (their def path extends f's path with {closure#N} segments)."""
        prefix = f.path + "::{closure#"
        out = [f]
        for k in self.crates[f.crate].entries:
            if k.startswith(prefix):
                out.append(self._get(k))
        return out

    def tree_of(self, npath):
        fs = self.fns_named(npath)
        if not fs:
            raise KeyError("%s: no such function" % npath)
        out = []
        for f in fs:
            out.extend(self.tree(f))
        return out

    def adt(self, path):
        for c in self.crates.values():
            if path in c.adts:
                return c.adts[path]
        raise KeyError(path)

    def const(self, path):
        for c in self.crates.values():
            if path in c.consts:
                return c.consts[path]
        raise KeyError(path)

    def impls_of(self, adt=None, trait_path=None):
        out = []
        for c in self.crates.values():
            for i in c.impls:
                if adt is not None and i["adt"] != adt:
                    continue
                if trait_path is not None and i["trait_path"] != trait_path:
                    continue
                out.append(i)
        return out

    def all_fns(self, crates=None, include_derived=False, callee=None, callee_regex=None,
                adt=None, field=None, mention=None):
        """Iterate functions; the optional filters use the index so that only candidate
        bodies are parsed."""
        rx = re.compile(callee_regex) if callee_regex else None
        for key, (cname, path, e) in self.entries.items():
            if crates is not None and cname not in crates:
                continue
            if e[7] and not include_derived:
                continue
            ok = True
            if callee is not None or rx is not None or mention is not None:
                ok = False
                if callee is not None and (e[3] & callee or (mention and e[6] & callee)):
                    ok = True
                if not ok and rx is not None and (any(rx.search(n) for n in e[3]) or (mention and any(rx.search(n) for n in e[6]))):
                    ok = True
            if ok and adt is not None and adt not in e[4]:
                ok = False
            if ok and field is not None and field not in e[5]:
                ok = False
            if ok:
                yield self._get(key)


# ---------------------------------------------------------------- operand / place helpers

def op_local(op):
    """Local of a copy/move operand without projection, else None."""
    if op and op["k"] in ("copy", "move") and not op["p"].get("p"):
        return op["p"]["l"]
    return None


def op_base(op):
    """Base local of a copy/move operand (any projection), else None."""
    if op and op["k"] in ("copy", "move"):
        return op["p"]["l"]
    return None


def place_fields(pl):
    """List of (name, owner) of field projections in a place."""
    return [(e[2], e[3]) for e in pl.get("p", []) if e[0] == "f"]


def callee_names(t):
    """Normalised names a call terminator may be matched by: generic callee path and, when
    a trait call was resolved to an impl, the impl method path."""
    out = []
    if t.get("callee"):
        out.append(norm(t["callee"]))
    if t.get("resolved"):
        out.append(norm(t["resolved"]))
    return out


def is_call_to(t, *names):
    if t["k"] not in ("call", "tailcall"):
        return False
    cn = callee_names(t)
    for n in names:
        if n in cn:
            return True
    return False


def call_matches(t, regex):
    if t["k"] not in ("call", "tailcall"):
        return False
    for n in callee_names(t):
        if re.search(regex, n):
            return True
    return False
