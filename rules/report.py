"""Collects obligations / violations of one property check and writes the evidence file."""
import json, os, time, sys

ROOT = os.path.dirname(os.path.dirname(os.path.abspath(__file__)))


class AnchorMissing(Exception):
    pass


class Report:
    def __init__(self, pid, tier, seed=0):
        self.pid = pid
        self.tier = tier
        self.seed = seed
        self.t0 = time.time()
        self.obligations = []     # (rule, site, ok, detail, key)
        self.notes = []
        self.functions = set()
        self.call_sites = 0
        self.floors = []
        self.clauses = []
        self.not_decided = []
        self.assumptions = []
        self.configurations = []
        self.extra = {}

    # -------------------------------------------------------------- recording
    def fn(self, f):
        self.functions.add(f.path)
        return f

    def ob(self, rule, ok, site, detail="", key=None):
        """One obligation.  `site` is human readable (file:line fn); `key` identifies the
        obligation without line numbers (used for known-finding suppression)."""
        if key is None:
            key = site
        self.obligations.append((rule, site, bool(ok), detail, "%s|%s" % (rule, key)))
        return bool(ok)

    def missing(self, rule, what):
        self.obligations.append((rule, what, False, "anchor-missing: " + what,
                                 "%s|anchor-missing|%s" % (rule, what)))

    def floor(self, rule, name, count, minimum):
        ok = count >= minimum
        self.floors.append({"rule": rule, "what": name, "count": count, "floor": minimum})
        if not ok:
            self.obligations.append((rule, name, False,
                                     "instance count %d below hand-confirmed floor %d (rule would pass vacuously)" % (count, minimum),
                                     "%s|floor|%s" % (rule, name)))
        return ok

    def exact(self, rule, name, count, expected):
        ok = count == expected
        self.floors.append({"rule": rule, "what": name, "count": count, "expected": expected})
        if not ok:
            self.obligations.append((rule, name, False, "instance count %d != expected %d" % (count, expected),
                                     "%s|count|%s" % (rule, name)))
        return ok

    def note(self, text):
        self.notes.append(text)

    def clause(self, text):
        self.clauses.append(text)

    def undecided(self, text):
        self.not_decided.append(text)

    def assume(self, text):
        self.assumptions.append(text)

    # -------------------------------------------------------------- output
    def violations(self):
        return [o for o in self.obligations if not o[2]]

    def finalize(self, known, fact_info):
        viol = self.violations()
        known_keys = {k: txt for (p, k, txt) in known if p == self.pid}
        new = [v for v in viol if v[4] not in known_keys]
        kn = [v for v in viol if v[4] in known_keys]
        printed = set()
        for v in kn:
            if v[4] not in printed:
                printed.add(v[4])
                print("KNOWN-FINDING: property=%s %s :: %s" % (self.pid, v[4], known_keys[v[4]]))
        ev_dir = os.environ.get("VERIF_EVIDENCE_DIR") or os.path.join(ROOT, "evidence")
        os.makedirs(ev_dir, exist_ok=True)
        replay = None
        if new:
            rdir = os.path.join(ev_dir, "replay")
            os.makedirs(rdir, exist_ok=True)
            replay = os.path.join(rdir, "%s.txt" % self.pid)
            with open(replay, "w") as fh:
                for v in new:
                    fh.write("rule=%s\nsite=%s\nkey=%s\ndetail=%s\n\n" % (v[0], v[1], v[4], v[3]))
            for v in new:
                print("  violated: [%s] %s :: %s (key=%s)" % (v[0], v[1], v[3], v[4]))
            print("VIOLATION property=%s replay=%s" % (self.pid, replay))
        n_ob = len(self.obligations)
        n_ok = len([o for o in self.obligations if o[2]])
        samples = []
        for o in self.obligations[:60]:
            samples.append("%s -- %s -- %s%s" % (o[1], o[0], "holds" if o[2] else "VIOLATED", (" -- " + o[3]) if o[3] else ""))
        expl = "Static verdict on named structural clauses (not a proof of the behavioural statement). "
        expl += "Decided: " + " | ".join(self.clauses) if self.clauses else expl
        if self.not_decided:
            expl += "  NOT decided: " + " | ".join(self.not_decided)
        ev = {
            "property_id": self.pid,
            "tier": self.tier,
            "seed": self.seed,
            "level": "other",
            "coverage": {
                "explanation": expl,
                "obligations": n_ob,
                "discharged": n_ok,
                "evaluations": max(n_ob, 1),
                "distinct_nontrivial": max(len({o[4] for o in self.obligations}), 0),
                "rule": "each obligation is one rule instance (rule, function, site) evaluated on the MIR facts of the current tree; distinct = distinct instance keys",
                "samples": samples or ["(no obligations)"],
                "functions_analysed": sorted(self.functions),
                "n_functions_analysed": len(self.functions),
                "floors": self.floors,
                "notes": self.notes,
                "known_findings_matched": [v[4] for v in kn],
                "configurations": fact_info.get("configurations", []),
                "fact_hash": fact_info.get("hash"),
                "facts_functions_total": fact_info.get("functions_total"),
                "exhaustive": True,
            },
            "assumptions": self.assumptions + [
                "rustc type checking / MIR construction / callee resolution of the installed nightly are trusted",
                "external crates meet their documented contracts; analysis stops at the workspace boundary",
                "cfg(wasm_browser) code is not analysed (no wasm target installed)",
            ],
            "wall_s": round(time.time() - self.t0 + fact_info.get("extract_s", 0.0), 3),
            "violations": len(new),
        }
        ev["coverage"].update(self.extra)
        with open(os.path.join(ev_dir, "%s.json" % self.pid), "w") as fh:
            json.dump(ev, fh, indent=1)
        print("%s: %d obligations, %d discharged, %d known findings, %d new violations, %d functions analysed"
              % (self.pid, n_ob, n_ok, len(kn), len(new), len(self.functions)))
        return 1 if new else 0


def load_known(path=None):
    path = path or os.path.join(ROOT, "known_findings.txt")
    out = []
    if not os.path.exists(path):
        return out
    for line in open(path):
        line = line.strip()
        if not line.startswith("finding:"):
            continue
        # finding: property=Cxx key=<key> :: <text>
        rest = line[len("finding:"):].strip()
        try:
            p, rest = rest.split(" ", 1)
            pid = p.split("=", 1)[1]
            assert rest.startswith("key=")
            key, _, txt = rest[4:].partition(" :: ")
            out.append((pid, key.strip(), txt.strip()))
        except Exception:
            raise RuntimeError("malformed known_findings line: " + line)
    return out
