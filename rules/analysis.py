"""Generic analyses over MIR facts: def-use / derives-from, success tests (adapter table),
await outputs, constructor sites, field accesses, call graph."""
import re
from .facts import norm, op_local, op_base, callee_names, is_call_to, call_matches

# ------------------------------------------------------------------------------------------
# def-use, derives-from
# ------------------------------------------------------------------------------------------


def _rv_operands(rv):
    k = rv["k"]
    if k in ("use", "cast", "repeat"):
        return [rv["o"]]
    if k == "un":
        return [rv["a"]]
    if k == "bin":
        return [rv["a"], rv["b"]]
    if k == "agg":
        return list(rv["ops"])
    if k in ("ref", "rawptr", "discr"):
        return [{"k": "copy", "p": rv["p"]}]
    return []


class DefUse:
    """Flow-insensitive dependency relation between locals of one body."""

    def __init__(self, f):
        self.f = f
        n = len(f.locals)
        self.deps = [set() for _ in range(n)]       # local -> locals it derives from
        self.origins = [[] for _ in range(n)]        # local -> list of origin facts
        self.ref_of = {}                             # local -> local it is a reference to
        reach = f.reachable(0)
        for b in sorted(reach):
            blk = f.blocks[b]
            for i, s in enumerate(blk["s"]):
                if s["k"] != "a":
                    continue
                lhs = s["lhs"]
                rv = s["rv"]
                tgt = [lhs["l"]]
                # write through a reference: also flows into the referent
                if lhs.get("p") and lhs["p"][0][0] == "deref" and lhs["l"] in self.ref_of:
                    tgt.append(self.ref_of[lhs["l"]])
                # index projections on the lhs are uses
                for o in _rv_operands(rv):
                    self._flow(o, tgt, ("stmt", b, i))
                if rv["k"] == "ref" and not lhs.get("p"):
                    base = rv["p"]["l"]
                    projs = rv["p"].get("p", [])
                    if not projs:
                        self.ref_of[lhs["l"]] = base
                    elif all(e[0] == "deref" for e in projs) and len(projs) == 1:
                        # reborrow &(*r): same referent as r (r itself when it is a parameter
                        # or an otherwise opaque reference)
                        self.ref_of[lhs["l"]] = self.ref_of.get(base, base)
                if rv["k"] == "agg":
                    for t in tgt:
                        self.origins[t].append(("agg", b, i, rv))
                        for o in rv["ops"]:
                            if o["k"] == "const":
                                self.origins[t].append(("const", b, i, o))
                elif rv["k"] in ("use", "cast") and rv["o"]["k"] == "const":
                    for t in tgt:
                        self.origins[t].append(("const", b, i, rv["o"]))
                elif rv["k"] in ("bin", "un", "discr"):
                    for t in tgt:
                        self.origins[t].append((rv["k"], b, i, rv))
                        for o in _rv_operands(rv):
                            if o["k"] == "const":
                                self.origins[t].append(("const", b, i, o))
            t = blk["t"]
            if t["k"] == "call":
                d = t["dest"]["l"]
                self.origins[d].append(("call", b, None, t))
                for a in t["args"]:
                    if a["k"] == "const":
                        self.origins[d].append(("const", b, None, a))
                margs = []
                for a in t["args"]:
                    self._flow(a, [d], ("call", b, None))
                    al = op_base(a)
                    if al is not None and f.locals[al].startswith("&mut "):
                        margs.append(al)
                if t.get("callee") is None and t.get("fnop"):
                    self._flow(t["fnop"], [d], ("call", b, None))
                # callee may write through &mut arguments: they derive from the other args
                for m in margs:
                    tg = [m]
                    if m in self.ref_of:
                        tg.append(self.ref_of[m])
                    for a in t["args"]:
                        if op_base(a) == m:
                            continue
                        self._flow(a, tg, ("callmut", b, None))
                    for x in tg:
                        self.origins[x].append(("callmut", b, None, t))
            elif t["k"] == "yield":
                self._flow(t["v"], [t["resume_arg"]["l"]], ("yield", b, None))
        # propagate ref_of through moves (`_x = move _r`)
        changed = True
        it = 0
        while changed and it < 10:
            changed = False
            it += 1
            for b in sorted(reach):
                for s in f.blocks[b]["s"]:
                    if s["k"] == "a" and s["rv"]["k"] in ("use", "cast") and not s["lhs"].get("p"):
                        src = op_local(s["rv"]["o"])
                        if src is not None and src in self.ref_of and s["lhs"]["l"] not in self.ref_of:
                            self.ref_of[s["lhs"]["l"]] = self.ref_of[src]
                            changed = True
        self._closure = {}

    def _flow(self, op, targets, why):
        if op["k"] in ("copy", "move"):
            src = op["p"]["l"]
            for t in targets:
                if t != src:
                    self.deps[t].add(src)
            for e in op["p"].get("p", []):
                if e[0] == "idx":
                    for t in targets:
                        self.deps[t].add(e[1])

    def closure(self, local):
        """All locals `local` (transitively) derives from, including itself."""
        if local in self._closure:
            return self._closure[local]
        seen = set()
        stack = [local]
        while stack:
            l = stack.pop()
            if l in seen:
                continue
            seen.add(l)
            stack.extend(self.deps[l] - seen)
        self._closure[local] = seen
        return seen

    def derives_from_local(self, local, src):
        return src in self.closure(local)

    def origin_calls(self, local):
        """Call terminators whose result `local` derives from: list of (bb, term)."""
        out = []
        for l in self.closure(local):
            for o in self.origins[l]:
                if o[0] in ("call",):
                    out.append((o[1], o[3]))
        return out

    def origin_facts(self, local, kinds=None):
        out = []
        for l in self.closure(local):
            for o in self.origins[l]:
                if kinds is None or o[0] in kinds:
                    out.append((l,) + o)
        return out

    def derives_from_call(self, local, *names, regex=None):
        for b, t in self.origin_calls(local):
            if names and is_call_to(t, *names):
                return True
            if regex and call_matches(t, regex):
                return True
        return False

    def derives_from_arg(self, local, argn):
        return argn in self.closure(local)

    def field_reads(self, local):
        """(owner, field) pairs read on the way: statements in the slice whose rvalue place
        projects a named field."""
        out = set()
        f = self.f
        cl = self.closure(local)
        for b, i, s in f.stmts():
            if s["k"] != "a" or s["lhs"]["l"] not in cl:
                continue
            for o in _rv_operands(s["rv"]):
                if o["k"] in ("copy", "move"):
                    for e in o["p"].get("p", []):
                        if e[0] == "f":
                            out.add((e[3], e[2]))
        for b, t in f.calls():
            if t["k"] == "call" and t["dest"]["l"] in cl:
                for a in t["args"]:
                    if a["k"] in ("copy", "move"):
                        for e in a["p"].get("p", []):
                            if e[0] == "f":
                                out.add((e[3], e[2]))
        return out


_DU_CACHE = {}


def defuse(f):
    du = _DU_CACHE.get(id(f))
    if du is None:
        du = DefUse(f)
        _DU_CACHE[id(f)] = du
    return du


# ------------------------------------------------------------------------------------------
# success tests (adapter table, DESIGN §3.3)
# ------------------------------------------------------------------------------------------

# success discriminant value per family
_SUCCESS_DISCR = {"result": 0, "option": 1, "poll": 0, "cf": 0}
_SUCCESS_VARIANT = {"result": "Ok", "option": "Some", "poll": "Ready", "cf": "Continue"}

_SAME = [  # output success <=> / => input success, same family
    r"^core::result::Result::(map|map_err|inspect|inspect_err|as_ref|as_mut|as_deref|as_deref_mut|copied|cloned|and_then|and|map_or_else)$",
    r"^core::option::Option::(map|inspect|as_ref|as_mut|as_deref|as_deref_mut|copied|cloned|and_then|and|filter|take|as_pin_mut|as_pin_ref)$",
    r"^core::task::poll::Poll::(map|map_ok|map_err)$",
    r"^core::clone::Clone::clone$",
    r"^<core::result::Result as core::clone::Clone>::clone$",
    r"^<core::option::Option as core::clone::Clone>::clone$",
    r"^core::convert::Into::into$",
    r"^core::convert::From::from$",
]
_TO_BOOL = {"core::result::Result::is_ok": False, "core::result::Result::is_err": True,
            "core::option::Option::is_some": False, "core::option::Option::is_none": True,
            "core::task::poll::Poll::is_ready": False, "core::task::poll::Poll::is_pending": True}
_TO_OPTION = {"core::result::Result::ok": False, "core::result::Result::err": True,
              "core::option::Option::or": None}
_TO_RESULT = {"core::option::Option::ok_or": False, "core::option::Option::ok_or_else": False}
_FUTURE_SAME = [r"^core::future::into_future::IntoFuture::into_future$",
                r"^core::pin::Pin::new_unchecked$", r"^core::pin::Pin::new$",
                r"^tracing::instrument::Instrument::(instrument|in_current_span)$",
                r"^core::pin::Pin::as_mut$", r"^alloc::boxed::Box::pin$"]


def family_of_type(ty):
    ty = ty.lstrip("&").replace("mut ", "", 1) if ty.startswith("&") else ty
    if ty.startswith("core::result::Result<"):
        return "result"
    if ty.startswith("core::option::Option<"):
        return "option"
    if ty.startswith("core::task::poll::Poll<"):
        return "poll"
    if ty.startswith("core::ops::control_flow::ControlFlow<"):
        return "cf"
    if ty == "bool":
        return "bool"
    return None


def _payload_type(ty):
    """First generic argument of Option<T> / Result<T,E> / Poll<T> / ControlFlow<B,C> (C)."""
    t = ty
    while t.startswith("&"):
        t = t[1:]
        if t.startswith("mut "):
            t = t[4:]
    i = t.find("<")
    if i < 0:
        return None
    depth = 0
    args, cur = [], []
    for c in t[i:]:
        if c == "<":
            depth += 1
            if depth == 1:
                continue
        elif c == ">":
            depth -= 1
            if depth == 0:
                break
        elif c == "," and depth == 1:
            args.append("".join(cur).strip())
            cur = []
            continue
        cur.append(c)
    if cur:
        args.append("".join(cur).strip())
    if not args:
        return None
    if t.startswith("core::ops::control_flow::ControlFlow<"):
        return args[-1]
    return args[0]


class Test:
    __slots__ = ("bb", "success", "failure", "level", "family", "neg", "local")

    def __init__(self, bb, success, failure, level, family, neg, local):
        self.bb = bb
        self.success = success     # list of (bb, target) edges taken on success
        self.failure = failure
        self.level = level
        self.family = family
        self.neg = neg
        self.local = local

    def __repr__(self):
        return "Test(bb%d %s%s L%d ok->%s)" % (self.bb, "!" if self.neg else "", self.family,
                                               self.level, [t for _, t in self.success])


def switch_edges(f, bb, success_value):
    """Split the out-edges of a switchInt into (edges taken when value == success_value,
    other edges)."""
    t = f.blocks[bb]["t"]
    explicit = {int(v): tb for v, tb in t["targets"]}
    succ, fail = [], []
    if success_value in explicit:
        succ.append((bb, explicit[success_value]))
        for v, tb in explicit.items():
            if v != success_value:
                fail.append((bb, tb))
        fail.append((bb, t["otherwise"]))
    else:
        succ.append((bb, t["otherwise"]))
        for v, tb in explicit.items():
            fail.append((bb, tb))
    # an edge that is both (same target) cannot discriminate
    st = {e for e in succ}
    fail = [e for e in fail if e not in st or True]
    return succ, fail


def value_tests(f, start_locals, family=None, enum_success=None, follow_await=True, max_level=3):
    """Forward-propagate from `start_locals` (locals holding the value under test) through
    the adapter table and collect every switchInt that tests it.

    family: 'result' | 'option' | 'bool' | 'poll' | 'cf' | 'enum' | 'future' | None (by type)
    enum_success: for family 'enum', the set of discriminant values that mean success.
    Returns (tests, values) where values maps local -> (family, neg, level).
    """
    tags = {}
    work = []

    def tag(l, fam, neg, level):
        if fam is None or level > max_level:
            return
        key = (fam, neg, level)
        if l in tags:
            return
        tags[l] = key
        work.append(l)

    for l in start_locals:
        fam = family or family_of_type(f.locals[l])
        if fam is None and follow_await:
            fam = "future"
        tag(l, fam, False, 0)

    reach = f.reachable(0)
    stmts = [(b, i, s) for b in sorted(reach) for i, s in enumerate(f.blocks[b]["s"]) if s["k"] == "a"]
    calls = [(b, f.blocks[b]["t"]) for b in sorted(reach) if f.blocks[b]["t"]["k"] == "call"]

    def resolve(pl):
        """place -> (tagged local, kind) where kind in plain|deref|payload"""
        l = pl["l"]
        pr = pl.get("p", [])
        if l not in tags:
            return None
        rest = [e for e in pr if e[0] != "deref"]
        if not rest:
            return (l, "plain")
        fam, neg, level = tags[l]
        if fam.startswith("discr:"):
            return None
        # (L as Variant).0
        if len(rest) == 2 and rest[0][0] == "dc" and rest[1][0] == "f":
            vname = rest[0][2]
            if fam in _SUCCESS_VARIANT:
                ok = (vname == _SUCCESS_VARIANT[fam]) != neg
                if ok and rest[1][1] == 0:
                    return (l, "payload")
            return None
        return None

    while work:
        cur = work.pop()
        fam, neg, level = tags[cur]
        for b, i, s in stmts:
            rv = s["rv"]
            lhs = s["lhs"]
            if lhs.get("p"):
                continue
            x = lhs["l"]
            if rv["k"] == "use" and rv["o"]["k"] in ("copy", "move"):
                r = resolve(rv["o"]["p"])
                if r and r[0] == cur:
                    if r[1] == "plain":
                        tag(x, fam, neg, level)
                    elif r[1] == "payload":
                        nf = family_of_type(f.locals[x])
                        if fam == "poll" and level < 0:
                            pass
                        if nf:
                            # awaited poll: output stays on the same level
                            tag(x, nf, False, level if fam == "apoll" else level + 1)
                        elif fam == "apoll":
                            tag(x, "future", False, level)
            elif rv["k"] == "ref":
                r = resolve(rv["p"])
                if r and r[0] == cur:
                    if r[1] == "plain":
                        tag(x, fam, neg, level)
                    elif r[1] == "payload":
                        nf = family_of_type(f.locals[x])
                        if nf:
                            tag(x, nf, False, level if fam == "apoll" else level + 1)
            elif rv["k"] == "discr":
                r = resolve(rv["p"])
                if r and r[0] == cur and r[1] == "plain" and not fam.startswith("discr:"):
                    tag(x, "discr:" + fam, neg, level)
                elif r and r[0] == cur and r[1] == "payload":
                    # discriminant((V as Some).0): test of the nested value
                    pt = _payload_type(f.locals[cur])
                    nf = family_of_type(pt) if pt else None
                    if nf and nf != "bool":
                        tag(x, "discr:" + nf, False, level if fam == "apoll" else level + 1)
            elif rv["k"] == "un" and rv["op"] == "Not":
                if op_local(rv["a"]) == cur and fam == "bool":
                    tag(x, "bool", not neg, level)
            elif rv["k"] == "cast" and rv["o"]["k"] in ("copy", "move"):
                # unsizing / pointer coercions keep identity
                if op_local(rv["o"]) == cur and fam in ("future",):
                    tag(x, fam, neg, level)
        for b, t in calls:
            args = t["args"]
            if not args:
                continue
            a0 = op_local(args[0])
            if a0 != cur:
                # a later argument carrying the value (e.g. timeout(d, fut))
                if fam == "future" and any(op_local(a) == cur for a in args):
                    names = callee_names(t)
                    # not transparent in general; handled by rules explicitly
                continue
            d = t["dest"]
            if d.get("p"):
                continue
            x = d["l"]
            names = callee_names(t)
            n0 = names[0] if names else ""
            if fam == "future":
                if any(re.search(r, n) for r in _FUTURE_SAME for n in names):
                    tag(x, "future", False, level)
                elif n0 == "core::future::future::Future::poll":
                    tag(x, "apoll", False, level)
                continue
            if fam.startswith("discr:") or fam == "apoll":
                continue
            if n0 == "core::ops::try_trait::Try::branch":
                tag(x, "cf", neg, level)
                # Poll<Result<..>>::branch (ready!-less `?` on Poll) is not used in the repo
            elif n0 in _TO_BOOL:
                tag(x, "bool", neg != _TO_BOOL[n0], level)
            elif n0 in _TO_OPTION and _TO_OPTION[n0] is not None:
                tag(x, "option", neg != _TO_OPTION[n0], level)
            elif n0 in _TO_RESULT:
                tag(x, "result", neg, level)
            elif any(re.search(r, n) for r in _SAME for n in names):
                nf = family_of_type(f.locals[x])
                if nf == fam:
                    tag(x, fam, neg, level)
            elif n0.startswith("n0_error::") and family_of_type(f.locals[x]) == "result" and fam in ("result", "option"):
                # n0_error context adapters: output Ok => input Ok/Some
                tag(x, "result", neg, level)
            elif fam == "bool" and n0 in ("core::bool::then_some", "core::bool::then"):
                tag(x, "option", neg, level)

    tests = []
    for b in sorted(reach):
        t = f.blocks[b]["t"]
        if t["k"] != "switch":
            continue
        l = op_local(t["d"])
        if l is None or l not in tags:
            continue
        fam, neg, level = tags[l]
        if fam == "bool":
            sv = 0 if neg else 1
            s, fl = switch_edges(f, b, sv)
        elif fam.startswith("discr:"):
            base = fam[6:]
            if base == "apoll":
                continue
            if base == "enum":
                succ, fail = [], []
                explicit = {int(v): tb for v, tb in t["targets"]}
                for v, tb in explicit.items():
                    (succ if v in enum_success else fail).append((b, tb))
                # otherwise edge: success iff some success value is not explicit
                if any(v not in explicit for v in enum_success):
                    succ.append((b, t["otherwise"]))
                else:
                    fail.append((b, t["otherwise"]))
                s, fl = succ, fail
            else:
                if base not in _SUCCESS_DISCR:
                    continue
                sv = _SUCCESS_DISCR[base]
                s, fl = switch_edges(f, b, sv)
                if neg:
                    s, fl = fl, s
        else:
            continue
        tests.append(Test(b, s, fl, level, fam, neg, l))
    return tests, tags


def await_output(f, fut_local):
    """Locals holding the output of awaiting the future stored in `fut_local`."""
    tests, tags = value_tests(f, [fut_local], family="future")
    outs = []
    for l, (fam, neg, level) in tags.items():
        if fam == "apoll":
            # payload extraction sites
            for b, i, s in f.stmts():
                if s["k"] != "a" or s["lhs"].get("p"):
                    continue
                rv = s["rv"]
                if rv["k"] == "use" and rv["o"]["k"] in ("copy", "move"):
                    p = rv["o"]["p"]
                    pr = [e for e in p.get("p", []) if e[0] != "deref"]
                    if p["l"] == l and len(pr) == 2 and pr[0][0] == "dc" and pr[0][2] == "Ready":
                        outs.append(s["lhs"]["l"])
    return outs


def call_result_tests(f, call_bb, family=None, enum_success=None, awaited=None):
    """Tests of the result of the call in block `call_bb`.  If the call returns a future
    that is awaited, the tests are those of the awaited output."""
    t = f.blocks[call_bb]["t"]
    d = t["dest"]["l"]
    fam = family_of_type(f.locals[d])
    if (awaited is True) or (awaited is None and fam is None and family not in ("bool", "enum")):
        outs = await_output(f, d)
        if outs:
            return value_tests(f, outs, family=family, enum_success=enum_success)
        if awaited:
            return [], {}
    if family == "enum":
        # enum family: discriminant switch on the value
        tests, tags = value_tests(f, [d], family="enum", enum_success=enum_success)
        return tests, tags
    return value_tests(f, [d], family=family, enum_success=enum_success)


_FLAG_CACHE = {}


def flag_locals(f):
    """Bool locals that are only ever assigned literal true/false (materialised conditions,
    e.g. the result local of `matches!` or `a && b`) -> {local: {bb: value}}."""
    c = _FLAG_CACHE.get(id(f))
    if c is not None:
        return c
    assigns = {}
    bad = set()
    for b, i, s in f.stmts():
        if s["k"] != "a":
            continue
        l = s["lhs"]["l"]
        if s["lhs"].get("p"):
            bad.add(l)
            continue
        rv = s["rv"]
        if f.locals[l] == "bool" and rv["k"] == "use" and rv["o"]["k"] == "const" and rv["o"].get("v") in ("true", "false"):
            assigns.setdefault(l, {})[b] = 1 if rv["o"]["v"] == "true" else 0
        elif f.locals[l] == "bool" and rv["k"] == "use" and rv["o"]["k"] in ("copy", "move") and not rv["o"]["p"].get("p") and f.locals[rv["o"]["p"]["l"]] == "bool":
            # alias of another flag (e.g. the return slot of an inlined predicate helper)
            assigns.setdefault(l, {})[b] = ("alias", rv["o"]["p"]["l"])
        else:
            bad.add(l)
    for b, t in f.calls():
        if t["k"] == "call":
            bad.add(t["dest"]["l"])
    used = set()
    for b in f.reachable(0):
        t = f.blocks[b]["t"]
        if t["k"] == "switch" and op_local(t["d"]) is not None:
            used.add(op_local(t["d"]))
    def ok(l, seen=()):
        if l in bad or l not in assigns or l <= f.argc or l in seen:
            return False
        return all(not isinstance(v, tuple) or ok(v[1], seen + (l,)) for v in assigns[l].values())
    aliased = {v[1] for m in assigns.values() for v in m.values() if isinstance(v, tuple)}
    out = {l: m for l, m in assigns.items() if ok(l) and (l in used or l in aliased)}
    _FLAG_CACHE[id(f)] = out
    return out


_TAG_DISCR = {"Ok": 0, "Err": 1, "None": 0, "Some": 1, "Continue": 0, "Break": 1, "Ready": 0, "Pending": 1}
_TAGGED_ADTS = ("core::result::Result", "core::option::Option", "core::ops::control_flow::ControlFlow")
_PS_CACHE = {}


def _ps_untracked(f):
    """locals whose address is taken mutably or that are written through projections: never
    tracked by the path-sensitive reachability (they can change behind our back)"""
    c = _PS_CACHE.get(id(f))
    if c is not None:
        return c
    bad = set()
    for b, i, s in f.stmts():
        if s["k"] != "a":
            continue
        rv = s["rv"]
        if rv["k"] == "ref" and rv.get("mut") and not rv["p"].get("p"):
            bad.add(rv["p"]["l"])
        if rv["k"] == "addr" and not rv.get("p", {}).get("p"):
            bad.add(rv.get("p", {}).get("l"))
        if s["lhs"].get("p"):
            bad.add(s["lhs"]["l"])
    for b, t in f.calls():
        if t["dest"].get("p"):
            bad.add(t["dest"]["l"])
    _PS_CACHE[id(f)] = bad
    return bad


def reachable_fs(f, starts, removed_edges=()):
    """Path-sensitive reachability over a tiny abstract domain.  Along each path the exact
    value of a local is tracked when it is (a) a literal bool, (b) a Result / Option /
    ControlFlow aggregate's variant tag, (c) a plain copy / move / `!` of such a local,
    (d) `Try::branch` of a tagged Result/Option, (e) `discriminant(..)` of a tagged local.
    A switch on a local whose value is known follows only the matching edge; everything
    else stays non-deterministic, so the result is a sound refinement (never smaller than
    the set of feasible blocks) of plain CFG reachability.  This is what makes
    `matches!`-materialised flags, `a && b`, predicate helpers and `check(..)?` helpers in
    the inlined view analysable without enumerating paths."""
    removed_edges = set(removed_edges)
    untracked = _ps_untracked(f)
    seen = set()
    out = set()
    starts = [starts] if isinstance(starts, int) else list(starts)
    stack = [(s, frozenset()) for s in starts]
    nstates = 0
    while stack:
        b, st = stack.pop()
        if (b, st) in seen:
            continue
        seen.add((b, st))
        nstates += 1
        if nstates > 200000:
            return f.reachable(starts, removed_edges)
        out.add(b)
        d = dict(st)
        blk = f.blocks[b]
        for s in blk["s"]:
            if s["k"] != "a":
                continue
            lhs = s["lhs"]
            l = lhs["l"]
            if lhs.get("p"):
                d.pop(l, None)
                continue
            rv = s["rv"]
            v = None
            k = rv["k"]
            if l not in untracked:
                if k == "use":
                    o = rv["o"]
                    if o["k"] == "const":
                        cv = o.get("v")
                        if cv == "true":
                            v = ("b", 1)
                        elif cv == "false":
                            v = ("b", 0)
                    elif not o["p"].get("p"):
                        v = d.get(o["p"]["l"])
                elif k == "agg" and rv.get("ak") == "adt" and rv.get("adt") in _TAGGED_ADTS and rv.get("variant") in _TAG_DISCR:
                    v = ("t", rv["variant"])
                elif k == "un" and rv.get("op") == "Not" and rv["a"]["k"] != "const" and not rv["a"]["p"].get("p"):
                    x = d.get(rv["a"]["p"]["l"])
                    if x is not None and x[0] == "b":
                        v = ("b", 1 - x[1])
                elif k == "discr" and not rv["p"].get("p"):
                    x = d.get(rv["p"]["l"])
                    if x is not None and x[0] == "t":
                        v = ("i", _TAG_DISCR[x[1]])
            if v is None:
                d.pop(l, None)
            else:
                d[l] = v
        t = blk["t"]
        succs = f.succs()[b]
        if t["k"] == "call":
            dl = t["dest"]["l"]
            nv = None
            if not t["dest"].get("p") and dl not in untracked and t["args"]:
                n0 = t.get("resolved") or t["callee"]
                a0 = t["args"][0]
                if a0["k"] in ("copy", "move") and not a0["p"].get("p"):
                    x = d.get(a0["p"]["l"])
                    if x is not None and x[0] == "t" and ("Try>::branch" in n0 or n0.endswith("Try::branch")):
                        if x[1] in ("Ok", "Some", "Continue"):
                            nv = ("t", "Continue")
                        elif x[1] in ("Err", "None", "Break"):
                            nv = ("t", "Break")
            if nv is None:
                d.pop(dl, None)
            else:
                d[dl] = nv
            # a moved-out argument no longer holds its value
        elif t["k"] == "switch":
            l = op_local(t["d"])
            x = d.get(l) if l is not None else None
            if x is not None and x[0] in ("b", "i"):
                explicit = {int(v): tb for v, tb in t["targets"]}
                succs = [explicit.get(x[1], t["otherwise"])]
        nst = frozenset(d.items())
        for s2 in succs:
            if (b, s2) in removed_edges:
                continue
            stack.append((s2, nst))
    return out


def requires(f, site_bb, tests, levels=None):
    """True iff `site_bb` is unreachable from entry once the success edges of `tests` are
    removed - per level (all listed levels must individually guard the site)."""
    if not tests:
        return False
    by_level = {}
    for t in tests:
        by_level.setdefault(t.level, []).append(t)
    lv = levels if levels is not None else sorted(by_level)
    for level in lv:
        ts = by_level.get(level, [])
        if not ts:
            return False
        removed = set()
        for t in ts:
            removed.update(t.success)
        if site_bb in reachable_fs(f, 0, removed_edges=removed):
            return False
    return True


def requires_failure(f, site_bb, tests):
    """Site only reachable through a failure edge of one of the tests (any level)."""
    if not tests:
        return False
    removed = set()
    for t in tests:
        removed.update(t.failure)
    return site_bb not in reachable_fs(f, 0, removed_edges=removed)


# ------------------------------------------------------------------------------------------
# constructor sites, field accesses, call graph
# ------------------------------------------------------------------------------------------

def ctor_sites(F, adt, variant=None, crates=None, include_derived=False):
    """All `Aggregate(Adt adt[, variant])` statements: list of (fn, bb, idx, rvalue)."""
    out = []
    for f in F.all_fns(crates, include_derived, adt=adt):
        for b, i, s in f.stmts():
            if s["k"] == "a" and s["rv"]["k"] == "agg" and s["rv"]["ak"] == "adt" and s["rv"]["adt"] == adt:
                if variant is None or s["rv"]["variant"] == variant:
                    out.append((f, b, i, s["rv"]))
    return out


def call_sites(F, *names, regex=None, crates=None, include_mentions=True):
    """All calls to (normalised) callee names: list of (fn, bb, term, kind)."""
    out = []
    for f in F.all_fns(crates, include_derived=True, callee=frozenset(names) if names else None, callee_regex=regex, mention=include_mentions):
        for b, t in f.calls():
            if (names and is_call_to(t, *names)) or (regex and call_matches(t, regex)):
                out.append((f, b, t, "call"))
        if include_mentions:
            # function items used as values (callbacks)
            for b, i, s in f.stmts():
                if s["k"] != "a":
                    continue
                for o in _rv_operands(s["rv"]):
                    if o["k"] == "const" and "fn" in o:
                        n = norm(o["fn"])
                        if (names and n in names) or (regex and re.search(regex, n)):
                            out.append((f, b, s, "mention"))
            for b, t in f.calls():
                for o in t["args"]:
                    if o["k"] == "const" and "fn" in o:
                        n = norm(o["fn"])
                        if (names and n in names) or (regex and re.search(regex, n)):
                            out.append((f, b, t, "mention"))
    return out


def source_fn(F, f):
    """The source-level function a (possibly nested closure) body belongs to."""
    p = f.path
    while "::{closure#" in p:
        p = p[:p.rindex("::{closure#")]
    return norm(p)


def field_accesses(F, owner, field, crates=None):
    """Every statement / call argument whose place projects `owner.field`.
    Returns list of (fn, bb, idx|None, kind, obj) with kind in
    write | refmut | ref | read | move."""
    out = []

    def has(pl):
        for e in pl.get("p", []):
            if e[0] == "f" and e[2] == field and e[3] == owner:
                return True
        return False

    def ends(pl):
        pr = pl.get("p", [])
        return bool(pr) and pr[-1][0] == "f" and pr[-1][2] == field and pr[-1][3] == owner

    for f in F.all_fns(crates, field=(owner, field)):
        for b, i, s in f.stmts():
            if s["k"] != "a":
                continue
            if has(s["lhs"]):
                out.append((f, b, i, "write", s))
            rv = s["rv"]
            if rv["k"] in ("ref", "rawptr") and has(rv["p"]):
                out.append((f, b, i, "refmut" if rv["mut"] else "ref", s))
            else:
                for o in _rv_operands(rv):
                    if o["k"] in ("copy", "move") and has(o["p"]):
                        out.append((f, b, i, "move" if o["k"] == "move" else "read", s))
            if rv["k"] == "agg" and rv["ak"] == "adt" and rv["adt"] == owner.rsplit("::", 1)[0] if False else False:
                pass
        for b, t in f.calls():
            for a in t["args"]:
                if a["k"] in ("copy", "move") and has(a["p"]):
                    out.append((f, b, None, "move" if a["k"] == "move" else "read", t))
        for b in f.reachable(0):
            t = f.blocks[b]["t"]
            if t["k"] == "drop" and has(t["p"]):
                out.append((f, b, None, "drop", t))
            if t["k"] == "switch" and t["d"]["k"] in ("copy", "move") and has(t["d"]["p"]):
                out.append((f, b, None, "read", t))
    return out


def ref_consumers(f, local, max_depth=8):
    """Follow a reference local forward through moves / reborrows / Deref::deref calls and
    return the calls that finally consume it: list of (bb, term, argindex)."""
    out = []
    seen = set()
    work = [(local, 0)]
    DEREF = ("core::ops::deref::Deref::deref", "core::ops::deref::DerefMut::deref_mut",
             "core::borrow::Borrow::borrow", "core::convert::AsRef::as_ref",
             "core::convert::AsMut::as_mut", "core::borrow::BorrowMut::borrow_mut")
    while work:
        l, d = work.pop()
        if l in seen or d > max_depth:
            continue
        seen.add(l)
        for b, i, s in f.stmts():
            if s["k"] != "a" or s["lhs"].get("p"):
                continue
            rv = s["rv"]
            if rv["k"] == "use" and op_local(rv["o"]) == l:
                work.append((s["lhs"]["l"], d + 1))
            elif rv["k"] == "use" and rv["o"]["k"] in ("copy", "move") and rv["o"]["p"]["l"] == l and all(e[0] == "deref" for e in rv["o"]["p"].get("p", [])):
                work.append((s["lhs"]["l"], d + 1))
            elif rv["k"] == "ref" and rv["p"]["l"] == l and all(e[0] == "deref" for e in rv["p"].get("p", [])):
                work.append((s["lhs"]["l"], d + 1))
            elif rv["k"] == "cast" and op_local(rv["o"]) == l:
                work.append((s["lhs"]["l"], d + 1))
        for b, t in f.calls():
            if t["k"] != "call":
                continue
            for ai, a in enumerate(t["args"]):
                if op_local(a) == l:
                    if ai == 0 and any(n in DEREF for n in callee_names(t)):
                        work.append((t["dest"]["l"], d + 1))
                    else:
                        out.append((b, t, ai))
    return out


def returns_of(f):
    """Assignments to the return place `_0`: list of (bb, idx|None, rvalue-or-call)."""
    out = []
    for b, i, s in f.stmts():
        if s["k"] == "a" and s["lhs"]["l"] == 0:
            out.append((b, i, s["rv"]))
    for b, t in f.calls():
        if t["k"] == "call" and t["dest"]["l"] == 0:
            out.append((b, None, t))
    return out


def agg_shape(f, rv, depth=3):
    """Describe the aggregate tree of an rvalue: e.g. 'Poll::Ready(Result::Err(..))'."""
    if rv.get("k") == "agg" and rv.get("ak") == "adt":
        name = "%s::%s" % (rv["adt"].rsplit("::", 1)[-1], rv["variant"])
        if depth <= 0 or not rv["ops"]:
            return name
        inner = []
        for o in rv["ops"]:
            l = op_local(o)
            sub = None
            if o["k"] == "const":
                sub = str(o.get("v") or o.get("def") or "const")
            if l is not None:
                du = defuse(f)
                aggs = [x for x in du.origins[l] if x[0] == "agg"]
                if len(aggs) == 1:
                    sub = agg_shape(f, aggs[0][3], depth - 1)
            inner.append(sub or "_")
        return "%s(%s)" % (name, ",".join(inner))
    if rv.get("k") == "use":
        o = rv["o"]
        if o["k"] == "const":
            return o.get("v") or o.get("def") or "const"
        l = op_local(o)
        if l is not None:
            du = defuse(f)
            aggs = [x for x in du.origins[l] if x[0] == "agg"]
            if len(aggs) == 1 and all(x[0] in ("agg", "const") for x in du.origins[l]):
                return agg_shape(f, aggs[0][3], depth)
        return "_"
    return "_"
