#!/bin/bash
# Parallel self-regression: N workers, each with its own scratch dir, lock and cache copy
# (outside /repo and /verif, removed afterwards).  usage: tools/par_regress.sh <N> <jobfile>
# jobfile lines: "seed <name>" (must fire) or "benign <name>" (must stay quiet).
N=$1; JOBS=$2
cd /verif
for i in $(seq 1 $N); do
  W=/tmp/irohlint-w$i; mkdir -p $W
  [ -d $W/cache ] || cp -a /verif/.cache $W/cache
  awk -v n=$N -v i=$i 'NR % n == i % n' $JOBS > $W/jobs
  ( while read kind name; do
      pid=${name%%-*}
      if [ $kind = seed ]; then d=seeded/$name; [ -d $d ] || d=selftest/$name
        out=$(TMPDIR=$W VERIF_CACHE_DIR=$W/cache tools/try_scratch.sh /verif/$d/patch.diff $pid 2>&1)
        if echo "$out" | grep -q "VIOLATION property=$pid"; then echo "fires $name"; else echo "MISSED $name"; echo "$out" | tail -2 | cut -c1-200; fi
      else
        out=$(TMPDIR=$W VERIF_CACHE_DIR=$W/cache tools/try_scratch.sh /verif/benign/$name/patch.diff $pid 2>&1)
        if echo "$out" | grep -q "VIOLATION\|does not apply\|check:"; then echo "ALARM $name"; echo "$out" | grep "violated\|apply\|check:" | cut -c1-300 | head -3; else echo "quiet $name"; fi
      fi
    done < $W/jobs > $W/log 2>&1; echo "== done" >> $W/log ) &
done
wait
cat /tmp/irohlint-w*/log
