#!/bin/bash
# usage: tools/try_scratch.sh <patch.diff|-> <Cxx> [Cyy ...]
# Like try_mutant.sh but never touches /repo: the patch is applied to a scratch export of
# /repo's HEAD (outside /repo and /verif, removed afterwards) and checks run with IROH_REPO.
set -u
patch=$1; shift
S=${TMPDIR:-/tmp}/irohlint-try-scratch
exec 9>"${TMPDIR:-/tmp}/.irohlint-try.lock"; flock 9
rm -rf "$S"; mkdir -p "$S"
git -C /repo archive HEAD | tar -x -C "$S"
if [ "$patch" != "-" ]; then (cd "$S" && git apply -p1 "$patch") || { echo "try_scratch: patch does not apply"; rm -rf "$S"; exit 3; }; fi
export VERIF_EVIDENCE_DIR=$(mktemp -d)
for c in "$@"; do
  (cd /verif && IROH_REPO="$S" ./check $c 2>&1 | grep -E "VIOLATION|violated:|KNOWN|obligations|check:" )
done
rm -rf "$S" "$VERIF_EVIDENCE_DIR"
