#!/bin/bash
# For every seed: apply to a scratch export and run ALL checks; report checks other than the
# seed's own property that raise an alarm (cross-property false alarms or genuine collateral).
cd /verif
S=${TMPDIR:-/tmp}/irohlint-cross-scratch
for d in seeded/*/; do
  n=$(basename $d); own=${n%%-*}
  rm -rf "$S"; mkdir -p "$S"; git -C /repo archive HEAD | tar -x -C "$S"
  (cd "$S" && git apply -p1 /verif/$d/patch.diff) || { echo "$n: does not apply"; continue; }
  ev=$(mktemp -d)
  for i in $(seq -w 1 43); do c=C$i; [ "$c" = "$own" ] && continue
    out=$(IROH_REPO="$S" VERIF_EVIDENCE_DIR=$ev ./check $c 2>&1)
    if echo "$out" | grep -q "^VIOLATION\|^check:"; then echo "CROSS $n -> $c"; echo "$out" | grep "violated:\|check:" | head -3 | cut -c1-260; fi
  done
  rm -rf "$S" "$ev"
  echo "done $n"
done
echo "== finished"
