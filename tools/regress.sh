#!/bin/bash
# Full self-regression: quick checks on /repo, every seed must fire, every benign variant must stay quiet.
cd /verif
# optional arguments: property ids to restrict to (default: all)
ONLY=" $* "
want() { [ "$ONLY" = "  " ] || case "$ONLY" in *" $1 "*) true;; *) false;; esac; }
echo "== quick checks on /repo"
for i in $(seq -w 1 43); do c=C$i; want $c && [ -f rules/props/$c.py ] && ./check $c 2>&1 | grep -E "VIOLATION|new violations|check:" | grep -v " 0 new violations"; done
echo "== seeds (must fire)"
for d in seeded/*/ selftest/*/; do n=$(basename $d); pid=${n%%-*}; want $pid || continue; out=$(tools/try_scratch.sh /verif/$d/patch.diff $pid 2>&1); if echo "$out" | grep -q "VIOLATION property=$pid"; then echo "fires $n"; else echo "MISSED $n"; echo "$out" | tail -2 | cut -c1-200; fi; done
echo "== benign (must stay quiet)"
for d in benign/*/; do n=$(basename $d); pid=${n%%-*}; want $pid || continue; out=$(tools/try_scratch.sh /verif/$d/patch.diff $pid 2>&1); if echo "$out" | grep -q "VIOLATION\|does not apply\|check:"; then echo "ALARM $n"; echo "$out" | grep "violated\|apply\|check:" | cut -c1-300 | head -3; else echo "quiet $n"; fi; done
echo "== done"
