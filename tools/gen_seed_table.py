#!/usr/bin/env python3
"""Emit the markdown table of DESIGN.md §9 from seeded/*/meta.json and benign/*/meta.json."""
import json, os, re, glob
ROOT = os.path.dirname(os.path.dirname(os.path.abspath(__file__)))
NOTES = {
 "C16-b": "written as a second sample for C17; the clause lives in take_segments and is reported by the C16 check (C17's stays silent)",
 "C12-b": "fires through an instance count (query_pairs replaced by hand-written parsing); form-decoding is declared undecided",

 "C22-b": "initially MISSED (no clause made the stream-end arm call address_lookup_finished unconditionally); added: terminal-always-finishes",
 "C11-b": "fired first only because the parser call moved into a closure; client clause rewritten as a parsed-only source walk",
 "C18-b": "fired first for the helper extraction alone; rule rewritten as byte-range table agreement",
 "C21-b": "fired first through an instance count; list order now decided by a sequence abstraction",
 "C15-b": "initially MISSED (head start was declared undecided); added: head-start outcome function",
 "C29-b": "initially MISSED (any is_empty() was accepted); the emptiness test must be on the configured service list itself",
 "C37-b": "initially MISSED in C37 and C38; added: invalidate-unconditional (must-pass-through after an acknowledged update)",
 "C24-b": "fired first through the accumulator anchor; get_or_insert now modelled as first-wins store",
 "C27-b": "fires fail-closed (merge without update_relay); report names the mismatched map pairing",
 "C08-b": "initially MISSED (observation of the token was declared undecided); added: shutdown-arm-unconditional",

 "C03-a": "initially MISSED (over-approximate derives-from); rule strengthened with exact copy-chain provenance",
 "C09-a": "initially MISSED; added: a live update must install only a validated configuration",
 "C15-a": "initially MISSED; added: per-attempt relative timeout clause",
 "C31-a": "initially MISSED; added: sibling agreement of the UserData length bound (FromStr vs TryFrom)",
 "C33-a": "initially MISSED; added: value to install is recomputed on every retry",
 "C19-a": "initially MISSED (routing predicates were declared undecided); added relation tables + search order",
 "C24-a": "initially MISSED (ranking was declared undecided); added truth-function extraction of accumulators and decision",
 "C12-a": "caught first through anchor counts only; rule now also names the adapter that swallows the `?`",
 "C22-a": "caught first through an anchor count; rule rewritten on emptiness-test semantics",
 "C29-a": "caught through anchor counts (state representation replaced): representation-dependent, see §8.4",
 "C37-a": "caught through an exact-count anchor (more_recent_than call in the Upsert arm)",
 "C02-a": "initially MISSED (length test on a truncated `len as u8`); rule rewritten as a bound proof on the full usize length",
 "C05-b": "initially MISSED (start_shutdown moved to a shared tail also reached from the Full arm); added: Full never shuts the receiver down",
 "C08-a": "caught first only through a call-count floor; added: disconnect(None) applies start_shutdown to every connection",
 "C10-b": "initially MISSED (short batch frame reaches get_u16); added: decoder totality as a bound proof over (is_batch, length)",
 "C13-a": "reported as `U+002F accepted` by the code-point partition evaluation",
 "C16-a": "told apart from its behaviour-preserving near twin (benign C16-d): flag evaluated against the whole-batch relation",
 "C28-a": "initially MISSED (report recorded before the stickiness decision); added: recorded report must be final",
 "C36-b": "initially MISSED (query key found by searching the labels); added: key label is the one directly below the origin",
 "C38-a": "initially MISSED (dht_cache not invalidated); added: publish invalidates every cache layer resolve() reads",
 "C42-b": "caught first through an anchor count; report now names the 0-RTT paths that skip the hooks",
 "C35-a": "caught through the literal-true write count of the `yielded` flag (representation-dependent)",
 "C17-a": "caught through the anchored emptiness test on the pending batch's contents",
}
print("| seed | change (author's summary, shortened) | reported by (rule:key) | notes |")
print("|------|------|------|------|")
for d in sorted(glob.glob(os.path.join(ROOT, "seeded", "*"))):
    n = os.path.basename(d)
    m = json.load(open(os.path.join(d, "meta.json")))
    summ = re.sub(r"\s+", " ", (m.get("summary") or ""))[:150].replace("|", "/")
    rep = m.get("check", {}).get("reported", [])
    keys = []
    for v in rep:
        k = re.search(r"\(key=([^)]*)", v)
        if k:
            parts = k.group(1).split("|")
            keys.append(parts[0] + ":" + parts[-1][:40])
        else:
            mm = re.match(r"violated: \[(\w[\w-]*)\] (.*?) ::", v)
            if mm:
                keys.append(mm.group(1) + ":" + mm.group(2)[:40])
    print("| %s | %s | %s | %s |" % (n, summ, "; ".join(sorted(set(keys)))[:160] or "(see thorough tier)", NOTES.get(n, "")))
print()
print("| benign variant | what was rewritten | first run |")
print("|------|------|------|")
for d in sorted(glob.glob(os.path.join(ROOT, "benign", "*"))):
    n = os.path.basename(d)
    m = json.load(open(os.path.join(d, "meta.json")))
    summ = re.sub(r"\s+", " ", (m.get("summary") or ""))[:150].replace("|", "/")
    print("| %s | %s | %s |" % (n, summ, ("FALSE ALARM, fixed: " + m["history"].split(": ", 1)[-1][:140]) if m.get("history") else "silent"))
