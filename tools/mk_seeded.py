#!/usr/bin/env python3
"""Promote independently confirmed seeded changes from the scratch area into /verif/seeded/.
usage: tools/mk_seeded.py <pending_dir> <verify_results.jsonl> [ids...]"""
import json, os, shutil, sys, re
ROOT = os.path.dirname(os.path.dirname(os.path.abspath(__file__)))
pend, resf = sys.argv[1], sys.argv[2]
only = set(sys.argv[3:])
res = {}
for l in open(resf):
    d = json.loads(l)
    res[d["id"]] = d
for mid, r in sorted(res.items()):
    if only and mid not in only:
        continue
    if not (r["demo_applies"] and r["patch_applies"] and r["demo_pristine_pass"] and r["demo_mutant_fails"] and r["existing_pass"]):
        print("skip", mid, "(not confirmed)")
        continue
    src = os.path.join(pend, mid)
    meta = json.load(open(os.path.join(src, "meta.json")))
    prop = meta["property"]
    n = 0
    while True:
        name = "%s-%s" % (prop, "abcdefgh"[n])
        dst = os.path.join(ROOT, "seeded", name)
        if not os.path.exists(dst):
            break
        if open(os.path.join(dst, "patch.diff")).read() == open(os.path.join(src, "patch.diff")).read():
            dst = None
            break
        n += 1
    if dst is None:
        print("have", mid)
        continue
    os.makedirs(dst)
    shutil.copy(os.path.join(src, "patch.diff"), dst)
    shutil.copy(os.path.join(src, "demo.diff"), dst)
    strip = lambda s: re.sub(r"/tmp/mut/\w+", "<worktree>", s or "")
    out = {
        "property": prop,
        "summary": meta.get("summary"),
        "needs": meta.get("needs"),
        "files_touched": meta.get("files_touched"),
        "author": "fresh sub-agent given only the property text and a scratch worktree",
        "demo": "demo.diff adds a test; command: " + strip(r["demo_cmd"]),
        "confirmed_by_me": {
            "where": "scratch git worktree of /repo at HEAD (outside /repo and /verif), own target dir, removed afterwards",
            "demo_on_unchanged_tree": "passes",
            "demo_with_patch": "fails",
            "demo_failure_tail": r["demo_mutant_tail"][-400:],
            "existing_tests_cmd": r["existing_cmd"],
            "existing_tests_with_patch": "pass: " + r["existing_tail"][-300:],
            "agent_also_ran": strip(meta.get("existing_tests_cmd")),
        },
    }
    json.dump(out, open(os.path.join(dst, "meta.json"), "w"), indent=1)
    print("seeded", name)
