#!/usr/bin/env python3
"""Print the facts directory of /repo's current tree (config libs), if cached."""
import importlib.machinery, importlib.util, os, sys
ROOT = os.path.dirname(os.path.dirname(os.path.abspath(__file__)))
loader = importlib.machinery.SourceFileLoader("check_mod", os.path.join(ROOT, "check"))
spec = importlib.util.spec_from_loader("check_mod", loader)
m = importlib.util.module_from_spec(spec)
sys.argv = ["check"]
loader.exec_module(m)
d = os.path.join(m.CACHE, "facts", "%s-libs" % m.tree_hash())
print(d if os.path.exists(os.path.join(d, "COMPLETE")) else "")
