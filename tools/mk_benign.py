#!/usr/bin/env python3
"""Add the behaviour-preserving variants an agent delivered next to its breaking change to /verif/benign/.
usage: tools/mk_benign.py <pending_dir> <id> [history-for-benign1] [history-for-benign2]"""
import json, os, shutil, sys
ROOT = os.path.dirname(os.path.dirname(os.path.abspath(__file__)))
pend, mid = sys.argv[1], sys.argv[2]
hist = sys.argv[3:5] + ["", ""]
src = os.path.join(pend, mid)
meta = json.load(open(os.path.join(src, "meta.json")))
prop = meta["property"]
for n in (1, 2):
    pf = os.path.join(src, "benign%d.diff" % n)
    if not os.path.exists(pf):
        continue
    txt = open(pf).read()
    have = False
    k = 0
    while True:
        name = "%s-%s" % (prop, "abcdefghijklmnop"[k])
        dst = os.path.join(ROOT, "benign", name)
        if not os.path.exists(dst):
            break
        if open(os.path.join(dst, "patch.diff")).read() == txt:
            have = True
            break
        k += 1
    if have:
        print("have", name)
        continue
    os.makedirs(dst)
    shutil.copy(pf, os.path.join(dst, "patch.diff"))
    m = {"property": prop, "kind": "behaviour-preserving variant (sub-agent authored; existing tests and the agent's demo pass with it)",
         "summary": meta.get("benign%d" % n) or "", "expect": "check stays silent (exit 0)"}
    if hist[n - 1]:
        m["history"] = hist[n - 1]
    json.dump(m, open(os.path.join(dst, "meta.json"), "w"), indent=1)
    print("added", name)
