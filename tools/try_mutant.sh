#!/bin/bash
# usage: tools/try_mutant.sh <patch.diff> <Cxx> [Cyy ...]
# Applies the patch to /repo, runs the listed checks, and always reverts.
set -u
patch=$1; shift
cd /repo
if ! git diff --quiet; then echo "try_mutant: /repo has uncommitted changes"; exit 3; fi
git apply "$patch" || { echo "try_mutant: patch does not apply"; exit 3; }
rc=0
export VERIF_EVIDENCE_DIR=$(mktemp -d)   # do not overwrite /verif/evidence with the mutant run
for c in "$@"; do
  (cd /verif && ./check $c 2>&1 | grep -E "VIOLATION|violated:|KNOWN|obligations|check:" )
done
git -C /repo checkout -- .
rm -rf "$VERIF_EVIDENCE_DIR"
git -C /repo status --short | head
