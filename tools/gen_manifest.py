#!/usr/bin/env python3
"""Regenerates MANIFEST.json from rules/claims.py (single source of truth for claims)."""
import json, os, sys
ROOT = os.path.dirname(os.path.dirname(os.path.abspath(__file__)))
sys.path.insert(0, ROOT)
from rules.claims import CLAIMS, NOT_APPLICABLE

BASE_OFF = ("cd /repo && cargo nextest run --workspace --no-fail-fast --test-threads 8 --offline "
            "|| cargo test --workspace --no-fail-fast --offline")
m = {
    "version": 1,
    "setup_cmd": "cd /verif && ./setup.sh",
    "hooks": {
        "guard": "--cfg n0_computer_iroh_verif",
        "enable": "none needed: the analysis reads private items directly from MIR; no instrumentation commits exist",
        "baseline_off_cmd": BASE_OFF,
        "source_commits": [],
        "add_only": True,
    },
    "engines": [
        {"name": "irohlint", "path": "driver/", "kind_free_text": "rustc_private driver dumping built MIR + ADT/impl/const tables as JSON facts (RUSTC_WORKSPACE_WRAPPER under cargo +nightly check)",
         "serves_properties": sorted(CLAIMS)},
        {"name": "rules", "path": "rules/", "kind_free_text": "python3 rule engine over the MIR facts: CFG dominance, success-edge tests, derives-from slices, who-calls/constructs/writes, lockset, table agreement",
         "serves_properties": sorted(CLAIMS)},
    ],
    "checks": [],
    "not_applicable": [{"property_id": k, "reason": v} for k, v in sorted(NOT_APPLICABLE.items())],
    "notes": "Static analysis only. Every check re-extracts facts from /repo's current working tree (cached by source hash) and evaluates repository-specific rules; see DESIGN.md.",
}
for pid in sorted(CLAIMS):
    c = CLAIMS[pid]
    m["checks"].append({
        "property_id": pid,
        "quick_cmd": "./check %s --tier quick" % pid,
        "thorough_cmd": "./check %s --tier thorough" % pid,
        "evidence_file": "/verif/evidence/%s.json" % pid,
        "replay_cmd_template": "cat {path}",
        "engine": "irohlint+rules",
        "level_claimed": {"category": "other", "text": c["text"], "design_ref": "DESIGN.md §4 " + pid},
        "level_note": c.get("note", "Trusts rustc's MIR construction and callee resolution, the hand-confirmed instance tables in rules/props/%s.py, and the documented contracts of external crates." % pid),
        "technique": c["technique"],
    })
json.dump(m, open(os.path.join(ROOT, "MANIFEST.json"), "w"), indent=1)
print("MANIFEST.json: %d checks, %d not applicable" % (len(m["checks"]), len(m["not_applicable"])))
