#!/usr/bin/env python3
"""For every /verif/seeded/<name>: apply patch to /repo, run the property's quick check,
revert; record what the check reported in meta.json ("check") and print a markdown table.
usage: tools/seed_report.py [names...]"""
import json, os, subprocess, sys, tempfile, glob, re
ROOT = os.path.dirname(os.path.dirname(os.path.abspath(__file__)))
names = [a for a in sys.argv[1:] if not a.startswith("--")] or sorted(os.listdir(os.path.join(ROOT, "seeded")))
import shutil
SCR = os.path.join(tempfile.gettempdir(), "irohlint-report-scratch")
for n in names:
    d = os.path.join(ROOT, "seeded", n)
    meta = json.load(open(os.path.join(d, "meta.json")))
    if meta.get("check") and "--all" not in sys.argv:
        continue
    pid = meta["property"]
    shutil.rmtree(SCR, ignore_errors=True)
    os.makedirs(SCR)
    subprocess.run("git -C /repo archive HEAD | tar -x -C %s" % SCR, shell=True, check=True)
    if subprocess.run(["git", "apply", "-p1", os.path.join(d, "patch.diff")], cwd=SCR).returncode != 0:
        print("| %s | does not apply |" % n)
        continue
    ev = tempfile.mkdtemp()
    r = subprocess.run([os.path.join(ROOT, "check"), pid], env=dict(os.environ, VERIF_EVIDENCE_DIR=ev, IROH_REPO=SCR), stdout=subprocess.PIPE, stderr=subprocess.STDOUT, text=True)
    shutil.rmtree(ev, ignore_errors=True)
    viol = [l.strip() for l in r.stdout.splitlines() if l.strip().startswith("violated:")]
    meta["check"] = {"cmd": "./check %s --tier quick (patch applied to a scratch export of /repo HEAD, IROH_REPO)" % pid, "exit": r.returncode,
                     "violation_line": any(l.startswith("VIOLATION property=%s" % pid) for l in r.stdout.splitlines()),
                     "reported": [v[:400] for v in viol[:6]]}
    json.dump(meta, open(os.path.join(d, "meta.json"), "w"), indent=1)
    print("%s exit %d %d violations" % (n, r.returncode, len(viol)), flush=True)
shutil.rmtree(SCR, ignore_errors=True)
