#!/usr/bin/env python3
"""For every /verif/seeded/<name>: apply patch to /repo, run the property's quick check,
revert; record what the check reported in meta.json ("check") and print a markdown table.
usage: tools/seed_report.py [names...]"""
import json, os, subprocess, sys, tempfile, glob, re
ROOT = os.path.dirname(os.path.dirname(os.path.abspath(__file__)))
names = sys.argv[1:] or sorted(os.listdir(os.path.join(ROOT, "seeded")))
if subprocess.run(["git", "-C", "/repo", "diff", "--quiet"]).returncode != 0:
    sys.exit("/repo dirty")
for n in names:
    d = os.path.join(ROOT, "seeded", n)
    meta = json.load(open(os.path.join(d, "meta.json")))
    pid = meta["property"]
    if subprocess.run(["git", "-C", "/repo", "apply", os.path.join(d, "patch.diff")]).returncode != 0:
        print("| %s | does not apply |" % n)
        continue
    ev = tempfile.mkdtemp()
    try:
        r = subprocess.run([os.path.join(ROOT, "check"), pid], env=dict(os.environ, VERIF_EVIDENCE_DIR=ev), stdout=subprocess.PIPE, stderr=subprocess.STDOUT, text=True)
    finally:
        subprocess.run(["git", "-C", "/repo", "checkout", "--", "."])
    viol = [l.strip() for l in r.stdout.splitlines() if l.strip().startswith("violated:")]
    keys = [re.search(r"\(key=([^)]*)\)\s*$", v).group(1) if re.search(r"\(key=([^)]*)\)\s*$", v) else v[:80] for v in viol]
    meta["check"] = {"cmd": "./check %s --tier quick (patch applied to /repo, reverted afterwards)" % pid, "exit": r.returncode,
                     "violation_line": any(l.startswith("VIOLATION property=%s" % pid) for l in r.stdout.splitlines()),
                     "reported": [v[:400] for v in viol[:6]]}
    json.dump(meta, open(os.path.join(d, "meta.json"), "w"), indent=1)
    rules = sorted({k.split("|")[0] + ":" + k.split("|")[-1] for k in keys})
    print("| %s | %s | exit %d | %s |" % (n, (meta.get("summary") or "")[:110].replace("|", "/"), r.returncode, "; ".join(rules)[:200]), flush=True)
