#!/usr/bin/env python3
"""Emit DESIGN.md §10: clauses decided / not decided per property, as built (from evidence files)."""
import json, glob, os, re
ROOT = os.path.dirname(os.path.dirname(os.path.abspath(__file__)))
for f in sorted(glob.glob(os.path.join(ROOT, "evidence", "C*.json"))):
    e = json.load(open(f))
    x = e["coverage"]["explanation"]
    pid = e["property_id"]
    dec, und = x, ""
    if "NOT decided:" in x:
        dec, und = x.split("NOT decided:", 1)
    print("**%s** — %d obligations on the pinned tree.  " % (pid, e["coverage"].get("obligations", 0)))
    print("Decided: " + re.sub(r"\s+", " ", dec).strip() + "  ")
    if und:
        print("Not decided: " + re.sub(r"\s+", " ", und).strip())
    print()
