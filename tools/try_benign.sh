#!/bin/bash
# usage: tools/try_benign.sh <dir with Cxx-benignN.diff files>  -> one line per diff
d=$1
for f in $(ls $d/C*-benign*.diff | sort); do
  b=$(basename $f .diff); pid=${b%%-*}
  out=$(/verif/tools/try_scratch.sh $f $pid 2>&1)
  if echo "$out" | grep -q "VIOLATION\|does not apply\|check:"; then echo "ALARM $b"; echo "$out" | grep "violated\|apply\|check:" | cut -c1-330 | head -4; else echo "quiet $b"; fi
done
