#!/usr/bin/env python3
"""Pretty-print the MIR facts of functions whose normalised path matches a regex.
usage: tools/mir.py <facts_dir> <regex> [--crate c] [--all]   (--all: keep tracing blocks)"""
import sys, os, re
sys.path.insert(0, os.path.join(os.path.dirname(os.path.abspath(__file__)), ".."))
from rules.facts import Facts, norm


def pl(p):
    s = "_%d" % p["l"]
    for e in p.get("p", []):
        if e[0] == "deref":
            s = "(*%s)" % s
        elif e[0] == "f":
            s = "%s.%s" % (s, e[2] or e[1])
        elif e[0] == "dc":
            s = "(%s as %s)" % (s, e[2] or e[1])
        elif e[0] == "idx":
            s = "%s[_%d]" % (s, e[1])
        elif e[0] == "ci":
            s = "%s[%s%d]" % (s, "-" if e[3] else "", e[1])
        elif e[0] == "sub":
            s = "%s[%d..%s%d]" % (s, e[1], "-" if e[3] else "", e[2])
        else:
            s = "%s.<%s>" % (s, e[0])
    return s


def short(s):
    return re.sub(r"\b[a-z_][a-z_0-9]*::", "", s)


def op(o):
    k = o["k"]
    if k == "copy":
        return pl(o["p"])
    if k == "move":
        return "move " + pl(o["p"])
    if k == "const":
        if "fn" in o:
            return "fn " + short(norm(o["fn"]))
        if "static" in o:
            return "static " + short(o["static"])
        if "def" in o:
            return "const " + short(o["def"])
        if "closure" in o:
            return "closure " + short(o["closure"])
        return o.get("v", "const?")
    return k


def rv(r):
    k = r["k"]
    if k == "use":
        return op(r["o"])
    if k == "ref":
        return ("&mut " if r["mut"] else "&") + pl(r["p"])
    if k == "rawptr":
        return "&raw " + pl(r["p"])
    if k == "cast":
        return "%s as %s (%s)" % (op(r["o"]), short(r["ty"]), r["ck"])
    if k == "bin":
        return "%s(%s, %s)" % (r["op"], op(r["a"]), op(r["b"]))
    if k == "un":
        return "%s(%s)" % (r["op"], op(r["a"]))
    if k == "discr":
        return "discriminant(%s)" % pl(r["p"])
    if k == "agg":
        ops = ", ".join(op(o) for o in r["ops"])
        ak = r["ak"]
        if ak == "adt":
            fields = r["fields"]
            if fields and len(fields) == len(r["ops"]):
                ops = ", ".join("%s: %s" % (f, op(o)) for f, o in zip(fields, r["ops"]))
            return "%s::%s { %s }" % (short(r["adt"]), r["variant"], ops)
        if ak in ("closure", "coroutine", "coroutine_closure"):
            return "%s %s [%s]" % (ak, short(r["def"]), ops)
        return "%s(%s)" % (ak, ops)
    if k == "repeat":
        return "[%s; %s]" % (op(r["o"]), r["n"])
    return k


def term(t):
    k = t["k"]
    m = ""
    if t.get("mac"):
        m = "   #mac " + ">".join(t["mac"][:3])
    ln = " @%s" % t.get("l")
    if k == "goto":
        return "goto bb%d%s" % (t["t"], " (falseEdge)" if t.get("false_edge") else "")
    if k == "switch":
        return "switch %s [%s, otherwise: bb%d]%s" % (op(t["d"]), ", ".join("%s: bb%d" % (v, b) for v, b in t["targets"]), t["otherwise"], ln + m)
    if k in ("call", "tailcall"):
        callee = short(norm(t["callee"])) if t.get("callee") else "(%s)" % op(t["fnop"])
        extra = ""
        if t.get("resolved"):
            extra = " => " + short(norm(t["resolved"]))
        elif t.get("trait"):
            extra = " [Self=%s]" % short(t.get("self_ty", "?"))
        if k == "tailcall":
            return "tailcall %s(%s)%s" % (callee, ", ".join(op(a) for a in t["args"]), extra)
        return "%s = %s(%s)%s -> bb%s%s" % (pl(t["dest"]), callee, ", ".join(op(a) for a in t["args"]), extra, t["t"], ln + m)
    if k == "drop":
        return "drop(%s) -> bb%d%s   : %s" % (pl(t["p"]), t["t"], ln, short(t["ty"])[:80])
    if k == "assert":
        return "assert(%s == %s, %s) -> bb%d" % (op(t["cond"]), t["expected"], t["msg"], t["t"])
    if k == "yield":
        return "%s = yield(%s) -> bb%d (drop bb%s)%s" % (pl(t["resume_arg"]), op(t["v"]), t["t"], t["drop"], ln)
    return k


def show(f, hide_tracing=True):
    print("=" * 100)
    print("fn %s   [%s:%d] kind=%s argc=%d coroutine=%s" % (f.path, f.file, f.line, f.kind, f.argc, f.coroutine))
    if f.upvars:
        print("  upvars:", f.upvars)
    names = {}
    for n, p in f.vars:
        if not p.get("p"):
            names[p["l"]] = n
    reach = f.reachable(0)
    import json as _j
    used = set()
    for b, blk in enumerate(f.blocks):
        if blk["cleanup"] or b not in reach or (hide_tracing and f.is_tracing(b)):
            continue
        for m in re.finditer(r'"l": (\d+)', _j.dumps(blk)):
            used.add(int(m.group(1)))
    for i, t in enumerate(f.locals):
        if i in used or i <= f.argc:
            print("  let _%d: %s%s" % (i, short(t)[:160], ("   // " + names[i]) if i in names else ""))
    for b, blk in enumerate(f.blocks):
        if blk["cleanup"]:
            continue
        if b not in reach:
            continue
        tr = hide_tracing and f.is_tracing(b)
        if tr:
            print("  bb%d: (tracing) -> %s" % (b, f.succs()[b]))
            continue
        print("  bb%d:" % b)
        for s in blk["s"]:
            if s["k"] == "a":
                print("      %s = %s" % (pl(s["lhs"]), rv(s["rv"])))
            else:
                print("      %s" % s["k"])
        print("      %s" % term(blk["t"]))


if __name__ == "__main__":
    d = sys.argv[1]
    rx = sys.argv[2]
    crate = None
    if "--crate" in sys.argv:
        crate = [sys.argv[sys.argv.index("--crate") + 1]]
    F = Facts(d, crates=crate)
    for f in F.find(rx):
        show(f, "--all" not in sys.argv)
