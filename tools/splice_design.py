#!/usr/bin/env python3
"""Regenerate the generated parts of DESIGN.md: the two tables of §9 and the body of §10."""
import os, subprocess
ROOT = os.path.dirname(os.path.dirname(os.path.abspath(__file__)))
p = os.path.join(ROOT, "DESIGN.md")
s = open(p).read()
g = subprocess.check_output(["python3", os.path.join(ROOT, "tools", "gen_seed_table.py")], text=True).split("\n")
sec10 = subprocess.check_output(["python3", os.path.join(ROOT, "tools", "gen_clauses.py")], text=True)
i9 = s.index("## 9. Seeded changes")
i10 = s.index("## 10. What each check")
part = s[i9:i10].split("\n")


def table(lines, head):
    a = [i for i, l in enumerate(lines) if l.startswith(head)][0]
    b = a
    while b < len(lines) and lines[b].startswith("|"):
        b += 1
    return a, b
for head in ("| benign variant", "| seed | change"):
    a, b = table(part, head)
    c, d = table(g, head)
    part = part[:a] + g[c:d] + part[b:]
tail = s[i10:]
j = tail.index("**C01**")
open(p, "w").write(s[:i9] + "\n".join(part) + tail[:j] + sec10)
print("DESIGN.md: regenerated §9 tables and §10")
