//! irohlint: a rustc_private driver that dumps, for every local body owner of a workspace
//! crate, the *built* MIR (before borrowck / coroutine transform) as JSON lines, together
//! with crate-level tables (ADTs, trait impls, evaluated consts).  It is injected as
//! RUSTC_WORKSPACE_WRAPPER under `cargo +nightly check`; compilation continues normally.
//!
//! Output: $IROHLINT_OUT/<crate>-<kind>.jsonl, one write per process.
#![feature(rustc_private)]
#![allow(clippy::all)]

extern crate rustc_abi;
extern crate rustc_data_structures;
extern crate rustc_driver;
extern crate rustc_hir;
extern crate rustc_interface;
extern crate rustc_middle;
extern crate rustc_session;
extern crate rustc_span;

use std::collections::HashSet;
use std::fmt::Write as _;

use rustc_driver::Compilation;
use rustc_hir::def::DefKind;
use rustc_hir::def_id::{DefId, LocalDefId};
use rustc_middle::mir::{
    self, AggregateKind, BasicBlock, Body, Const, ConstValue, Operand, Place, PlaceElem,
    ProjectionElem, Rvalue, StatementKind, TerminatorKind, UnwindAction,
};
use rustc_middle::ty::print::{CrateNamePrefixGuard, NoTrimmedGuard, NoVisibleGuard, PrintTraitRefExt};
use rustc_middle::ty::{self, Instance, Ty, TyCtxt, TypingEnv};
use rustc_span::Span;

struct Cb;

impl rustc_driver::Callbacks for Cb {
    fn after_expansion<'tcx>(
        &mut self,
        _c: &rustc_interface::interface::Compiler,
        tcx: TyCtxt<'tcx>,
    ) -> Compilation {
        if let Ok(out) = std::env::var("IROHLINT_OUT") {
            let name = tcx.crate_name(rustc_hir::def_id::LOCAL_CRATE).to_string();
            let members = std::env::var("IROHLINT_CRATES")
                .unwrap_or_else(|_| "iroh,iroh_base,iroh_dns,iroh_dns_server,iroh_relay".into());
            if members.split(',').any(|m| m == name) {
                dump(tcx, &name, &out);
            }
        }
        Compilation::Continue
    }
}

// ---------------------------------------------------------------- JSON helpers

fn esc(s: &str, out: &mut String) {
    out.push('"');
    for c in s.chars() {
        match c {
            '"' => out.push_str("\\\""),
            '\\' => out.push_str("\\\\"),
            '\n' => out.push_str("\\n"),
            '\r' => out.push_str("\\r"),
            '\t' => out.push_str("\\t"),
            c if (c as u32) < 0x20 => {
                let _ = write!(out, "\\u{:04x}", c as u32);
            }
            c => out.push(c),
        }
    }
    out.push('"');
}

fn jstr(s: &str) -> String {
    let mut o = String::new();
    esc(s, &mut o);
    o
}

fn jlist(items: Vec<String>) -> String {
    let mut o = String::from("[");
    for (i, it) in items.iter().enumerate() {
        if i > 0 {
            o.push(',');
        }
        o.push_str(it);
    }
    o.push(']');
    o
}

// ---------------------------------------------------------------- dump

struct Cx<'tcx> {
    tcx: TyCtxt<'tcx>,
    named_consts: HashSet<DefId>,
}

fn dump<'tcx>(tcx: TyCtxt<'tcx>, name: &str, out_dir: &str) {
    let _g1 = CrateNamePrefixGuard::new();
    let _g2 = NoTrimmedGuard::new();
    let _g3 = NoVisibleGuard::new();
    let mut cx = Cx { tcx, named_consts: HashSet::new() };
    let mut out = String::new();

    let is_test = tcx.sess.opts.test;
    let kinds: Vec<String> = tcx.crate_types().iter().map(|k| format!("{:?}", k)).collect();
    let src = tcx
        .sess
        .local_crate_source_file()
        .map(|p| format!("{:?}", p))
        .unwrap_or_default();

    let mut nfn = 0usize;
    let mut fn_lines = String::new();
    let mut stolen: Vec<String> = Vec::new();
    // Pass 1: clone every built body first.  Resolving callees in post-analysis mode can
    // reveal opaque types, which runs borrowck on their defining function and steals its
    // `mir_built`; so nothing may be resolved/evaluated before all bodies are copied.
    let mut bodies: Vec<(LocalDefId, DefKind, Body<'tcx>)> = Vec::new();
    for def in tcx.hir_body_owners() {
        let kind = tcx.def_kind(def);
        match kind {
            DefKind::Fn | DefKind::AssocFn | DefKind::Closure => {}
            // initialisers of named consts / statics are dumped too (tables such as
            // `ProtocolVersion::ALL`); their values are additionally evaluated below
            DefKind::Const { .. } | DefKind::AssocConst { .. } | DefKind::Static { .. } => {}
            _ => continue,
        }
        let steal = tcx.mir_built(def);
        if steal.is_stolen() {
            // Building another body revealed an opaque type defined here, which ran borrowck
            // on this function and consumed its built MIR.  `mir_promoted` (built MIR + constant
            // promotion + initial CFG simplification, still before borrowck cleanup) is still
            // readable in that case and has the same shape for our purposes.
            let (promoted, _) = tcx.mir_promoted(def);
            if promoted.is_stolen() {
                stolen.push(jstr(&path_of(tcx, def.to_def_id())));
                continue;
            }
            bodies.push((def, kind, promoted.borrow().clone()));
            continue;
        }
        bodies.push((def, kind, steal.borrow().clone()));
    }
    for (def, kind, body) in bodies.iter() {
        dump_fn(&mut cx, *def, *kind, body, &mut fn_lines);
        fn_lines.push('\n');
        nfn += 1;
    }

    // header line
    let _ = write!(
        out,
        "{{\"header\":true,\"crate\":{},\"test\":{},\"kinds\":{},\"src\":{},\"functions\":{},\"nonce\":{},",
        jstr(name),
        is_test,
        jlist(kinds.iter().map(|k| jstr(k)).collect()),
        jstr(&src),
        nfn,
        jstr(&std::env::var("IROHLINT_NONCE").unwrap_or_default())
    );
    let _ = write!(out, "\"stolen\":{},", jlist(stolen));
    out.push_str("\"adts\":");
    out.push_str(&dump_adts(&mut cx));
    out.push_str(",\"impls\":");
    out.push_str(&dump_impls(&mut cx));
    out.push_str(",\"consts\":");
    // evaluated after all bodies were read (evaluation steals mir_built of const items)
    out.push_str(&dump_consts(&mut cx));
    out.push_str("}\n");
    out.push_str(&fn_lines);

    let kind_tag = if is_test {
        "test".to_string()
    } else {
        kinds.first().cloned().unwrap_or_else(|| "unknown".into()).to_lowercase()
    };
    // distinguish several targets with the same crate name (bins, examples) by source stem
    let stem = tcx
        .sess
        .local_crate_source_file()
        .and_then(|p| p.local_path().map(|p| p.to_path_buf()))
        .and_then(|p| p.file_stem().map(|s| s.to_string_lossy().to_string()))
        .unwrap_or_default();
    let path = format!("{}/{}-{}-{}.jsonl", out_dir, name, kind_tag, stem);
    let tmp = format!("{}.tmp{}", path, std::process::id());
    std::fs::write(&tmp, out).expect("irohlint: cannot write fact file");
    std::fs::rename(&tmp, &path).expect("irohlint: cannot rename fact file");
}

fn ty_str<'tcx>(ty: Ty<'tcx>) -> String {
    format!("{}", ty)
}

fn path_of<'tcx>(tcx: TyCtxt<'tcx>, did: DefId) -> String {
    tcx.def_path_str(did)
}

fn span_line<'tcx>(tcx: TyCtxt<'tcx>, sp: Span) -> (String, usize) {
    let sm = tcx.sess.source_map();
    let sp = sp.source_callsite();
    let lo = sm.lookup_char_pos(sp.lo());
    (format!("{}", lo.file.name.prefer_local_unconditionally()), lo.line)
}

fn macro_chain(sp: Span) -> Vec<String> {
    let mut v = Vec::new();
    if sp.from_expansion() {
        for e in sp.macro_backtrace() {
            if let rustc_span::ExpnKind::Macro(_, name) = e.kind {
                v.push(name.to_string());
            } else {
                v.push(format!("{:?}", e.kind));
            }
            if v.len() > 6 {
                break;
            }
        }
    }
    v
}

fn dump_adts<'tcx>(cx: &mut Cx<'tcx>) -> String {
    let tcx = cx.tcx;
    let mut items = Vec::new();
    for id in tcx.hir_crate_items(()).definitions() {
        let kind = tcx.def_kind(id);
        if !matches!(kind, DefKind::Struct | DefKind::Enum | DefKind::Union) {
            continue;
        }
        let adt = tcx.adt_def(id.to_def_id());
        let mut vs = Vec::new();
        for (vi, v) in adt.variants().iter_enumerated() {
            let discr = if adt.is_enum() {
                format!("{}", adt.discriminant_for_variant(tcx, vi).val)
            } else {
                "0".to_string()
            };
            let mut fs = Vec::new();
            for f in v.fields.iter() {
                let fty = tcx.type_of(f.did).instantiate_identity().skip_norm_wip();
                let vis = match f.vis {
                    ty::Visibility::Public => "pub".to_string(),
                    ty::Visibility::Restricted(d) => format!("in {}", path_of(tcx, d)),
                };
                fs.push(format!(
                    "{{\"name\":{},\"ty\":{},\"vis\":{}}}",
                    jstr(f.name.as_str()),
                    jstr(&ty_str(fty)),
                    jstr(&vis)
                ));
            }
            vs.push(format!(
                "{{\"name\":{},\"discr\":{},\"fields\":{}}}",
                jstr(v.name.as_str()),
                jstr(&discr),
                jlist(fs)
            ));
        }
        let (file, line) = span_line(tcx, tcx.def_span(id));
        items.push(format!(
            "{{\"path\":{},\"kind\":{},\"file\":{},\"line\":{},\"variants\":{}}}",
            jstr(&path_of(tcx, id.to_def_id())),
            jstr(&format!("{:?}", kind)),
            jstr(&file),
            line,
            jlist(vs)
        ));
    }
    jlist(items)
}

fn dump_impls<'tcx>(cx: &mut Cx<'tcx>) -> String {
    let tcx = cx.tcx;
    let mut items = Vec::new();
    for id in tcx.hir_crate_items(()).definitions() {
        if !matches!(tcx.def_kind(id), DefKind::Impl { .. }) {
            continue;
        }
        let did = id.to_def_id();
        let self_ty = tcx.type_of(did).instantiate_identity().skip_norm_wip();
        let adt = match self_ty.kind() {
            ty::Adt(a, _) => path_of(tcx, a.did()),
            _ => String::new(),
        };
        let (tr, trp) = match tcx.impl_opt_trait_ref(did) {
            Some(tr) => {
                let tr = tr.instantiate_identity().skip_norm_wip();
                (format!("{}", tr.print_only_trait_path()), path_of(tcx, tr.def_id))
            }
            None => (String::new(), String::new()),
        };
        let mut assoc = Vec::new();
        for it in tcx.associated_items(did).in_definition_order() {
            assoc.push(jstr(&path_of(tcx, it.def_id)));
        }
        let attrs_derived = tcx.is_automatically_derived(did);
        items.push(format!(
            "{{\"self_ty\":{},\"adt\":{},\"trait\":{},\"trait_path\":{},\"derived\":{},\"items\":{}}}",
            jstr(&ty_str(self_ty)),
            jstr(&adt),
            jstr(&tr),
            jstr(&trp),
            attrs_derived,
            jlist(assoc)
        ));
    }
    jlist(items)
}

fn dump_consts<'tcx>(cx: &mut Cx<'tcx>) -> String {
    let tcx = cx.tcx;
    let mut items = Vec::new();
    // all local const / static items plus every named const referenced from a body
    let mut all: HashSet<DefId> = cx.named_consts.clone();
    for id in tcx.hir_crate_items(()).definitions() {
        if matches!(tcx.def_kind(id), DefKind::Const { .. } | DefKind::AssocConst { .. }) {
            all.insert(id.to_def_id());
        }
    }
    let mut all: Vec<DefId> = all.into_iter().collect();
    all.sort_by_key(|d| path_of(tcx, *d));
    for did in all {
        if tcx.generics_of(did).requires_monomorphization(tcx) {
            continue;
        }
        if let DefKind::AssocConst { .. } = tcx.def_kind(did) {
            // trait-level associated consts without a value cannot be evaluated
            if tcx.trait_of_assoc(did).is_some() {
                continue;
            }
        }
        let ty = tcx.type_of(did).instantiate_identity().skip_norm_wip();
        if !matches!(
            ty.kind(),
            ty::Int(_) | ty::Uint(_) | ty::Bool | ty::Char | ty::Ref(..) | ty::Array(..) | ty::Adt(..)
        ) {
            continue;
        }
        let val = match tcx.const_eval_poly(did) {
            Ok(v) => v,
            Err(_) => continue,
        };
        let c = Const::Val(val, ty);
        let s = format!("{}", c);
        items.push(format!(
            "{{\"path\":{},\"ty\":{},\"val\":{}}}",
            jstr(&path_of(tcx, did)),
            jstr(&ty_str(ty)),
            jstr(&s)
        ));
    }
    jlist(items)
}

fn dump_fn<'tcx>(
    cx: &mut Cx<'tcx>,
    def: LocalDefId,
    kind: DefKind,
    body: &Body<'tcx>,
    out: &mut String,
) {
    let tcx = cx.tcx;
    let did = def.to_def_id();
    let path = path_of(tcx, did);
    let (file, line) = span_line(tcx, body.span);
    let parent = if matches!(kind, DefKind::Closure) {
        path_of(tcx, tcx.parent(did))
    } else {
        String::new()
    };
    // impl info
    let mut impl_of = String::new();
    let mut impl_trait = String::new();
    let mut derived = false;
    if matches!(kind, DefKind::AssocFn) {
        let p = tcx.parent(did);
        if matches!(tcx.def_kind(p), DefKind::Impl { .. }) {
            let self_ty = tcx.type_of(p).instantiate_identity().skip_norm_wip();
            impl_of = match self_ty.kind() {
                ty::Adt(a, _) => path_of(tcx, a.did()),
                _ => ty_str(self_ty),
            };
            if let Some(tr) = tcx.impl_opt_trait_ref(p) {
                impl_trait = path_of(tcx, tr.skip_binder().def_id);
            }
            derived = tcx.is_automatically_derived(p);
        }
    }
    let vis = if matches!(kind, DefKind::Fn | DefKind::AssocFn) {
        match tcx.visibility(did) {
            ty::Visibility::Public => "pub".to_string(),
            ty::Visibility::Restricted(d) => format!("in {}", path_of(tcx, d)),
        }
    } else {
        String::new()
    };
    let is_coroutine = tcx.is_coroutine(did);
    let typing_env = TypingEnv::post_analysis(tcx, did);

    let _ = write!(
        out,
        "{{\"path\":{},\"kind\":{},\"parent\":{},\"file\":{},\"line\":{},\"impl_of\":{},\"impl_trait\":{},\"derived\":{},\"vis\":{},\"coroutine\":{},\"argc\":{},",
        jstr(&path),
        jstr(&format!("{:?}", kind)),
        jstr(&parent),
        jstr(&file),
        line,
        jstr(&impl_of),
        jstr(&impl_trait),
        derived,
        jstr(&vis),
        is_coroutine,
        body.arg_count
    );

    // upvars (closure captures), by index
    let mut ups = Vec::new();
    if matches!(kind, DefKind::Closure) {
        for c in tcx.closure_captures(def) {
            ups.push(jstr(c.to_symbol().as_str()));
        }
    }
    let _ = write!(out, "\"upvars\":{},", jlist(ups));

    // locals
    let mut ls = Vec::new();
    for l in body.local_decls.iter() {
        ls.push(jstr(&ty_str(l.ty)));
    }
    let _ = write!(out, "\"locals\":{},", jlist(ls));

    // user variable names
    let mut vs = Vec::new();
    for v in body.var_debug_info.iter() {
        if let mir::VarDebugInfoContents::Place(p) = &v.value {
            vs.push(format!("[{},{}]", jstr(v.name.as_str()), place_json(cx, body, p)));
        }
    }
    let _ = write!(out, "\"vars\":{},", jlist(vs));

    // blocks
    out.push_str("\"blocks\":[");
    for (bb, data) in body.basic_blocks.iter_enumerated() {
        if bb.index() > 0 {
            out.push(',');
        }
        out.push_str("{\"s\":[");
        let mut first = true;
        for st in data.statements.iter() {
            let s = match &st.kind {
                StatementKind::Assign(b) => {
                    let (pl, rv) = &**b;
                    let (_, ln) = span_line(tcx, st.source_info.span);
                    Some(format!(
                        "{{\"k\":\"a\",\"l\":{},\"lhs\":{},\"rv\":{}}}",
                        ln,
                        place_json(cx, body, pl),
                        rvalue_json(cx, body, rv, typing_env)
                    ))
                }
                StatementKind::SetDiscriminant { place, variant_index } => Some(format!(
                    "{{\"k\":\"setdiscr\",\"lhs\":{},\"v\":{}}}",
                    place_json(cx, body, place),
                    variant_index.index()
                )),
                StatementKind::Intrinsic(_) => Some("{\"k\":\"intrinsic\"}".to_string()),
                _ => None,
            };
            if let Some(s) = s {
                if !first {
                    out.push(',');
                }
                first = false;
                out.push_str(&s);
            }
        }
        out.push_str("],\"cleanup\":");
        out.push_str(if data.is_cleanup { "true" } else { "false" });
        out.push_str(",\"t\":");
        match &data.terminator {
            Some(t) => out.push_str(&term_json(cx, body, t, typing_env)),
            None => out.push_str("{\"k\":\"none\"}"),
        }
        out.push('}');
    }
    out.push_str("]}");
}

fn bbi(b: BasicBlock) -> usize {
    b.index()
}

fn unwind_json(u: &UnwindAction) -> String {
    match u {
        UnwindAction::Cleanup(b) => format!("{}", bbi(*b)),
        _ => "null".to_string(),
    }
}

fn place_json<'tcx>(cx: &mut Cx<'tcx>, body: &Body<'tcx>, p: &Place<'tcx>) -> String {
    let tcx = cx.tcx;
    let mut o = format!("{{\"l\":{}", p.local.index());
    if !p.projection.is_empty() {
        o.push_str(",\"p\":[");
        let mut pty = mir::PlaceTy::from_ty(body.local_decls[p.local].ty);
        for (i, elem) in p.projection.iter().enumerate() {
            if i > 0 {
                o.push(',');
            }
            o.push_str(&proj_json(tcx, pty, &elem));
            pty = pty.projection_ty(tcx, elem);
        }
        o.push(']');
    }
    o.push('}');
    o
}

fn proj_json<'tcx>(tcx: TyCtxt<'tcx>, base: mir::PlaceTy<'tcx>, e: &PlaceElem<'tcx>) -> String {
    match e {
        ProjectionElem::Deref => "[\"deref\"]".to_string(),
        ProjectionElem::Field(f, _) => {
            let mut name = String::new();
            let mut owner = String::new();
            match base.ty.kind() {
                ty::Adt(adt, _) => {
                    owner = path_of(tcx, adt.did());
                    let vi = base.variant_index.unwrap_or(rustc_abi::FIRST_VARIANT);
                    if adt.is_enum() || adt.is_struct() || adt.is_union() {
                        if let Some(v) = adt.variants().get(vi) {
                            if let Some(fd) = v.fields.get(*f) {
                                name = fd.name.to_string();
                            }
                            if adt.is_enum() {
                                owner = format!("{}::{}", owner, v.name);
                            }
                        }
                    }
                }
                ty::Closure(d, _) | ty::Coroutine(d, _) | ty::CoroutineClosure(d, _) => {
                    owner = path_of(tcx, *d);
                    if let Some(ld) = d.as_local() {
                        let caps = tcx.closure_captures(ld);
                        if let Some(c) = caps.get(f.index()) {
                            name = c.to_symbol().to_string();
                        }
                    }
                }
                ty::Tuple(_) => {
                    owner = "tuple".to_string();
                }
                _ => {}
            }
            format!("[\"f\",{},{},{}]", f.index(), jstr(&name), jstr(&owner))
        }
        ProjectionElem::Index(l) => format!("[\"idx\",{}]", l.index()),
        ProjectionElem::ConstantIndex { offset, min_length, from_end } => {
            format!("[\"ci\",{},{},{}]", offset, min_length, from_end)
        }
        ProjectionElem::Subslice { from, to, from_end } => {
            format!("[\"sub\",{},{},{}]", from, to, from_end)
        }
        ProjectionElem::Downcast(name, vi) => format!(
            "[\"dc\",{},{}]",
            vi.index(),
            jstr(&name.map(|s| s.to_string()).unwrap_or_default())
        ),
        ProjectionElem::OpaqueCast(_) => "[\"opaque\"]".to_string(),
        ProjectionElem::UnwrapUnsafeBinder(_) => "[\"unbinder\"]".to_string(),
    }
}

fn operand_json<'tcx>(
    cx: &mut Cx<'tcx>,
    body: &Body<'tcx>,
    op: &Operand<'tcx>,
    typing_env: TypingEnv<'tcx>,
) -> String {
    match op {
        Operand::Copy(p) => format!("{{\"k\":\"copy\",\"p\":{}}}", place_json(cx, body, p)),
        Operand::Move(p) => format!("{{\"k\":\"move\",\"p\":{}}}", place_json(cx, body, p)),
        Operand::Constant(c) => const_json(cx, &c.const_, typing_env),
        #[allow(unreachable_patterns)]
        _ => "{\"k\":\"other\"}".to_string(),
    }
}

fn const_json<'tcx>(cx: &mut Cx<'tcx>, c: &Const<'tcx>, _typing_env: TypingEnv<'tcx>) -> String {
    let tcx = cx.tcx;
    let ty = c.ty();
    let mut o = format!("{{\"k\":\"const\",\"ty\":{}", jstr(&ty_str(ty)));
    match ty.kind() {
        ty::FnDef(d, args) => {
            let _ = write!(o, ",\"fn\":{},\"substs\":{}", jstr(&path_of(tcx, *d)), substs_json(args));
        }
        ty::Closure(d, _) | ty::Coroutine(d, _) | ty::CoroutineClosure(d, _) => {
            let _ = write!(o, ",\"closure\":{}", jstr(&path_of(tcx, *d)));
        }
        _ => {}
    }
    match c {
        Const::Unevaluated(u, _) => {
            let _ = write!(o, ",\"def\":{}", jstr(&path_of(tcx, u.def)));
            if matches!(tcx.def_kind(u.def), DefKind::Const { .. } | DefKind::AssocConst { .. }) {
                cx.named_consts.insert(u.def);
            }
        }
        Const::Val(v, _) => {
            // statics appear as a pointer into a static allocation
            if let ConstValue::Scalar(rustc_middle::mir::interpret::Scalar::Ptr(ptr, _)) = v {
                let alloc_id = ptr.provenance.alloc_id();
                if let Some(rustc_middle::mir::interpret::GlobalAlloc::Static(sd)) =
                    tcx.try_get_global_alloc(alloc_id)
                {
                    let _ = write!(o, ",\"static\":{}", jstr(&path_of(tcx, sd)));
                }
            }
            if !matches!(ty.kind(), ty::FnDef(..)) {
                let _ = write!(o, ",\"v\":{}", jstr(&format!("{}", c)));
            }
        }
        Const::Ty(..) => {
            let _ = write!(o, ",\"v\":{}", jstr(&format!("{}", c)));
        }
    }
    o.push('}');
    o
}

fn substs_json<'tcx>(args: ty::GenericArgsRef<'tcx>) -> String {
    let mut v = Vec::new();
    for a in args.iter() {
        if a.as_region().is_some() {
            continue;
        }
        v.push(jstr(&format!("{}", a)));
    }
    jlist(v)
}

fn rvalue_json<'tcx>(
    cx: &mut Cx<'tcx>,
    body: &Body<'tcx>,
    rv: &Rvalue<'tcx>,
    te: TypingEnv<'tcx>,
) -> String {
    let tcx = cx.tcx;
    match rv {
        Rvalue::Use(op, ..) => format!("{{\"k\":\"use\",\"o\":{}}}", operand_json(cx, body, op, te)),
        Rvalue::Repeat(op, n) => format!(
            "{{\"k\":\"repeat\",\"o\":{},\"n\":{}}}",
            operand_json(cx, body, op, te),
            jstr(&format!("{}", n))
        ),
        Rvalue::Ref(_, bk, p) => format!(
            "{{\"k\":\"ref\",\"mut\":{},\"p\":{}}}",
            matches!(bk, mir::BorrowKind::Mut { .. }),
            place_json(cx, body, p)
        ),
        Rvalue::RawPtr(k, p) => format!(
            "{{\"k\":\"rawptr\",\"mut\":{},\"p\":{}}}",
            matches!(k, mir::RawPtrKind::Mut),
            place_json(cx, body, p)
        ),
        Rvalue::ThreadLocalRef(d) => {
            format!("{{\"k\":\"tls\",\"def\":{}}}", jstr(&path_of(tcx, *d)))
        }
        Rvalue::Cast(kind, op, ty) => format!(
            "{{\"k\":\"cast\",\"ck\":{},\"o\":{},\"ty\":{}}}",
            jstr(&format!("{:?}", kind)),
            operand_json(cx, body, op, te),
            jstr(&ty_str(*ty))
        ),
        Rvalue::BinaryOp(op, ab) => {
            let (a, b) = &**ab;
            format!(
                "{{\"k\":\"bin\",\"op\":{},\"a\":{},\"b\":{}}}",
                jstr(&format!("{:?}", op)),
                operand_json(cx, body, a, te),
                operand_json(cx, body, b, te)
            )
        }
        Rvalue::UnaryOp(op, a) => format!(
            "{{\"k\":\"un\",\"op\":{},\"a\":{}}}",
            jstr(&format!("{:?}", op)),
            operand_json(cx, body, a, te)
        ),
        Rvalue::Discriminant(p) => {
            format!("{{\"k\":\"discr\",\"p\":{}}}", place_json(cx, body, p))
        }
        Rvalue::Aggregate(kind, ops) => {
            let mut o = String::from("{\"k\":\"agg\",");
            match &**kind {
                AggregateKind::Array(t) => {
                    let _ = write!(o, "\"ak\":\"array\",\"ty\":{}", jstr(&ty_str(*t)));
                }
                AggregateKind::Tuple => o.push_str("\"ak\":\"tuple\""),
                AggregateKind::Adt(d, vi, args, _, active) => {
                    let adt = tcx.adt_def(*d);
                    let v = adt.variant(*vi);
                    let mut fnames = Vec::new();
                    if let Some(a) = active {
                        fnames.push(jstr(v.fields[*a].name.as_str()));
                    } else {
                        for f in v.fields.iter() {
                            fnames.push(jstr(f.name.as_str()));
                        }
                    }
                    let _ = write!(
                        o,
                        "\"ak\":\"adt\",\"adt\":{},\"variant\":{},\"vi\":{},\"fields\":{},\"substs\":{}",
                        jstr(&path_of(tcx, *d)),
                        jstr(v.name.as_str()),
                        vi.index(),
                        jlist(fnames),
                        substs_json(args)
                    );
                }
                AggregateKind::Closure(d, _) => {
                    let _ = write!(o, "\"ak\":\"closure\",\"def\":{}", jstr(&path_of(tcx, *d)));
                }
                AggregateKind::Coroutine(d, _) => {
                    let _ = write!(o, "\"ak\":\"coroutine\",\"def\":{}", jstr(&path_of(tcx, *d)));
                }
                AggregateKind::CoroutineClosure(d, _) => {
                    let _ =
                        write!(o, "\"ak\":\"coroutine_closure\",\"def\":{}", jstr(&path_of(tcx, *d)));
                }
                AggregateKind::RawPtr(..) => o.push_str("\"ak\":\"rawptr\""),
            }
            let mut v = Vec::new();
            for op in ops.iter() {
                v.push(operand_json(cx, body, op, te));
            }
            let _ = write!(o, ",\"ops\":{}}}", jlist(v));
            o
        }
        Rvalue::CopyForDeref(p) => {
            format!("{{\"k\":\"use\",\"o\":{{\"k\":\"copy\",\"p\":{}}}}}", place_json(cx, body, p))
        }
        Rvalue::WrapUnsafeBinder(op, _) => {
            format!("{{\"k\":\"use\",\"o\":{}}}", operand_json(cx, body, op, te))
        }
        #[allow(unreachable_patterns)]
        _ => "{\"k\":\"other\"}".to_string(),
    }
}

fn term_json<'tcx>(
    cx: &mut Cx<'tcx>,
    body: &Body<'tcx>,
    t: &mir::Terminator<'tcx>,
    te: TypingEnv<'tcx>,
) -> String {
    let tcx = cx.tcx;
    let (_, line) = span_line(tcx, t.source_info.span);
    let macs = macro_chain(t.source_info.span);
    let macs_j = jlist(macs.iter().map(|m| jstr(m)).collect());
    let head = format!("\"l\":{},\"mac\":{}", line, macs_j);
    match &t.kind {
        TerminatorKind::Goto { target } => format!("{{\"k\":\"goto\",{},\"t\":{}}}", head, bbi(*target)),
        // borrow-checker artefacts: follow only the real edge
        TerminatorKind::FalseEdge { real_target, .. } => {
            format!("{{\"k\":\"goto\",{},\"t\":{},\"false_edge\":true}}", head, bbi(*real_target))
        }
        TerminatorKind::FalseUnwind { real_target, .. } => {
            format!("{{\"k\":\"goto\",{},\"t\":{},\"false_unwind\":true}}", head, bbi(*real_target))
        }
        TerminatorKind::SwitchInt { discr, targets } => {
            let mut v = Vec::new();
            for (val, bb) in targets.iter() {
                v.push(format!("[{},{}]", jstr(&format!("{}", val)), bbi(bb)));
            }
            // type of the discriminant (for signedness / bool)
            let dty = discr.ty(&body.local_decls, tcx);
            format!(
                "{{\"k\":\"switch\",{},\"d\":{},\"dty\":{},\"targets\":{},\"otherwise\":{}}}",
                head,
                operand_json(cx, body, discr, te),
                jstr(&ty_str(dty)),
                jlist(v),
                bbi(targets.otherwise())
            )
        }
        TerminatorKind::Return => format!("{{\"k\":\"return\",{}}}", head),
        TerminatorKind::Unreachable => format!("{{\"k\":\"unreachable\",{}}}", head),
        TerminatorKind::UnwindResume => format!("{{\"k\":\"resume\",{}}}", head),
        TerminatorKind::UnwindTerminate(_) => format!("{{\"k\":\"terminate\",{}}}", head),
        TerminatorKind::CoroutineDrop => format!("{{\"k\":\"coroutine_drop\",{}}}", head),
        TerminatorKind::Drop { place, target, unwind, .. } => format!(
            "{{\"k\":\"drop\",{},\"p\":{},\"ty\":{},\"t\":{},\"unwind\":{}}}",
            head,
            place_json(cx, body, place),
            jstr(&ty_str(place.ty(&body.local_decls, tcx).ty)),
            bbi(*target),
            unwind_json(unwind)
        ),
        TerminatorKind::Assert { cond, expected, msg, target, unwind } => {
            let kind = format!("{:?}", std::mem::discriminant(&**msg));
            let name = match &**msg {
                mir::AssertKind::BoundsCheck { .. } => "BoundsCheck",
                mir::AssertKind::Overflow(..) => "Overflow",
                mir::AssertKind::OverflowNeg(..) => "OverflowNeg",
                mir::AssertKind::DivisionByZero(..) => "DivisionByZero",
                mir::AssertKind::RemainderByZero(..) => "RemainderByZero",
                _ => "Other",
            };
            let _ = kind;
            format!(
                "{{\"k\":\"assert\",{},\"cond\":{},\"expected\":{},\"msg\":{},\"t\":{},\"unwind\":{}}}",
                head,
                operand_json(cx, body, cond, te),
                expected,
                jstr(name),
                bbi(*target),
                unwind_json(unwind)
            )
        }
        TerminatorKind::Yield { value, resume, resume_arg, drop } => format!(
            "{{\"k\":\"yield\",{},\"v\":{},\"t\":{},\"resume_arg\":{},\"drop\":{}}}",
            head,
            operand_json(cx, body, value, te),
            bbi(*resume),
            place_json(cx, body, resume_arg),
            drop.map(|b| format!("{}", bbi(b))).unwrap_or_else(|| "null".into())
        ),
        TerminatorKind::Call { func, args, destination, target, unwind, fn_span, .. } => {
            let mut o = format!("{{\"k\":\"call\",{},", head);
            let (_, fl) = span_line(tcx, *fn_span);
            let _ = write!(o, "\"fl\":{},", fl);
            callee_json(cx, body, func, te, &mut o);
            let mut v = Vec::new();
            for a in args.iter() {
                v.push(operand_json(cx, body, &a.node, te));
            }
            let _ = write!(
                o,
                ",\"args\":{},\"dest\":{},\"dty\":{},\"t\":{},\"unwind\":{}}}",
                jlist(v),
                place_json(cx, body, destination),
                jstr(&ty_str(destination.ty(&body.local_decls, tcx).ty)),
                target.map(|b| format!("{}", bbi(b))).unwrap_or_else(|| "null".into()),
                unwind_json(unwind)
            );
            o
        }
        TerminatorKind::TailCall { func, args, .. } => {
            let mut o = format!("{{\"k\":\"tailcall\",{},", head);
            callee_json(cx, body, func, te, &mut o);
            let mut v = Vec::new();
            for a in args.iter() {
                v.push(operand_json(cx, body, &a.node, te));
            }
            let _ = write!(o, ",\"args\":{}}}", jlist(v));
            o
        }
        TerminatorKind::InlineAsm { .. } => format!("{{\"k\":\"asm\",{}}}", head),
    }
}

fn callee_json<'tcx>(
    cx: &mut Cx<'tcx>,
    body: &Body<'tcx>,
    func: &Operand<'tcx>,
    te: TypingEnv<'tcx>,
    o: &mut String,
) {
    let tcx = cx.tcx;
    if let Some((did, args)) = func.const_fn_def() {
        let _ = write!(o, "\"callee\":{},\"substs\":{}", jstr(&path_of(tcx, did)), substs_json(args));
        // trait method? record trait + self type and try to resolve to the impl
        if let Some(tr) = tcx.trait_of_assoc(did) {
            let _ = write!(o, ",\"trait\":{}", jstr(&path_of(tcx, tr)));
            if let Some(st) = args.types().next() {
                let _ = write!(o, ",\"self_ty\":{}", jstr(&ty_str(st)));
            }
        }
        if matches!(tcx.def_kind(did), DefKind::Fn | DefKind::AssocFn) {
            let resolved = std::panic::catch_unwind(std::panic::AssertUnwindSafe(|| {
                Instance::try_resolve(tcx, te, did, args)
            }));
            if let Ok(Ok(Some(inst))) = resolved {
                let rd = inst.def_id();
                if rd != did {
                    let _ = write!(o, ",\"resolved\":{}", jstr(&path_of(tcx, rd)));
                }
                match inst.def {
                    ty::InstanceKind::Item(_) => {}
                    ref other => {
                        let tag = format!("{:?}", other);
                        let tag = tag.split('(').next().unwrap_or("").to_string();
                        let _ = write!(o, ",\"inst\":{}", jstr(&tag));
                    }
                }
            }
        }
    } else {
        let _ = write!(o, "\"callee\":null,\"fnop\":{}", operand_json(cx, body, func, te));
        let fty = func.ty(&body.local_decls, tcx);
        let _ = write!(o, ",\"fnty\":{}", jstr(&ty_str(fty)));
    }
}

fn main() {
    let mut args: Vec<String> = std::env::args().collect();
    // as RUSTC_WORKSPACE_WRAPPER: argv[1] is the real rustc
    if args.len() > 1 && (args[1].ends_with("rustc") || args[1].contains("/rustc")) {
        args.remove(1);
    }
    let mut cb = Cb;
    rustc_driver::run_compiler(&args, &mut cb);
}
