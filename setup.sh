#!/bin/bash
# Builds the irohlint driver and pre-warms the dependency check cache (offline).
set -e
cd "$(dirname "$0")"
export CARGO_NET_OFFLINE=true
(cd driver && cargo +nightly build --release --offline)
# warm extraction of the current tree (also compiles dependencies' metadata once)
./check --warm
